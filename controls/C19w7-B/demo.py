"""Check program for commit B (`step_size` keyword of compute_rays and
compute_rays_fancy, new helper compute_directions_fancy).

Run as:  cd /tmp/wt7-C19 && /venv/bin/python -W ignore _seed/B/demo.py

The checks of the new keyword / helper are only run when they exist, i.e. the
program passes on the clean tree as well.

Every ray produced by the library (compute_ray, compute_rays,
compute_rays_fancy, their cached variants, and the raytracing visibility /
observation functions built on them) is compared with an independent, purely
scalar re-implementation contained in this file, and the structural
properties of rays (C19) are asserted explicitly.
"""
import inspect
import math
import os
import sys

sys.path.insert(0, os.getcwd())

import numpy as np  # noqa: E402

from gym_gridverse.agent import Agent  # noqa: E402
from gym_gridverse.envs import observation_functions as obs_fs  # noqa: E402
from gym_gridverse.envs import visibility_functions as vis_fs  # noqa: E402
from gym_gridverse.geometry import Area, Orientation, Position  # noqa: E402
from gym_gridverse.grid import Grid  # noqa: E402
from gym_gridverse.grid_object import Floor, Hidden, Wall  # noqa: E402
from gym_gridverse.state import State  # noqa: E402
from gym_gridverse.utils import raytracing as rt  # noqa: E402

CHECKS = 0


def check(condition, *info):
    global CHECKS
    CHECKS += 1
    if not condition:
        raise AssertionError(info)


# ---------------------------------------------------------------------------
# independent scalar reference
# ---------------------------------------------------------------------------


def ref_compute_ray(position, area, *, radians, step_size, unique=True):
    if not (
        area.ys[0] <= position.y <= area.ys[1]
        and area.xs[0] <= position.x <= area.xs[1]
    ):
        raise ValueError('outside')

    y0, x0 = float(position.y), float(position.x)
    dy = step_size * math.sin(radians)
    dx = step_size * math.cos(radians)

    cells = []
    seen = set()
    i = 0
    while True:
        y, x = round(y0 + i * dy), round(x0 + i * dx)
        if not (area.ys[0] <= y <= area.ys[1] and area.xs[0] <= x <= area.xs[1]):
            break
        if not unique or (y, x) not in seen:
            seen.add((y, x))
            cells.append((y, x))
        i += 1
    return cells


def ref_compute_rays(position, area, step_size=0.01):
    return [
        ref_compute_ray(
            position, area, radians=deg * (math.pi / 180.0), step_size=step_size
        )
        for deg in range(360)
    ]


def ref_fancy_angles(position, area):
    # corners of all the cells, relative to the centre of the origin cell
    ys = np.linspace(area.ys[0], area.ys[1] + 1, num=area.height + 1) - 0.5
    xs = np.linspace(area.xs[0], area.xs[1] + 1, num=area.width + 1) - 0.5
    ys = ys - position.y
    xs = xs - position.x
    yys, xxs = np.meshgrid(ys, xs)
    return np.sort(np.arctan2(yys, xxs), axis=None)


def ref_compute_rays_fancy(position, area, step_size=0.01):
    return [
        ref_compute_ray(position, area, radians=rad, step_size=step_size)
        for rad in ref_fancy_angles(position, area)
    ]


def as_cells(ray):
    """library ray -> list of (y, x), checking the exact types on the way"""
    check(type(ray) is list, type(ray))
    cells = []
    for pos in ray:
        check(type(pos) is Position, type(pos))
        check(type(pos.y) is int and type(pos.x) is int, type(pos.y), type(pos.x))
        cells.append((pos.y, pos.x))
    return cells


def as_cells_fast(ray):
    return [(pos.y, pos.x) for pos in ray]


# ---------------------------------------------------------------------------
# structural properties of C19
# ---------------------------------------------------------------------------


def check_ray_structure(cells, position, area):
    check(cells[0] == (position.y, position.x), cells, position)
    check(len(set(cells)) == len(cells), 'revisits', cells)
    for y, x in cells:
        check(area.ymin <= y <= area.ymax and area.xmin <= x <= area.xmax, cells)
    for (ya, xa), (yb, xb) in zip(cells, cells[1:]):
        check(max(abs(ya - yb), abs(xa - xb)) == 1, 'not adjacent', cells)
    y, x = cells[-1]
    check(
        y in (area.ymin, area.ymax) or x in (area.xmin, area.xmax),
        'does not end on border',
        cells,
        area,
    )
    check(len(cells) <= area.height + area.width - 1, cells)


def check_fan(rays_cells, position, area, *, expect_cover):
    for cells in rays_cells:
        check_ray_structure(cells, position, area)
    if expect_cover:
        covered = set().union(*map(set, rays_cells))
        expected = {(p.y, p.x) for p in area.positions()}
        check(covered == expected, 'fan does not cover area', position, area)


# ---------------------------------------------------------------------------
# 1. exhaustive comparison of the fans
# ---------------------------------------------------------------------------


def border_and_centre(area):
    ys = sorted({area.ymin, area.ymax, (area.ymin + area.ymax) // 2})
    xs = sorted({area.xmin, area.xmax, (area.xmin + area.xmax) // 2})
    return [Position(y, x) for y in ys for x in xs]


def test_fans_exhaustive():
    # all the areas up to 7x7 (the view sizes in use are 7x7 and smaller), all
    # the origins inside them
    for height in range(1, 8):
        for width in range(1, 8):
            area = Area((0, height - 1), (0, width - 1))
            for position in area.positions():
                rays = rt.compute_rays_fancy(position, area)
                check(type(rays) is list)
                check(len(rays) == (height + 1) * (width + 1))
                check(len({id(ray) for ray in rays}) == len(rays), 'aliased')
                got = [as_cells(ray) for ray in rays]
                expected = ref_compute_rays_fancy(position, area)
                check(got == expected, 'fancy', position, area)
                check_fan(got, position, area, expect_cover=True)

    # areas as used by the observation functions (agent at the bottom
    # centre), bigger, non-square and translated areas
    areas = [
        Area((-6, 0), (-3, 3)),
        Area((-2, 0), (-1, 1)),
        Area((-4, 0), (-2, 2)),
        Area((-1, 1), (-2, 2)),
        Area((-5, 3), (-1, 9)),
        Area((0, 10), (0, 12)),
        Area((0, 1), (0, 14)),
        Area((3, 17), (-8, -7)),
        Area((100, 104), (-1003, -1000)),
    ]
    for area in areas:
        for position in border_and_centre(area):
            got = [as_cells(ray) for ray in rt.compute_rays_fancy(position, area)]
            expected = ref_compute_rays_fancy(position, area)
            check(got == expected, 'fancy', position, area)
            check_fan(got, position, area, expect_cover=True)

    # fans at 1 degree granularity
    areas = [
        Area((-1, 1), (-2, 2)),
        Area((0, 6), (0, 6)),
        Area((-6, 0), (-3, 3)),
        Area((0, 0), (0, 4)),
        Area((0, 3), (5, 5)),
        Area((0, 0), (0, 0)),
        Area((2, 9), (-4, 8)),
    ]
    for area in areas:
        for position in border_and_centre(area):
            rays = rt.compute_rays(position, area)
            check(len(rays) == 360)
            check(len({id(ray) for ray in rays}) == len(rays), 'aliased')
            got = [as_cells(ray) for ray in rays]
            check(got == ref_compute_rays(position, area), 'rays', position, area)
            check_fan(got, position, area, expect_cover=False)


# ---------------------------------------------------------------------------
# 2. single rays with many directions, step sizes, unique or not
# ---------------------------------------------------------------------------


def test_single_rays():
    rng = np.random.default_rng(19)
    areas = [
        Area((0, 6), (0, 6)),
        Area((-1, 1), (-2, 2)),
        Area((0, 0), (0, 9)),
        Area((-3, 8), (4, 6)),
        Area((0, 0), (0, 0)),
        Area((-40, 40), (-25, 25)),
    ]
    step_sizes = [0.01, 0.1, 0.25, 0.5, 1, 1.0, 2.5, 0.003, -0.01, -1, 7, 1e-3]
    special_radians = [
        0.0,
        -0.0,
        math.pi / 4,
        math.pi / 2,
        math.pi,
        -math.pi,
        3 * math.pi / 2,
        2 * math.pi,
        math.atan2(0.5, 0.5),
        math.atan2(1.5, 0.5),
        math.atan2(-2.5, 1.5),
        1e-9,
        -1e-9,
        100.0,
        np.float64(1.25),
        np.float32(2.5),
        3,
    ]
    for area in areas:
        positions = border_and_centre(area)
        for position in positions:
            radians = special_radians + list(rng.uniform(-7.0, 7.0, size=12))
            for rad in radians:
                for step_size in step_sizes:
                    if area.height > 20 and abs(step_size) < 0.1:
                        continue
                    for unique in (True, False):
                        got = rt.compute_ray(
                            position,
                            area,
                            radians=rad,
                            step_size=step_size,
                            unique=unique,
                        )
                        expected = ref_compute_ray(
                            position,
                            area,
                            radians=rad,
                            step_size=step_size,
                            unique=unique,
                        )
                        check(
                            as_cells(got) == expected,
                            position,
                            area,
                            rad,
                            step_size,
                            unique,
                        )

    # default of `unique`
    area, position = Area((0, 4), (0, 5)), Position(2, 1)
    for rad in rng.uniform(-4, 4, size=50):
        got = rt.compute_ray(position, area, radians=rad, step_size=0.01)
        expected = ref_compute_ray(position, area, radians=rad, step_size=0.01)
        check(as_cells(got) == expected)

    # exact half-way points:  round-half-to-even in both implementations
    area = Area((-6, 6), (-6, 6))
    for position in [Position(0, 0), Position(1, -1), Position(-6, 6)]:
        for rad in [0.0, math.pi / 2, math.pi, -math.pi / 2, math.atan2(1, 1)]:
            for step_size in [0.5, 0.25, 0.125, 1.5]:
                for unique in (True, False):
                    got = rt.compute_ray(
                        position,
                        area,
                        radians=rad,
                        step_size=step_size,
                        unique=unique,
                    )
                    expected = ref_compute_ray(
                        position,
                        area,
                        radians=rad,
                        step_size=step_size,
                        unique=unique,
                    )
                    check(as_cells(got) == expected, position, rad, step_size)


# ---------------------------------------------------------------------------
# 3. unusual parameters, errors
# ---------------------------------------------------------------------------


def outcome(function, *args, **kwargs):
    try:
        result = function(*args, **kwargs)
    except Exception as error:  # pylint: disable=broad-except
        return ('raises', type(error))
    return ('returns', [(p.y, p.x) for p in result] if result and isinstance(result[0], Position) else result)


def test_unusual():
    area = Area((-1, 1), (-2, 2))

    # positions outside of the area
    for position in [
        Position(2, 0),
        Position(-2, 0),
        Position(0, 3),
        Position(0, -3),
        Position(5, 5),
    ]:
        for step_size in [0.01, 1.0, 0.0, math.nan]:
            try:
                rt.compute_ray(position, area, radians=0.0, step_size=step_size)
            except ValueError as error:
                check(
                    str(error) == f'Position {position} is not inside area {area}'
                )
            else:
                check(False, 'no error', position)
        for function in (
            rt.compute_rays,
            rt.compute_rays_fancy,
            rt.cached_compute_rays,
            rt.cached_compute_rays_fancy,
        ):
            check(outcome(function, position, area) == ('raises', ValueError))

    # non finite directions and steps fail exactly as they used to
    position = Position(0, 0)
    cases = [
        dict(radians=math.nan, step_size=0.01),
        dict(radians=math.inf, step_size=0.01),
        dict(radians=-math.inf, step_size=0.01),
        dict(radians=0.3, step_size=math.nan),
        dict(radians=0.3, step_size=math.inf),
        dict(radians=0.0, step_size=math.inf),
        dict(radians=0.3, step_size=-math.inf),
        dict(radians='0.3', step_size=0.01),
        dict(radians=0.3, step_size='0.01'),
        dict(radians=0.3, step_size=None),
        dict(radians=None, step_size=0.01),
        dict(radians=0.3, step_size=1j),
    ]
    for kwargs in cases:
        for unique in (True, False):
            got = outcome(rt.compute_ray, position, area, unique=unique, **kwargs)
            expected = outcome(
                ref_compute_ray, position, area, unique=unique, **kwargs
            )
            check(got == expected, kwargs, got, expected)
            check(got[0] == 'raises', kwargs, got)

    # huge steps, tiny areas, big numbers
    cases = [
        (Position(0, 0), area, dict(radians=0.3, step_size=1e300)),
        (Position(0, 0), area, dict(radians=0.3, step_size=1.7e308)),
        (Position(0, 0), area, dict(radians=0.3, step_size=-1e300)),
        (Position(0, 0), area, dict(radians=0.3, step_size=1e10)),
        (Position(0, 0), area, dict(radians=0.3, step_size=2.0**31)),
        (Position(0, 0), area, dict(radians=0.3, step_size=2.0**33)),
        (Position(0, 0), area, dict(radians=0.3, step_size=10**12)),
        (Position(0, 0), area, dict(radians=0.0, step_size=3)),
        (Position(0, 0), area, dict(radians=0.0, step_size=True)),
        (Position(0, 0), area, dict(radians=True, step_size=0.5)),
        (Position(0, 0), area, dict(radians=0.5, step_size=np.float64(0.5))),
        (Position(0, 0), area, dict(radians=0.5, step_size=np.float32(0.5))),
        (Position(0, 0), area, dict(radians=0.5, step_size=np.int64(1))),
        (
            Position(2**40, -(2**40)),
            Area((2**40 - 2, 2**40 + 2), (-(2**40) - 3, -(2**40) + 3)),
            dict(radians=2.0, step_size=0.5),
        ),
        (
            Position(2**31, 2**31 - 3),
            Area((2**31 - 4, 2**31), (2**31 - 6, 2**31)),
            dict(radians=4.0, step_size=0.25),
        ),
        (
            Position(10**6, 10**6),
            Area((10**6 - 3, 10**6 + 3), (10**6 - 3, 10**6 + 3)),
            dict(radians=4.0, step_size=0.01),
        ),
        (
            Position(0, 0),
            Area((0, 0), (0, 3000)),
            dict(radians=0.0, step_size=0.01),
        ),
        (
            Position(0, 0),
            Area((0, 0), (0, 300000)),
            dict(radians=0.0, step_size=1.0),
        ),
        (
            Position(0, 0),
            Area((0, 20), (0, 300000)),
            dict(radians=1e-4, step_size=0.7),
        ),
        # areas whose bounds are not plain tuples of ints
        (Position(1, 1), Area([0, 2], (0, 3)), dict(radians=0.7, step_size=0.01)),
        (Position(1, 1), Area((0, 2), [0, 3]), dict(radians=0.7, step_size=0.01)),
        (
            Position(1, 1),
            Area((np.int64(0), np.int64(2)), (np.int32(0), np.int32(3))),
            dict(radians=0.7, step_size=0.01),
        ),
        (
            Position(1, 1),
            Area((0.0, 2.0), (0.0, 3.0)),
            dict(radians=0.7, step_size=0.01),
        ),
        (
            Position(1, 1),
            Area((-0.5, 2.5), (0.25, 3.75)),
            dict(radians=3.7, step_size=0.01),
        ),
        (Position(1, 1), Area((False, 2), (True, 3)), dict(radians=3.7, step_size=0.01)),
        # positions whose coordinates are not plain ints
        (Position(1.0, 2.0), Area((0, 2), (0, 3)), dict(radians=2.7, step_size=0.01)),
        (Position(0.5, 1.5), Area((0, 2), (0, 3)), dict(radians=2.7, step_size=0.01)),
        (Position(1.5, 2.5), Area((0, 2), (0, 3)), dict(radians=5.7, step_size=0.01)),
        (Position(0.25, 2.75), Area((0, 2), (0, 3)), dict(radians=0.2, step_size=0.3)),
        (
            Position(np.int64(1), np.int64(2)),
            Area((0, 2), (0, 3)),
            dict(radians=2.7, step_size=0.01),
        ),
        (Position(True, False), Area((0, 2), (0, 3)), dict(radians=0.7, step_size=0.01)),
    ]
    for position, area_, kwargs in cases:
        for unique in (True, False):
            got = rt.compute_ray(position, area_, unique=unique, **kwargs)
            expected = ref_compute_ray(position, area_, unique=unique, **kwargs)
            check(as_cells(got) == expected, position, area_, kwargs, unique)


# ---------------------------------------------------------------------------
# 4. caching:  deterministic, independent of the order of earlier queries
# ---------------------------------------------------------------------------


def test_caching():
    rng = np.random.default_rng(7)
    areas = [
        Area((-6, 0), (-3, 3)),
        Area((0, 2), (0, 4)),
        Area((-1, 1), (-2, 2)),
        Area((0, 4), (0, 1)),
    ]
    queries = [
        (position, area) for area in areas for position in border_and_centre(area)
    ]
    expected = {
        query: ref_compute_rays_fancy(*query) for query in queries
    }
    expected_deg = {query: ref_compute_rays(*query) for query in queries[:6]}

    for round_ in range(3):
        if round_ == 1:
            rt.cached_compute_rays_fancy.cache_clear()
            rt.cached_compute_rays.cache_clear()
        order = rng.permutation(len(queries))
        for index in order:
            position, area = queries[index]
            # equal (not identical) arguments hit the same cache entry
            first = rt.cached_compute_rays_fancy(
                Position(position.y, position.x), Area(area.ys, area.xs)
            )
            second = rt.cached_compute_rays_fancy(position, area)
            check(first is second, 'cache miss')
            check([as_cells_fast(r) for r in first] == expected[position, area])
            fresh = rt.compute_rays_fancy(position, area)
            check(fresh is not first)
            check(fresh == first)
            check(len({id(ray) for ray in first}) == len(first), 'aliased')
            if (position, area) in expected_deg:
                rays = rt.cached_compute_rays(position, area)
                check(rays is rt.cached_compute_rays(position, area))
                check(
                    [as_cells_fast(r) for r in rays]
                    == expected_deg[position, area]
                )

    info = rt.cached_compute_rays_fancy.cache_info()
    check(info.hits > 0 and info.misses > 0 and info.maxsize == 128, info)


# ---------------------------------------------------------------------------
# 5. the visibility and observation functions built on the rays
# ---------------------------------------------------------------------------


def ref_counts(grid, position):
    counts_num = np.zeros((grid.shape.height, grid.shape.width), dtype=int)
    counts_den = np.zeros((grid.shape.height, grid.shape.width), dtype=int)
    for cells in ref_compute_rays_fancy(position, grid.area):
        light = True
        for y, x in cells:
            counts_num[y, x] += int(light)
            counts_den[y, x] += 1
            light = light and not grid[Position(y, x)].blocks_vision
    return counts_num, counts_den


def random_grid(rng, height, width, density):
    return Grid(
        [
            [Wall() if rng.random() < density else Floor() for _ in range(width)]
            for _ in range(height)
        ]
    )


def test_visibility():
    rng = np.random.default_rng(1234)
    shapes = [(1, 1), (1, 5), (4, 1), (3, 3), (7, 7), (5, 3), (2, 7), (3, 5), (6, 9)]
    for height, width in shapes:
        for density in (0.0, 0.2, 0.5):
            grid = random_grid(rng, height, width, density)
            for position in border_and_centre(grid.area):
                counts_num, counts_den = ref_counts(grid, position)

                visibility = vis_fs.raytracing(grid, position)
                check(visibility.dtype == bool)
                check(np.array_equal(visibility, counts_num >= 1))
                if density == 0.0:
                    # unobstructed views show everything
                    check(visibility.all(), 'unobstructed view hides cells')

                for threshold in (1, 2, 5):
                    visibility = vis_fs.raytracing(
                        grid, position, absolute_counts=True, threshold=threshold
                    )
                    check(np.array_equal(visibility, counts_num >= threshold))
                for threshold in (0.1, 0.5, 1.0):
                    visibility = vis_fs.raytracing(
                        grid, position, absolute_counts=False, threshold=threshold
                    )
                    check(
                        np.array_equal(
                            visibility, (counts_num / counts_den) >= threshold
                        )
                    )

                # stochastic:  same draws from the same generator
                for seed in range(3):
                    visibility = vis_fs.stochastic_raytracing(
                        grid, position, rng=np.random.default_rng(seed)
                    )
                    rng_ref = np.random.default_rng(seed)
                    probs = np.nan_to_num(counts_num / counts_den)
                    expected = rng_ref.random(probs.shape) < probs
                    check(np.array_equal(visibility, expected))

                    generator = np.random.default_rng(seed)
                    vis_fs.stochastic_raytracing(grid, position, rng=generator)
                    check(generator.random() == rng_ref.random(), 'draws')

    # through the factories
    grid = random_grid(rng, 5, 4, 0.3)
    position = Position(4, 2)
    counts_num, _ = ref_counts(grid, position)
    function = vis_fs.factory('raytracing', absolute_counts=True, threshold=3)
    check(np.array_equal(function(grid, position), counts_num >= 3))


def test_observations():
    rng = np.random.default_rng(99)
    areas = [Area((-6, 0), (-3, 3)), Area((-2, 0), (-1, 1)), Area((-3, 1), (-2, 4))]
    for height, width in [(5, 8), (9, 4), (6, 6)]:
        grid = random_grid(rng, height, width, 0.25)
        for area in areas:
            observation_function = obs_fs.factory('raytracing', area=area)
            for position in border_and_centre(grid.area):
                for orientation in Orientation:
                    state = State(grid, Agent(position, orientation))
                    observation = observation_function(state)
                    again = observation_function(state)
                    check(observation == again, 'not deterministic')

                    pov_area = state.agent.transform * area
                    pov_position = Position(-area.ymin, -area.xmin)
                    pov_grid = state.grid.subgrid(pov_area) * orientation
                    counts_num, _ = ref_counts(pov_grid, pov_position)
                    for pos in pov_grid.area.positions():
                        expected = (
                            pov_grid[pos]
                            if counts_num[pos.y, pos.x] >= 1
                            else Hidden()
                        )
                        check(observation.grid[pos] == expected, pos)


# ---------------------------------------------------------------------------
# 6. the new keyword and helper (only if present)
# ---------------------------------------------------------------------------


def test_signatures():
    for function in (rt.compute_rays, rt.compute_rays_fancy):
        parameters = list(inspect.signature(function).parameters.values())
        check([p.name for p in parameters[:2]] == ['position', 'area'])
        check(
            all(
                p.kind is inspect.Parameter.POSITIONAL_OR_KEYWORD
                and p.default is inspect.Parameter.empty
                for p in parameters[:2]
            )
        )
        # anything new is keyword-only and optional
        for parameter in parameters[2:]:
            check(parameter.kind is inspect.Parameter.KEYWORD_ONLY)
            check(parameter.default is not inspect.Parameter.empty)
        # positional step sizes keep failing
        check(
            outcome(function, Position(0, 0), Area((0, 1), (0, 1)), 0.01)
            == ('raises', TypeError)
        )
    check(hasattr(rt.cached_compute_rays, 'cache_info'))
    check(hasattr(rt.cached_compute_rays_fancy, 'cache_info'))
    check(rt.cached_compute_rays.__wrapped__ is rt.compute_rays)
    check(rt.cached_compute_rays_fancy.__wrapped__ is rt.compute_rays_fancy)


def has_step_size(function):
    return 'step_size' in inspect.signature(function).parameters


def test_feature():
    if hasattr(rt, 'compute_directions_fancy'):
        for height in range(1, 8):
            for width in range(1, 8):
                area = Area((-height + 1, 0), (-(width // 2), width - 1 - width // 2))
                for position in area.positions():
                    directions = rt.compute_directions_fancy(position, area)
                    expected = ref_fancy_angles(position, area)
                    check(type(directions) is np.ndarray)
                    check(directions.shape == ((height + 1) * (width + 1),))
                    check(directions.dtype == np.float64)
                    check(np.array_equal(directions, expected))
                    check(np.all(np.diff(directions) >= 0))
                    # fresh arrays, nothing shared between calls
                    again = rt.compute_directions_fancy(position, area)
                    check(again is not directions)
                    check(not np.shares_memory(again, directions))
        print('compute_directions_fancy checked')

    if hasattr(rt, 'DEFAULT_STEP_SIZE'):
        check(rt.DEFAULT_STEP_SIZE == 0.01 and type(rt.DEFAULT_STEP_SIZE) is float)

    if not (has_step_size(rt.compute_rays) and has_step_size(rt.compute_rays_fancy)):
        return

    areas = [
        Area((-6, 0), (-3, 3)),
        Area((0, 2), (0, 5)),
        Area((-1, 1), (-2, 2)),
        Area((0, 0), (0, 0)),
        Area((3, 3), (-4, 1)),
    ]
    step_sizes = [0.01, 0.05, 0.1, 0.25, 0.5, 1.0, 1, -0.01, 2.5]
    for area in areas:
        for position in border_and_centre(area):
            default_fancy = rt.compute_rays_fancy(position, area)
            default_deg = rt.compute_rays(position, area)
            for step_size in step_sizes:
                rays = rt.compute_rays_fancy(position, area, step_size=step_size)
                check(len(rays) == (area.height + 1) * (area.width + 1))
                check(len({id(ray) for ray in rays}) == len(rays), 'aliased')
                check(
                    [as_cells(ray) for ray in rays]
                    == ref_compute_rays_fancy(position, area, step_size),
                    position,
                    area,
                    step_size,
                )
                if step_size == 0.01:
                    check(rays == default_fancy)

                if area.height > 3:
                    continue
                rays = rt.compute_rays(position, area, step_size=step_size)
                check(len(rays) == 360)
                check(
                    [as_cells(ray) for ray in rays]
                    == ref_compute_rays(position, area, step_size),
                    position,
                    area,
                    step_size,
                )
                if step_size == 0.01:
                    check(rays == default_deg)

            # structure for the fine steps (coarse steps may jump over cells)
            for step_size in (0.01, 0.05, 0.1):
                rays = rt.compute_rays_fancy(position, area, step_size=step_size)
                for ray in rays:
                    check_ray_structure(as_cells_fast(ray), position, area)

    # the keyword is part of the cache key, defaults share the old entries
    area, position = Area((-2, 0), (-1, 1)), Position(0, 0)
    rt.cached_compute_rays_fancy.cache_clear()
    default = rt.cached_compute_rays_fancy(position, area)
    coarse = rt.cached_compute_rays_fancy(position, area, step_size=1.0)
    check(coarse is not default)
    check(
        [as_cells_fast(r) for r in coarse]
        == ref_compute_rays_fancy(position, area, 1.0)
    )
    check(rt.cached_compute_rays_fancy(position, area) is default)
    check(rt.cached_compute_rays_fancy(position, area, step_size=1.0) is coarse)
    check(
        [as_cells_fast(r) for r in default] == ref_compute_rays_fancy(position, area)
    )
    explicit = rt.cached_compute_rays_fancy(position, area, step_size=0.01)
    check(explicit == default)
    # the visibility functions (which use the default) are not affected by
    # earlier queries with other step sizes
    grid = Grid([[Floor(), Wall(), Floor()], [Floor(), Floor(), Wall()], [Floor()] * 3])
    rt.cached_compute_rays_fancy.cache_clear()
    rt.cached_compute_rays_fancy(Position(2, 1), grid.area, step_size=1.0)
    rt.cached_compute_rays_fancy(Position(2, 1), grid.area, step_size=0.5)
    counts_num, _ = ref_counts(grid, Position(2, 1))
    check(np.array_equal(vis_fs.raytracing(grid, Position(2, 1)), counts_num >= 1))

    # errors
    for function in (
        rt.compute_rays,
        rt.compute_rays_fancy,
        rt.cached_compute_rays,
        rt.cached_compute_rays_fancy,
    ):
        check(
            outcome(function, Position(5, 5), area, step_size=0.1)
            == ('raises', ValueError)
        )
        check(
            outcome(function, position, area, step_size='0.1')
            == ('raises', TypeError)
        )
        check(
            outcome(function, position, area, step_size=math.nan)
            == ('raises', ValueError)
        )
    print('step_size keyword checked')


def main():
    test_signatures()
    test_feature()
    test_unusual()
    test_single_rays()
    test_caching()
    test_visibility()
    test_observations()
    test_fans_exhaustive()
    # the caches are still consistent after everything above
    test_caching()
    print(f'OK ({CHECKS} checks)')


if __name__ == '__main__':
    main()
