import itertools
import math
import os
import random
import sys

sys.path.insert(0, os.getcwd())

import numpy as np  # noqa: E402
import numpy.random as rnd  # noqa: E402

from gym_gridverse.action import Action  # noqa: E402
from gym_gridverse.agent import Agent  # noqa: E402
from gym_gridverse.debugging import reset_gv_debug  # noqa: E402
from gym_gridverse.envs import observation_functions as obs_fs  # noqa: E402
from gym_gridverse.envs import reward_functions as rew_fs  # noqa: E402
from gym_gridverse.envs import terminating_functions as ter_fs  # noqa: E402
from gym_gridverse.envs import transition_functions as tr_fs  # noqa: E402
from gym_gridverse.envs.gridworld import GridWorld  # noqa: E402
from gym_gridverse.envs.utils import get_next_position  # noqa: E402
from gym_gridverse.geometry import (  # noqa: E402
    Orientation,
    Position,
    Shape,
)
from gym_gridverse.grid import Grid  # noqa: E402
from gym_gridverse.grid_object import (  # noqa: E402
    Beacon,
    Box,
    Color,
    Door,
    Exit,
    Floor,
    Hidden,
    Key,
    MovingObstacle,
    NoneGridObject,
    Telepod,
    Wall,
)
from gym_gridverse.observation import Observation  # noqa: E402
from gym_gridverse.spaces import (  # noqa: E402
    ActionSpace,
    ObservationSpace,
    StateSpace,
)
from gym_gridverse.state import State  # noqa: E402

reset_gv_debug(True)

# ---------------------------------------------------------------------------
# plain-data model of states, independent from the library classes
# ---------------------------------------------------------------------------
# objects are tuples: ('Floor',) ('Wall',) ('Exit',) ('MovingObstacle',)
# ('Door', status, color) ('Key', color) ('Telepod', color) ('Beacon', color)
# ('Box', content) ('None',) ('Hidden',)
# orientation is a compass index 0=N(up) 1=E 2=S 3=W;  N corresponds to the
# library's FORWARD orientation

ALL_ACTIONS = list(Action)
DELTAS = [(-1, 0), (0, 1), (1, 0), (0, -1)]
ORIENTATIONS = [Orientation.F, Orientation.R, Orientation.B, Orientation.L]
MOVE_TURNS = {
    'MOVE_FORWARD': 0,
    'MOVE_RIGHT': 1,
    'MOVE_BACKWARD': 2,
    'MOVE_LEFT': 3,
}
COLOR_BY_NAME = {color.name: color for color in Color}
STATUS_BY_NAME = {status.name: status for status in Door.Status}

DECLARED_TYPES = [
    Floor,
    Wall,
    Exit,
    Door,
    Key,
    MovingObstacle,
    Box,
    Telepod,
    Beacon,
]
DECLARED_TYPE_NAMES = {t.__name__ for t in DECLARED_TYPES}
DECLARED_COLORS = [Color.RED, Color.GREEN, Color.BLUE, Color.YELLOW]
DECLARED_COLOR_NAMES = {c.name for c in DECLARED_COLORS} | {'NONE'}


def build(t):
    """plain tuple -> library object"""
    kind = t[0]
    if kind == 'Floor':
        return Floor()
    if kind == 'Wall':
        return Wall()
    if kind == 'Exit':
        return Exit() if len(t) == 1 else Exit(COLOR_BY_NAME[t[1]])
    if kind == 'MovingObstacle':
        return MovingObstacle()
    if kind == 'Door':
        return Door(STATUS_BY_NAME[t[1]], COLOR_BY_NAME[t[2]])
    if kind == 'Key':
        return Key(COLOR_BY_NAME[t[1]])
    if kind == 'Telepod':
        return Telepod(COLOR_BY_NAME[t[1]])
    if kind == 'Beacon':
        return Beacon(COLOR_BY_NAME[t[1]])
    if kind == 'Box':
        return Box(build(t[1]))
    if kind == 'None':
        return NoneGridObject()
    if kind == 'Hidden':
        return Hidden()
    raise AssertionError(t)


def enc(obj):
    """library object -> plain tuple (by exact type)"""
    kind = type(obj).__name__
    if kind in ('Floor', 'Wall', 'MovingObstacle'):
        return (kind,)
    if kind == 'Exit':
        return ('Exit',) if obj.color is Color.NONE else ('Exit', obj.color.name)
    if kind == 'Door':
        return ('Door', obj.state.name, obj.color.name)
    if kind in ('Key', 'Telepod', 'Beacon'):
        return (kind, obj.color.name)
    if kind == 'Box':
        return ('Box', enc(obj.content))
    if kind == 'NoneGridObject':
        return ('None',)
    if kind == 'Hidden':
        return ('Hidden',)
    raise AssertionError(obj)


def color_of(t):
    if t[0] in ('Key', 'Telepod', 'Beacon'):
        return t[1]
    if t[0] == 'Door':
        return t[2]
    if t[0] == 'Exit' and len(t) == 2:
        return t[1]
    return 'NONE'


def blocks_movement(t):
    return t[0] in ('Wall', 'Box') or (t[0] == 'Door' and t[1] != 'OPEN')


def holdable(t):
    return t[0] == 'Key'


def build_state(m):
    grid = Grid([[build(t) for t in row] for row in m['grid']])
    agent = Agent(
        Position(*m['pos']), ORIENTATIONS[m['ori']], build(m['held'])
    )
    return State(grid, agent)


def enc_state(state):
    return {
        'grid': [[enc(obj) for obj in row] for row in state.grid.objects],
        'pos': (state.agent.position.y, state.agent.position.x),
        'ori': ORIENTATIONS.index(state.agent.orientation),
        'held': enc(state.agent.grid_object),
    }


def copy_model(m):
    return {
        'grid': [list(row) for row in m['grid']],
        'pos': m['pos'],
        'ori': m['ori'],
        'held': m['held'],
    }


def in_grid(m, p):
    return 0 <= p[0] < len(m['grid']) and 0 <= p[1] < len(m['grid'][0])


def front_of(m):
    d = DELTAS[m['ori']]
    return (m['pos'][0] + d[0], m['pos'][1] + d[1])


def cells(m):
    return [
        (y, x)
        for y in range(len(m['grid']))
        for x in range(len(m['grid'][0]))
    ]


# ---------------------------------------------------------------------------
# reference (independent) transition functions on the plain-data model
# ---------------------------------------------------------------------------


def ref_move_agent(m, action, rng):
    if action.name not in MOVE_TURNS:
        return
    d = DELTAS[(m['ori'] + MOVE_TURNS[action.name]) % 4]
    p = (m['pos'][0] + d[0], m['pos'][1] + d[1])
    if in_grid(m, p) and not blocks_movement(m['grid'][p[0]][p[1]]):
        m['pos'] = p


def ref_turn_agent(m, action, rng):
    if action.name == 'TURN_LEFT':
        m['ori'] = (m['ori'] + 3) % 4
    elif action.name == 'TURN_RIGHT':
        m['ori'] = (m['ori'] + 1) % 4


def ref_pickndrop(m, action, rng):
    if action.name != 'PICK_N_DROP':
        return
    p = front_of(m)
    if not in_grid(m, p):
        return
    front = m['grid'][p[0]][p[1]]
    if front[0] != 'Floor' and not holdable(front):
        return
    m['grid'][p[0]][p[1]] = ('Floor',) if m['held'] == ('None',) else m['held']
    m['held'] = front if holdable(front) else ('None',)


def ref_move_obstacles(m, action, rng):
    sources = [p for p in cells(m) if m['grid'][p[0]][p[1]][0] == 'MovingObstacle']
    for y, x in sources:
        targets = [
            q
            for q in [(y - 1, x), (y, x + 1), (y + 1, x), (y, x - 1)]
            if in_grid(m, q) and m['grid'][q[0]][q[1]] == ('Floor',)
        ]
        if targets:
            q = targets[int(rng.choice(len(targets)))]
            a, b = m['grid'][y][x], m['grid'][q[0]][q[1]]
            m['grid'][y][x], m['grid'][q[0]][q[1]] = b, a


def ref_actuate_door(m, action, rng):
    if action.name != 'ACTUATE':
        return
    p = front_of(m)
    if not in_grid(m, p):
        return
    front = m['grid'][p[0]][p[1]]
    if front[0] != 'Door':
        return
    _, status, color = front
    if status == 'CLOSED':
        status = 'OPEN'
    elif status == 'LOCKED' and m['held'] == ('Key', color):
        status = 'OPEN'
    m['grid'][p[0]][p[1]] = ('Door', status, color)


def ref_actuate_box(m, action, rng):
    if action.name != 'ACTUATE':
        return
    p = front_of(m)
    if not in_grid(m, p):
        return
    front = m['grid'][p[0]][p[1]]
    if front[0] == 'Box':
        m['grid'][p[0]][p[1]] = front[1]


def ref_teleport(m, action, rng):
    here = m['grid'][m['pos'][0]][m['pos'][1]]
    if here[0] != 'Telepod':
        return
    targets = [
        p for p in cells(m) if p != m['pos'] and m['grid'][p[0]][p[1]] == here
    ]
    if targets:
        m['pos'] = targets[int(rng.choice(len(targets)))]


REFS = {
    'move_agent': ref_move_agent,
    'turn_agent': ref_turn_agent,
    'pickndrop': ref_pickndrop,
    'move_obstacles': ref_move_obstacles,
    'actuate_door': ref_actuate_door,
    'actuate_box': ref_actuate_box,
    'teleport': ref_teleport,
}
LIBS = {name: getattr(tr_fs, name) for name in REFS}
for _name in REFS:
    assert tr_fs.transition_function_registry[_name] is LIBS[_name], _name


# ---------------------------------------------------------------------------
# reference space-membership predicates
# ---------------------------------------------------------------------------


def ref_state_in_space(m, shape, type_names, color_names):
    """independent version of StateSpace.contains for well-formed states"""
    if (len(m['grid']), len(m['grid'][0])) != shape:
        return False
    for row in m['grid']:
        for t in row:
            if t[0] not in type_names or color_of(t) not in color_names:
                return False
    if not in_grid(m, m['pos']):
        return False
    if m['held'][0] != 'None' and m['held'][0] not in type_names:
        return False
    return color_of(m['held']) in color_names


def ref_observation_in_space(om, shape, type_names, color_names):
    """independent version of ObservationSpace.contains

    `om` is a model with the same format of a state model
    """
    if (len(om['grid']), len(om['grid'][0])) != shape:
        return False
    for row in om['grid']:
        for t in row:
            if t[0] != 'Hidden' and t[0] not in type_names:
                return False
            if color_of(t) not in color_names:
                return False
    if not (0 <= om['pos'][0] < shape[0] and 0 <= om['pos'][1] < shape[1]):
        return False
    if om['held'][0] != 'None' and om['held'][0] not in type_names:
        return False
    return color_of(om['held']) in color_names


# ---------------------------------------------------------------------------
# state catalogues and generators
# ---------------------------------------------------------------------------

CELL_CATALOG = [
    ('Floor',),
    ('Wall',),
    ('Exit',),
    ('MovingObstacle',),
    ('Door', 'OPEN', 'RED'),
    ('Door', 'CLOSED', 'RED'),
    ('Door', 'LOCKED', 'RED'),
    ('Door', 'LOCKED', 'BLUE'),
    ('Door', 'CLOSED', 'NONE'),
    ('Key', 'RED'),
    ('Key', 'BLUE'),
    ('Telepod', 'RED'),
    ('Telepod', 'GREEN'),
    ('Beacon', 'YELLOW'),
    ('Box', ('Floor',)),
    ('Box', ('Key', 'RED')),
    ('Box', ('Wall',)),
    ('Box', ('Box', ('Telepod', 'RED'))),
    ('Box', ('Door', 'LOCKED', 'RED')),
]

HELD_CATALOG = [
    ('None',),
    ('Key', 'RED'),
    ('Key', 'BLUE'),
    ('Key', 'NONE'),
    # unusual but inside the declared state space
    ('Floor',),
    ('Wall',),
    ('Door', 'LOCKED', 'RED'),
    ('Telepod', 'RED'),
    ('Box', ('Key', 'RED')),
    ('MovingObstacle',),
]

SHAPES = [(1, 1), (1, 2), (2, 1), (1, 3), (2, 2), (2, 3), (3, 2), (3, 3), (4, 5)]


def random_model(pyrng, shape, weights=None):
    height, width = shape
    grid = [
        [
            pyrng.choices(CELL_CATALOG, weights=weights)[0]
            for _ in range(width)
        ]
        for _ in range(height)
    ]
    return {
        'grid': grid,
        'pos': (pyrng.randrange(height), pyrng.randrange(width)),
        'ori': pyrng.randrange(4),
        'held': pyrng.choice(HELD_CATALOG),
    }


# ---------------------------------------------------------------------------
# checking helpers
# ---------------------------------------------------------------------------

COUNTS = {}


def count(name, n=1):
    COUNTS[name] = COUNTS.get(name, 0) + n


def rng_fingerprint(rng):
    return repr(rng.bit_generator.state)


def check_transition(name, m, action, seed=0):
    """library in-place transition vs reference, incl. rng consumption

    returns (state_before_identities, state) for further identity checks
    """
    state = build_state(m)
    before = [list(row) for row in state.grid.objects]
    held_before = state.agent.grid_object

    lib_rng = rnd.default_rng(seed)
    ref_rng = rnd.default_rng(seed)
    expected = copy_model(m)
    REFS[name](expected, action, ref_rng)
    result = LIBS[name](state, action, rng=lib_rng)

    assert result is None, (name, m, action)
    got = enc_state(state)
    assert got == expected, (name, m, action, got, expected)
    assert rng_fingerprint(lib_rng) == rng_fingerprint(ref_rng), (
        name,
        m,
        action,
    )
    count(f'transition:{name}')
    return before, held_before, state


def make_spaces(shape, obs_shape=(3, 3)):
    state_space = StateSpace(Shape(*shape), DECLARED_TYPES, DECLARED_COLORS)
    observation_space = ObservationSpace(
        Shape(*obs_shape), DECLARED_TYPES, DECLARED_COLORS
    )
    return state_space, observation_space


REWARD_NAMES_FREE = [
    ('living_reward', {}),
    ('living_reward', {'reward': 0.25}),
    ('reach_exit', {}),
    ('bump_moving_obstacle', {}),
    ('bump_into_wall', {}),
    ('actuate_door', {}),
    ('pickndrop', {'object_type': Key}),
    ('overlap', {'object_type': Telepod, 'reward_on': 2.0}),
]
TERMINATING_NAMES_FREE = [
    ('reach_exit', {}),
    ('bump_moving_obstacle', {}),
    ('bump_into_wall', {}),
    ('overlap', {'object_type': Telepod}),
]
OBSERVATION_NAMES = [
    'fully_transparent',
    'partially_occluded',
    'raytracing',
    'stochastic_raytracing',
]


def make_env(shape, transition_names, variant, obs_shape=(3, 3), actions=None):
    """assemble a GridWorld out of built-in components (by factory name)"""
    state_space, observation_space = make_spaces(shape, obs_shape)
    action_space = ActionSpace(list(Action) if actions is None else actions)

    transition_function = tr_fs.factory(
        'chain',
        transition_functions=[
            tr_fs.factory(name) for name in transition_names
        ],
    )
    rewards = [
        rew_fs.factory(name, **kwargs)
        for i, (name, kwargs) in enumerate(REWARD_NAMES_FREE)
        if (i + variant) % 3 != 0
    ]
    reward_function = rew_fs.factory('reduce_sum', reward_functions=rewards)
    terminatings = [
        ter_fs.factory(name, **kwargs)
        for i, (name, kwargs) in enumerate(TERMINATING_NAMES_FREE)
        if (i + variant) % 2 == 0
    ]
    termination_function = ter_fs.factory(
        'reduce_any' if variant % 2 == 0 else 'reduce_all',
        terminating_functions=terminatings,
    )
    observation_function = obs_fs.factory(
        OBSERVATION_NAMES[variant % len(OBSERVATION_NAMES)],
        area=observation_space.area,
    )

    def reset_function(*, rng=None):
        raise AssertionError('reset is not used by this program')

    return GridWorld(
        state_space,
        action_space,
        observation_space,
        reset_function,
        transition_function,
        observation_function,
        reward_function,
        termination_function,
    )


def check_env_step(env, transition_names, m, action, seed):
    """closure/totality of functional_step + agreement with the reference"""
    shape = (len(m['grid']), len(m['grid'][0]))
    state = build_state(m)
    assert env.state_space.contains(state), m
    assert ref_state_in_space(
        m, shape, DECLARED_TYPE_NAMES, DECLARED_COLOR_NAMES
    )

    env.set_seed(seed)
    ref_rng = rnd.default_rng(seed)
    expected = copy_model(m)
    for name in transition_names:
        REFS[name](expected, action, ref_rng)

    next_state, reward, terminal = env.functional_step(state, action)

    # input state is untouched, next state is a different object
    assert enc_state(state) == m, (m, action)
    assert next_state is not state
    assert next_state.grid is not state.grid
    assert next_state.agent is not state.agent

    got = enc_state(next_state)
    assert got == expected, (transition_names, m, action, got, expected)
    assert rng_fingerprint(env._rng) == rng_fingerprint(ref_rng)

    # closure
    assert env.state_space.contains(next_state), (m, action)
    assert ref_state_in_space(
        got, shape, DECLARED_TYPE_NAMES, DECLARED_COLOR_NAMES
    ), (m, action)
    assert next_state.grid.shape == state.grid.shape
    assert isinstance(reward, float) and math.isfinite(reward), reward
    assert isinstance(terminal, bool), terminal

    # observation of the next state
    observation = env.functional_observation(next_state)
    assert isinstance(observation, Observation)
    assert env.observation_space.contains(observation)
    obs_shape = env.observation_space.grid_shape
    assert ref_observation_in_space(
        enc_state(observation),
        (obs_shape.height, obs_shape.width),
        DECLARED_TYPE_NAMES,
        DECLARED_COLOR_NAMES,
    )
    count('env_step')
    return next_state


def check_env_rejects(env, m, bad_actions):
    """actions outside the action space raise ValueError and change nothing"""
    state = build_state(m)
    env.set_seed(7)
    fingerprint = rng_fingerprint(env._rng)
    for bad in bad_actions:
        try:
            env.functional_step(state, bad)
        except ValueError:
            pass
        else:
            raise AssertionError(('not rejected', bad))
        assert enc_state(state) == m
        assert rng_fingerprint(env._rng) == fingerprint
        count('env_reject')


def report(title):
    print(title)
    for name in sorted(COUNTS):
        print(f'  {name}: {COUNTS[name]}')
    print('OK')


# ---------------------------------------------------------------------------
# program A: pickndrop / actuate_door (and the actuate_box neighbour)
# ---------------------------------------------------------------------------


def focused_models(shape, pyrng):
    """every pose x every front object x every held item on the given shape"""
    height, width = shape
    for y, x, ori in itertools.product(range(height), range(width), range(4)):
        base = random_model(pyrng, shape)
        base['pos'] = (y, x)
        base['ori'] = ori
        p = front_of(base)
        fronts = CELL_CATALOG if in_grid(base, p) else [None]
        for front, held in itertools.product(fronts, HELD_CATALOG):
            m = copy_model(base)
            m['held'] = held
            if front is not None:
                m['grid'][p[0]][p[1]] = front
            yield m


def check_identities_pickndrop(m, action, before, held_before, state):
    """object identity / aliasing of the in-place update"""
    p = front_of(m)
    applies = in_grid(m, p) and (
        m['grid'][p[0]][p[1]] == ('Floor',) or holdable(m['grid'][p[0]][p[1]])
    )
    for y, x in cells(m):
        obj = state.grid.objects[y][x]
        if (y, x) == p and applies:
            if m['held'] == ('None',):
                # a brand new floor
                assert type(obj) is Floor
                assert obj is not before[y][x]
            else:
                assert obj is held_before, (m, action)
        else:
            assert obj is before[y][x], (m, action)
    if applies:
        if holdable(m['grid'][p[0]][p[1]]):
            assert state.agent.grid_object is before[p[0]][p[1]]
        else:
            # a brand new none-object
            assert type(state.agent.grid_object) is NoneGridObject
            assert state.agent.grid_object is not held_before
    else:
        assert state.agent.grid_object is held_before


def check_identities_door(m, action, before, held_before, state):
    """doors are mutated in place, nothing is replaced"""
    for y, x in cells(m):
        assert state.grid.objects[y][x] is before[y][x], (m, action)
    assert state.agent.grid_object is held_before


def main():
    pyrng = random.Random(20240101)

    # 1. focused exhaustive sweep of the refactored functions
    for shape in SHAPES[:-1]:
        for m in focused_models(shape, pyrng):
            for action in ALL_ACTIONS:
                before, held_before, state = check_transition(
                    'pickndrop', m, action
                )
                if action is Action.PICK_N_DROP:
                    check_identities_pickndrop(
                        m, action, before, held_before, state
                    )
                else:
                    assert enc_state(state) == m

                before, held_before, state = check_transition(
                    'actuate_door', m, action
                )
                check_identities_door(m, action, before, held_before, state)
                if action is not Action.ACTUATE:
                    assert enc_state(state) == m

                check_transition('actuate_box', m, action)

    # 1b. the pick-up of a dropped-on-floor item never loses or duplicates it
    for shape in [(1, 2), (2, 2), (3, 3)]:
        for m in focused_models(shape, pyrng):
            state = build_state(m)
            n_keys_before = sum(
                t[0] == 'Key' for row in m['grid'] for t in row
            ) + (m['held'][0] == 'Key')
            tr_fs.pickndrop(state, Action.PICK_N_DROP)
            got = enc_state(state)
            n_keys_after = sum(
                t[0] == 'Key' for row in got['grid'] for t in row
            ) + (got['held'][0] == 'Key')
            assert n_keys_before == n_keys_after, m
            count('key_conservation')

    # 2. every door status x key colour x door colour, facing the door
    for status, door_color, held in itertools.product(
        ['OPEN', 'CLOSED', 'LOCKED'],
        ['NONE', 'RED', 'GREEN', 'BLUE', 'YELLOW'],
        HELD_CATALOG
        + [('Key', 'GREEN'), ('Key', 'YELLOW'), ('Telepod', 'BLUE')],
    ):
        for ori in range(4):
            m = {
                'grid': [[('Floor',)] * 3 for _ in range(3)],
                'pos': (1, 1),
                'ori': ori,
                'held': held,
            }
            p = front_of(m)
            m['grid'] = [list(row) for row in m['grid']]
            m['grid'][p[0]][p[1]] = ('Door', status, door_color)
            for action in ALL_ACTIONS:
                _, _, state = check_transition('actuate_door', m, action)
                door = state.grid[Position(*p)]
                opens = action is Action.ACTUATE and (
                    status != 'LOCKED' or held == ('Key', door_color)
                )
                assert door.is_open == (status == 'OPEN' or opens)
                count('door_table')

    # 3. closure/totality through GridWorld.functional_step
    orders = [
        ['pickndrop', 'actuate_door'],
        ['actuate_door', 'pickndrop', 'actuate_box'],
        [
            'move_agent',
            'turn_agent',
            'pickndrop',
            'actuate_door',
            'actuate_box',
            'move_obstacles',
            'teleport',
        ],
        [
            'teleport',
            'move_obstacles',
            'actuate_box',
            'actuate_door',
            'pickndrop',
            'turn_agent',
            'move_agent',
        ],
    ]
    variant = 0
    for shape in SHAPES:
        for order in orders:
            variant += 1
            env = make_env(shape, order, variant)
            n_models = 12 if shape != (4, 5) else 40
            for i in range(n_models):
                m = random_model(pyrng, shape)
                for action in ALL_ACTIONS:
                    check_env_step(env, order, m, action, seed=i)

    # 3b. exhaustive poses on small shapes through the full chain
    env_by_shape = {}
    for shape in [(1, 1), (1, 2), (2, 1), (2, 2), (2, 3)]:
        env_by_shape[shape] = make_env(shape, orders[2], variant=3)
        for m in focused_models(shape, pyrng):
            for action in (Action.PICK_N_DROP, Action.ACTUATE):
                check_env_step(env_by_shape[shape], orders[2], m, action, 3)

    # 3c. short rollouts:  reachable states stay in the state space
    for shape in [(2, 3), (3, 3), (4, 5)]:
        env = make_env(shape, orders[2], variant=5)
        for episode in range(10):
            m = random_model(pyrng, shape)
            for t in range(25):
                action = pyrng.choice(ALL_ACTIONS)
                next_state = check_env_step(
                    env, orders[2], m, action, 100 * episode + t
                )
                m = enc_state(next_state)

    # 4. actions outside the action space
    restricted = [
        Action.MOVE_FORWARD,
        Action.TURN_LEFT,
        Action.TURN_RIGHT,
    ]
    env = make_env((3, 3), orders[2], variant=1, actions=restricted)
    for i in range(20):
        m = random_model(pyrng, (3, 3))
        check_env_rejects(
            env,
            m,
            [Action.PICK_N_DROP, Action.ACTUATE, Action.MOVE_LEFT, 0, 'x', None],
        )
        for action in restricted:
            check_env_step(env, orders[2], m, action, i)

    report('program A (pickndrop / actuate_door)')


if __name__ == '__main__':
    main()
