#!/usr/bin/env python
"""Demo / regression check for property C10 (doors, keys and boxes respond only
to a faced ACTUATE, and only as documented).

Run from the worktree root:  /venv/bin/python _seed/B/demo.py

The script embeds a reference model of the faced cell and of the door / box
dynamics (plain tuples and dicts, no library geometry involved), and compares
the library against it on

1. `Agent.front()` itself (all headings, borders, corners, negative and large
   coordinates, after re-posing and turning, error behaviour);
2. an exhaustive sweep  door status x door colour x held item x agent pose x
   action  (and the same for boxes), on square / non-square / degenerate
   grids, with bystander doors and boxes in every other cell;
3. an exhaustive exploration of the reachable states of key-door environments
   (several shapes and seeds, re-seeding, several environments interleaved).

It exits 0 iff everything agrees; it does not depend on any patch.
"""
import itertools
import os
import sys

sys.path.insert(0, os.getcwd())

from gym_gridverse.action import Action  # noqa: E402
from gym_gridverse.agent import Agent  # noqa: E402
from gym_gridverse.envs import reset_functions as rf  # noqa: E402
from gym_gridverse.envs import transition_functions as tf  # noqa: E402
from gym_gridverse.geometry import (  # noqa: E402
    Orientation,
    Position,
    Shape,
    Transform,
)
from gym_gridverse.grid import Grid  # noqa: E402
from gym_gridverse.grid_object import (  # noqa: E402
    Beacon,
    Box,
    Color,
    Door,
    Exit,
    Floor,
    Key,
    MovingObstacle,
    NoneGridObject,
    Telepod,
    Wall,
)
from gym_gridverse.rng import make_rng  # noqa: E402
from gym_gridverse.state import State  # noqa: E402

CHECKS = 0


def check(condition, *context):
    global CHECKS
    CHECKS += 1
    if not condition:
        print('FAILED:', *context)
        sys.exit(1)


# --------------------------------------------------------------------------
# reference model (hard-coded, independent of gym_gridverse.geometry)
# --------------------------------------------------------------------------

# unit step (dy, dx) of each heading;  y grows downward, x grows rightward
STEP = {
    Orientation.FORWARD: (-1, 0),
    Orientation.RIGHT: (0, 1),
    Orientation.BACKWARD: (1, 0),
    Orientation.LEFT: (0, -1),
}
ORIENTATIONS = list(STEP)
ACTIONS = list(Action)
assert len(ACTIONS) == 8 and len(ORIENTATIONS) == 4


def ref_front(y, x, orientation):
    dy, dx = STEP[orientation]
    return y + dy, x + dx


def describe(obj):
    """value-level description of a grid-object (recursing into boxes)"""
    cls = type(obj)  # (no subclasses of Door / Box around in this script)
    if cls is Door:
        return ('Door', obj.state.name, obj.color.name)
    if cls is Box:
        return ('Box', describe(obj.content))
    return (cls.__name__, obj.state_index, obj.color.name)


def snapshot(state):
    """identity- and value-level picture of the whole state"""
    height, width = state.grid.shape.height, state.grid.shape.width
    cells = {}
    for y in range(height):
        for x in range(width):
            obj = state.grid.objects[y][x]
            cells[y, x] = (id(obj), describe(obj))
    held = state.agent.grid_object
    return {
        'shape': (height, width),
        'cells': cells,
        'agent': (
            state.agent.position.y,
            state.agent.position.x,
            state.agent.orientation,
            id(held),
            describe(held),
        ),
    }


def ref_actuate_door(state, action):
    """expected snapshot after `actuate_door`, computed before the call"""
    expected = snapshot(state)
    if action is not Action.ACTUATE:
        return expected
    y, x, orientation, _, held = expected['agent']
    front = ref_front(y, x, orientation)
    if front not in expected['cells']:
        return expected
    ident, description = expected['cells'][front]
    if description[0] != 'Door':
        return expected
    _, status, color = description
    if status == 'CLOSED' or (
        status == 'LOCKED' and held[0] == 'Key' and held[2] == color
    ):
        expected['cells'][front] = (ident, ('Door', 'OPEN', color))
    return expected


def ref_actuate_box(state, action):
    """expected snapshot after `actuate_box`, computed before the call"""
    expected = snapshot(state)
    if action is not Action.ACTUATE:
        return expected
    y, x, orientation, _, _ = expected['agent']
    front = ref_front(y, x, orientation)
    if front not in expected['cells']:
        return expected
    obj = state.grid.objects[front[0]][front[1]]
    if isinstance(obj, Box):
        expected['cells'][front] = (id(obj.content), describe(obj.content))
    return expected


# --------------------------------------------------------------------------
# 1. Agent.front()
# --------------------------------------------------------------------------


def check_front():
    coordinates = [-7, -1, 0, 1, 2, 5, 1000003]
    for y, x, orientation in itertools.product(
        coordinates, coordinates, ORIENTATIONS
    ):
        agent = Agent(Position(y, x), orientation)
        front = agent.front()
        check(type(front) is Position, 'front type', front)
        check(front.yx == ref_front(y, x, orientation), 'front', y, x, orientation)
        # the historical spelling, still valid on any tree
        check(
            front == agent.transform * Position.from_orientation(Orientation.F),
            'front vs transform',
            y,
            x,
            orientation,
        )
        check(front == Transform(Position(y, x), orientation) * Position(-1, 0))
        # no side effect, repeatable
        check(agent.position == Position(y, x) and agent.orientation is orientation)
        check(agent.front() == front and agent.front() is not agent.position)
        # the cached unit steps are not handed out / corrupted
        check(Position.from_orientation(orientation).yx == STEP[orientation])

    # aliases
    for alias, orientation in [
        (Orientation.F, Orientation.FORWARD),
        (Orientation.B, Orientation.BACKWARD),
        (Orientation.L, Orientation.LEFT),
        (Orientation.R, Orientation.RIGHT),
    ]:
        check(Agent(Position(3, 4), alias).front().yx == ref_front(3, 4, orientation))

    # re-posing through the setters, and turning through `*=`
    agent = Agent(Position(0, 0), Orientation.F, Key(Color.RED))
    check(agent.front().yx == (-1, 0))
    agent.position = Position(2, 9)
    check(agent.front().yx == (1, 9))
    agent.orientation = Orientation.L
    check(agent.front().yx == (2, 8))
    turn_left = {
        Orientation.F: Orientation.L,
        Orientation.L: Orientation.B,
        Orientation.B: Orientation.R,
        Orientation.R: Orientation.F,
    }
    expected = Orientation.L
    for _ in range(9):
        agent.orientation *= Orientation.L
        expected = turn_left[expected]
        check(agent.orientation is expected)
        check(agent.front().yx == ref_front(2, 9, expected), 'turning', expected)
    agent.transform = Transform(Position(4, 4), Orientation.R)
    check(agent.front().yx == (4, 5))

    # ill-posed agents keep raising TypeError
    for bad in [None, 0, 'FORWARD', [Orientation.F]]:
        agent = Agent(Position(1, 1), Orientation.F)
        agent.orientation = bad
        try:
            agent.front()
        except TypeError:
            check(True)
        else:
            check(False, 'front() with orientation', bad, 'should raise TypeError')
    agent = Agent(Position(1, 1), Orientation.F)
    agent.position = (1, 1)
    try:
        agent.front()
    except TypeError:
        check(True)
    else:
        check(False, 'front() with tuple position should raise TypeError')


# --------------------------------------------------------------------------
# 2. exhaustive sweep of the door / box dynamics
# --------------------------------------------------------------------------

COLORS = list(Color)
assert COLORS[0] is Color.NONE and len(COLORS) == 5


def held_items(color):
    """None, a key of each colour, and other objects (of the door's colour)"""
    yield 'nothing', lambda: None
    for key_color in COLORS:
        yield f'key-{key_color.name}', lambda c=key_color: Key(c)
    yield 'telepod', lambda: Telepod(color)
    yield 'beacon', lambda: Beacon(color)
    yield 'exit', lambda: Exit(color)
    yield 'open-door', lambda: Door(Door.Status.OPEN, color)
    yield 'boxed-key', lambda: Box(Key(color))
    yield 'floor', lambda: Floor()


def targets():
    """the object which is (possibly) faced"""
    for status in Door.Status:
        for color in COLORS:
            yield color, lambda s=status, c=color: Door(s, c)
    yield Color.NONE, lambda: Box(Floor())
    yield Color.BLUE, lambda: Box(Key(Color.BLUE))
    yield Color.RED, lambda: Box(Door(Door.Status.LOCKED, Color.RED))
    yield Color.GREEN, lambda: Box(Box(Key(Color.GREEN)))
    yield Color.NONE, lambda: Wall()
    yield Color.YELLOW, lambda: Key(Color.YELLOW)
    yield Color.NONE, lambda: Floor()


def bystander(i, color):
    """objects filling every other cell;  none of them may ever change"""
    pool = [
        lambda: Door(Door.Status.LOCKED, color),
        lambda: Box(Key(color)),
        lambda: Door(Door.Status.CLOSED, color),
        lambda: Floor(),
        lambda: Door(Door.Status.OPEN, color),
        lambda: Wall(),
        lambda: Key(color),
        lambda: MovingObstacle(),
    ]
    return pool[i % len(pool)]()


def make_state(shape, target_position, target, color, pose, held, *, fill):
    height, width = shape
    objects = [
        [
            bystander(y * width + x, color) if fill else Floor()
            for x in range(width)
        ]
        for y in range(height)
    ]
    objects[target_position[0]][target_position[1]] = target()
    (y, x), orientation = pose
    return State(Grid(objects), Agent(Position(y, x), orientation, held()))


def interesting_positions(shape, target_position):
    height, width = shape
    ty, tx = target_position
    positions = {
        (0, 0),
        (0, width - 1),
        (height - 1, 0),
        (height - 1, width - 1),
    }
    for dy, dx in itertools.product(range(-2, 3), repeat=2):
        if abs(dy) + abs(dx) <= 2:
            positions.add((ty + dy, tx + dx))
    return sorted(
        (y, x) for y, x in positions if 0 <= y < height and 0 <= x < width
    )


CHAINS = {
    'door': ([tf.actuate_door], [ref_actuate_door]),
    'box': ([tf.actuate_box], [ref_actuate_box]),
    'door+box': (
        [tf.actuate_door, tf.actuate_box],
        [ref_actuate_door, ref_actuate_box],
    ),
    'box+door': (
        [tf.actuate_box, tf.actuate_door],
        [ref_actuate_box, ref_actuate_door],
    ),
}


def run_against_reference(state, action, functions, references):
    """runs functions one by one, each against its reference"""
    keepalive = []
    for function, reference in zip(functions, references):
        keepalive.append(
            [obj for row in state.grid.objects for obj in row]
            + [state.agent.grid_object]
        )
        expected = reference(state, action)
        result = function(state, action)
        check(result is None)
        check(snapshot(state) == expected, function.__name__, action, expected)
    return state


def check_sweep():
    layouts = [
        # shape, target positions, fill with bystanders, full product
        ((1, 1), [(0, 0)], False, True),
        ((1, 4), [(0, 0), (0, 2)], True, True),
        ((4, 1), [(3, 0), (1, 0)], True, False),
        ((3, 5), [(1, 2)], True, True),
        ((3, 5), [(0, 0), (2, 3)], True, False),
        ((5, 4), [(4, 3), (2, 1)], False, False),
    ]
    # outside of the full products:  every held item on ACTUATE, and a
    # representative subset of them on the other actions
    thin = {'nothing', 'key-NONE', 'key-RED', 'telepod', 'boxed-key'}
    opened = unlocked = stayed_locked = unboxed = 0
    for shape, target_positions, fill, full in layouts:
        for target_position in target_positions:
            positions = interesting_positions(shape, target_position)
            for (color, target), position, orientation in itertools.product(
                list(targets()), positions, ORIENTATIONS
            ):
                pose = (position, orientation)
                faced = ref_front(*position, orientation) == target_position
                for (held_name, held), action in itertools.product(
                    list(held_items(color)), ACTIONS
                ):
                    if (
                        not full
                        and action is not Action.ACTUATE
                        and held_name not in thin
                        and held_name != f'key-{color.name}'
                    ):
                        continue
                    # the full product on faced ACTUATE;  elsewhere thin out
                    # the chains (but never the actions, poses or held items)
                    names = (
                        CHAINS
                        if faced and action is Action.ACTUATE
                        else ['door+box']
                    )
                    for name in names:
                        functions, references = CHAINS[name]

                        state = make_state(
                            shape,
                            target_position,
                            target,
                            color,
                            pose,
                            held,
                            fill=fill,
                        )
                        before_target = state.grid.objects[target_position[0]][
                            target_position[1]
                        ]
                        before_target_description = describe(before_target)
                        before_held = state.agent.grid_object
                        before_held_description = describe(before_held)
                        if isinstance(before_target, Door):
                            status = before_target.state
                        run_against_reference(
                            state, action, functions, references
                        )
                        after_target = state.grid.objects[target_position[0]][
                            target_position[1]
                        ]

                        # direct statement of the property for the target
                        if isinstance(before_target, Door):
                            check(after_target is before_target)
                            should_open = (
                                status is Door.Status.OPEN
                                or faced
                                and action is Action.ACTUATE
                                and 'door' in name
                                and (
                                    status is Door.Status.CLOSED
                                    or held_name == f'key-{color.name}'
                                )
                            )
                            check(
                                after_target.state
                                is (Door.Status.OPEN if should_open else status),
                                'door',
                                status,
                                color,
                                held_name,
                                pose,
                                action,
                                after_target,
                            )
                            check(after_target.color is color)
                            if status is Door.Status.LOCKED:
                                if should_open:
                                    unlocked += 1
                                else:
                                    stayed_locked += 1
                            elif status is Door.Status.CLOSED and should_open:
                                opened += 1
                        elif isinstance(before_target, Box):
                            if (
                                faced
                                and action is Action.ACTUATE
                                and 'box' in name
                            ):
                                check(after_target is before_target.content)
                                unboxed += 1
                            else:
                                check(after_target is before_target)
                                check(
                                    describe(after_target)
                                    == before_target_description
                                )
                        # keys are never consumed, the pose never changes
                        check(state.agent.grid_object is before_held)
                        check(
                            describe(state.agent.grid_object)
                            == before_held_description
                        )
                        check(state.agent.position.yx == position)
                        check(state.agent.orientation is orientation)

    # the sweep was not vacuous
    check(opened > 0 and unlocked > 0 and stayed_locked > 0 and unboxed > 0)
    return opened, unlocked, stayed_locked, unboxed


def check_hardcoded():
    """a few fully spelled-out scenarios"""

    def scenario(status, color, held, position, orientation, action):
        grid = Grid.from_shape((3, 4))
        grid[1, 2] = Door(status, color)
        state = State(grid, Agent(Position(*position), orientation, held))
        tf.actuate_door(state, action)
        return state.grid[1, 2].state, state.agent.grid_object

    S, C, O = Door.Status, Color, Orientation
    table = [
        # facing the door from each side
        (S.CLOSED, C.NONE, None, (1, 1), O.R, Action.ACTUATE, S.OPEN),
        (S.CLOSED, C.NONE, None, (1, 3), O.L, Action.ACTUATE, S.OPEN),
        (S.CLOSED, C.NONE, None, (0, 2), O.B, Action.ACTUATE, S.OPEN),
        (S.CLOSED, C.NONE, None, (2, 2), O.F, Action.ACTUATE, S.OPEN),
        # adjacent but not facing
        (S.CLOSED, C.NONE, None, (1, 1), O.L, Action.ACTUATE, S.CLOSED),
        (S.CLOSED, C.NONE, None, (1, 1), O.F, Action.ACTUATE, S.CLOSED),
        (S.CLOSED, C.NONE, None, (1, 1), O.B, Action.ACTUATE, S.CLOSED),
        (S.CLOSED, C.NONE, None, (2, 2), O.B, Action.ACTUATE, S.CLOSED),
        # facing from two cells away, diagonal, on top of the door
        (S.CLOSED, C.NONE, None, (1, 0), O.R, Action.ACTUATE, S.CLOSED),
        (S.CLOSED, C.NONE, None, (0, 1), O.R, Action.ACTUATE, S.CLOSED),
        (S.CLOSED, C.NONE, None, (1, 2), O.R, Action.ACTUATE, S.CLOSED),
        # locked doors and keys
        (S.LOCKED, C.RED, None, (1, 1), O.R, Action.ACTUATE, S.LOCKED),
        (S.LOCKED, C.RED, Key(C.RED), (1, 1), O.R, Action.ACTUATE, S.OPEN),
        (S.LOCKED, C.RED, Key(C.BLUE), (1, 1), O.R, Action.ACTUATE, S.LOCKED),
        (S.LOCKED, C.RED, Key(C.NONE), (1, 1), O.R, Action.ACTUATE, S.LOCKED),
        (S.LOCKED, C.NONE, Key(C.NONE), (1, 1), O.R, Action.ACTUATE, S.OPEN),
        (S.LOCKED, C.NONE, Key(C.RED), (1, 1), O.R, Action.ACTUATE, S.LOCKED),
        (S.LOCKED, C.RED, Telepod(C.RED), (1, 1), O.R, Action.ACTUATE, S.LOCKED),
        (S.LOCKED, C.RED, Key(C.RED), (1, 1), O.F, Action.ACTUATE, S.LOCKED),
        (S.LOCKED, C.RED, Key(C.RED), (1, 1), O.R, Action.PICK_N_DROP, S.LOCKED),
        (S.LOCKED, C.RED, Key(C.RED), (1, 1), O.R, Action.MOVE_FORWARD, S.LOCKED),
        # open doors stay open
        (S.OPEN, C.RED, None, (1, 1), O.R, Action.ACTUATE, S.OPEN),
        (S.OPEN, C.RED, Key(C.RED), (1, 1), O.R, Action.ACTUATE, S.OPEN),
        (S.OPEN, C.RED, Key(C.BLUE), (1, 3), O.L, Action.ACTUATE, S.OPEN),
    ]
    for status, color, held, position, orientation, action, expected in table:
        after, after_held = scenario(
            status, color, held, position, orientation, action
        )
        check(
            after is expected,
            'hard-coded',
            status,
            color,
            held,
            position,
            orientation,
            action,
        )
        if held is None:
            check(isinstance(after_held, NoneGridObject))
        else:
            check(after_held is held)

    # agents on the border / in the corners facing out of a non-square grid
    for position, orientation in [
        ((0, 0), O.F),
        ((0, 0), O.L),
        ((0, 3), O.F),
        ((0, 3), O.R),
        ((2, 0), O.B),
        ((2, 0), O.L),
        ((2, 3), O.B),
        ((2, 3), O.R),
        ((0, 2), O.F),
        ((2, 1), O.B),
    ]:
        grid = Grid(
            [
                [Door(S.CLOSED, C.RED) for _ in range(4)],
                [Box(Key(C.RED)) for _ in range(4)],
                [Door(S.LOCKED, C.RED) for _ in range(4)],
            ]
        )
        state = State(grid, Agent(Position(*position), orientation, Key(C.RED)))
        before = snapshot(state)
        tf.actuate_door(state, Action.ACTUATE)
        tf.actuate_box(state, Action.ACTUATE)
        check(snapshot(state) == before, 'facing out of the grid', position)

    # box: replaced by its very content, only when faced and actuated
    content = Key(C.GREEN)
    grid = Grid.from_shape(Shape(2, 3))
    grid[0, 1] = Box(content)
    state = State(grid, Agent(Position(1, 1), O.F))
    for action in ACTIONS:
        if action is not Action.ACTUATE:
            tf.actuate_box(state, action)
            check(isinstance(state.grid[0, 1], Box))
    tf.actuate_door(state, Action.ACTUATE)
    check(isinstance(state.grid[0, 1], Box))
    tf.actuate_box(state, Action.ACTUATE)
    check(state.grid[0, 1] is content)
    tf.actuate_box(state, Action.ACTUATE)
    check(state.grid[0, 1] is content)


# --------------------------------------------------------------------------
# 2b. the Door class itself (status flags, and optional convenience methods)
# --------------------------------------------------------------------------


def check_door_class():
    """status flags are consistent;  door helpers (where the tree offers
    them) agree with the reference and have no side effects"""
    others = [
        lambda color: NoneGridObject(),
        lambda color: Floor(),
        lambda color: Wall(),
        lambda color: Telepod(color),
        lambda color: Beacon(color),
        lambda color: Exit(color),
        lambda color: Door(Door.Status.OPEN, color),
        lambda color: Door(Door.Status.LOCKED, color),
        lambda color: Box(Key(color)),
        lambda color: MovingObstacle(),
    ]
    for status, color in itertools.product(Door.Status, COLORS):
        door = Door(status, color)
        check(door.is_open == (status is Door.Status.OPEN))
        check(door.is_locked == (status is Door.Status.LOCKED))
        check(door.blocks_movement == (status is not Door.Status.OPEN))
        check(door.blocks_vision == (status is not Door.Status.OPEN))
        check(door.state_index == status.value and door.color is color)
        check(not door.holdable)

        fits = getattr(door, 'is_unlocked_by', None)
        if fits is not None:
            for key_color in COLORS:
                key = Key(key_color)
                check(fits(key) is (key_color is color), 'fit', color, key_color)
                check(key.color is key_color)
            for other in others:
                check(fits(other(color)) is False, 'fit', other(color))
            check(door.state is status and door.color is color)

        door_open = getattr(door, 'open', None)
        if door_open is not None:
            check(door_open() is None)
            check(door.state is Door.Status.OPEN and door.color is color)
            check(door_open() is None)
            check(door.state is Door.Status.OPEN and door.color is color)

    # doors are compared / hashed by (type, status, colour) as ever
    check(Door(Door.Status.OPEN, Color.RED) == Door(Door.Status.OPEN, Color.RED))
    check(Door(Door.Status.OPEN, Color.RED) != Door(Door.Status.CLOSED, Color.RED))
    check(Door(Door.Status.OPEN, Color.RED) != Door(Door.Status.OPEN, Color.BLUE))
    check(
        hash(Door(Door.Status.LOCKED, Color.NONE))
        == hash(Door(Door.Status.LOCKED, Color.NONE))
    )

    # a user-defined kind of door and a user-defined kind of key behave like
    # doors and keys (isinstance-based dispatch, as ever)
    class Gate(Door, register=False):
        pass

    class Passkey(Key, register=False):
        pass

    for status, color, key_color in itertools.product(
        Door.Status, COLORS, COLORS
    ):
        for door_type, key_type in itertools.product(
            [Door, Gate], [Key, Passkey]
        ):
            grid = Grid.from_shape((2, 2))
            grid[0, 1] = door_type(status, color)
            held = key_type(key_color)
            state = State(grid, Agent(Position(1, 1), Orientation.F, held))
            tf.actuate_door(state, Action.ACTUATE)
            expected = (
                status
                if status is Door.Status.LOCKED and key_color is not color
                else Door.Status.OPEN
            )
            check(
                state.grid[0, 1].state is expected,
                'subclasses',
                door_type,
                key_type,
                status,
                color,
                key_color,
            )
            check(state.agent.grid_object is held and held.color is key_color)


# --------------------------------------------------------------------------
# 3. reachable states of key-door environments
# --------------------------------------------------------------------------


def find_doors(state):
    return [
        (y, x)
        for y in range(state.grid.shape.height)
        for x in range(state.grid.shape.width)
        if isinstance(state.grid.objects[y][x], Door)
    ]


def explore(initial, transition_function, *, expect_open):
    """breadth-first exploration, checking every single transition"""
    (door_position,) = find_doors(initial)
    door = initial.grid[door_position]
    check(door.state is Door.Status.LOCKED and door.color is Color.YELLOW)

    seen = {initial}
    frontier = [initial]
    transitions = found_open = 0
    while frontier:
        next_frontier = []
        for state in frontier:
            before = state.grid[door_position]
            y, x = state.agent.position.yx
            faced = ref_front(y, x, state.agent.orientation) == door_position
            held = state.agent.grid_object
            has_key = isinstance(held, Key) and held.color is Color.YELLOW
            for action in ACTIONS:
                pristine = snapshot(state)
                next_state = tf.transition_with_copy(
                    transition_function, state, action
                )
                check(snapshot(state) == pristine, 'copy semantics')
                transitions += 1

                check(find_doors(next_state) == [door_position])
                after = next_state.grid[door_position]
                check(after.color is Color.YELLOW)
                if before.state is Door.Status.OPEN:
                    check(after.state is Door.Status.OPEN, 'open stays open')
                elif action is Action.ACTUATE and faced and has_key:
                    check(after.state is Door.Status.OPEN, 'key opens')
                else:
                    check(after.state is Door.Status.LOCKED, 'locked stays')
                if action is Action.ACTUATE:
                    # nothing else happens, the key is not consumed
                    expected = dict(pristine)
                    expected['cells'] = dict(pristine['cells'])
                    if after.state is not before.state:
                        expected['cells'][door_position] = (
                            id(after),
                            ('Door', 'OPEN', 'YELLOW'),
                        )
                    got = snapshot(next_state)
                    check(
                        {k: v[1] for k, v in got['cells'].items()}
                        == {k: v[1] for k, v in expected['cells'].items()}
                    )
                    check(got['agent'][:3] == expected['agent'][:3])
                    check(got['agent'][4] == expected['agent'][4])

                found_open += after.state is Door.Status.OPEN
                if next_state not in seen:
                    seen.add(next_state)
                    next_frontier.append(next_state)
        frontier = next_frontier

    check((found_open > 0) == expect_open, 'door reachable open', expect_open)
    return len(seen), transitions


def check_reachability():
    keydoor_chain = [
        tf.move_agent,
        tf.turn_agent,
        tf.actuate_door,
        tf.pickndrop,
    ]

    def chain(functions):
        def transition_function(state, action, *, rng=None):
            tf.chain(state, action, transition_functions=functions, rng=rng)

        return transition_function

    totals = [0, 0]
    runs = [
        (Shape(4, 5), 0, keydoor_chain),
        (Shape(4, 6), 1, keydoor_chain + [tf.actuate_box]),
        (Shape(5, 5), 2, keydoor_chain),
        (Shape(4, 7), 3, [tf.actuate_box] + keydoor_chain),
        (Shape(6, 5), 4, keydoor_chain),
    ]
    for shape, seed, functions in runs:
        # re-seeding reproduces the same initial state, also when another
        # environment is being reset in between
        initial = rf.keydoor(shape, rng=make_rng(seed))
        rf.keydoor(Shape(7, 9), rng=make_rng(seed + 100))
        again = rf.keydoor(shape, rng=make_rng(seed))
        check(initial == again and hash(initial) == hash(again))

        states, transitions = explore(
            initial, chain(functions), expect_open=True
        )
        totals[0] += states
        totals[1] += transitions

        # the same environment where the only key has the wrong colour:  the
        # door is never found open
        wrong = rf.keydoor(shape, rng=make_rng(seed))
        for y in range(shape.height):
            for x in range(shape.width):
                if isinstance(wrong.grid[y, x], Key):
                    wrong.grid[y, x] = Key(Color.BLUE)
        states, transitions = explore(
            wrong, chain(functions), expect_open=False
        )
        totals[0] += states
        totals[1] += transitions

        # ... and where there is no key at all
        keyless = rf.keydoor(shape, rng=make_rng(seed))
        for y in range(shape.height):
            for x in range(shape.width):
                if isinstance(keyless.grid[y, x], Key):
                    keyless.grid[y, x] = Floor()
        states, transitions = explore(
            keyless, chain(functions), expect_open=False
        )
        totals[0] += states
        totals[1] += transitions
    return totals


def main():
    check_front()
    check_hardcoded()
    check_door_class()
    sweep = check_sweep()
    reach = check_reachability()
    print(
        f'OK: {CHECKS} checks; sweep (opened, unlocked, stayed locked, unboxed)'
        f' = {sweep}; reachability (states, transitions) = {tuple(reach)}'
    )


if __name__ == '__main__':
    main()
