"""Check program for refactoring A (pickndrop / actuate_door control flow).

Run as:  cd /tmp/wt5-C03 && /venv/bin/python -W ignore _seed/A/demo.py

It contains an INDEPENDENT re-implementation (on plain tuples) of the
deterministic transition functions (move_agent, turn_agent, pickndrop,
actuate_door, actuate_box), of a reward composition and of a termination
composition, and compares the library against it over a large family of
states x actions x compositions.  On top of that it asserts property C03:

 * the functional step/observation never modify their input state,
 * next state and input state share no mutable component (static id check and
   dynamic "mutate one, look at the other" check, in both directions),
 * answers are history-independent (second pass in a different order, on the
   same and on fresh environments, after many other calls),
 * copies of states are equal to / hash like their originals.
"""
import copy
import itertools
import os
import random
import sys

sys.path.insert(0, os.getcwd())

from gym_gridverse.action import Action  # noqa: E402
from gym_gridverse.agent import Agent  # noqa: E402
from gym_gridverse.envs.gridworld import GridWorld  # noqa: E402
from gym_gridverse.envs import observation_functions as observation_fs  # noqa: E402
from gym_gridverse.envs import reward_functions as reward_fs  # noqa: E402
from gym_gridverse.envs import terminating_functions as terminating_fs  # noqa: E402
from gym_gridverse.envs import transition_functions as transition_fs  # noqa: E402
from gym_gridverse.geometry import Area, Orientation, Position, Shape  # noqa: E402
from gym_gridverse.grid import Grid  # noqa: E402
from gym_gridverse.grid_object import (  # noqa: E402
    Beacon,
    Box,
    Color,
    Door,
    Exit,
    Floor,
    Key,
    MovingObstacle,
    NoneGridObject,
    Telepod,
    Wall,
    grid_object_registry,
)
from gym_gridverse.spaces import ActionSpace, ObservationSpace, StateSpace  # noqa: E402
from gym_gridverse.state import State  # noqa: E402
from gym_gridverse.utils.fast_copy import fast_copy  # noqa: E402

# --------------------------------------------------------------------------
# tuple encoding of grid objects / states (independent of the library's __eq__)
# --------------------------------------------------------------------------

FLOOR = ('Floor',)
WALL = ('Wall',)
NONE = ('None',)
OBSTACLE = ('MovingObstacle',)


def build(t):
    """tuple -> fresh library grid object"""
    name = t[0]
    if name == 'Floor':
        return Floor()
    if name == 'Wall':
        return Wall()
    if name == 'None':
        return NoneGridObject()
    if name == 'MovingObstacle':
        return MovingObstacle()
    if name == 'Exit':
        return Exit(Color[t[1]])
    if name == 'Door':
        return Door(Door.Status[t[1]], Color[t[2]])
    if name == 'Key':
        return Key(Color[t[1]])
    if name == 'Telepod':
        return Telepod(Color[t[1]])
    if name == 'Beacon':
        return Beacon(Color[t[1]])
    if name == 'Box':
        return Box(build(t[1]))
    raise AssertionError(t)


def enc(obj):
    """library grid object -> tuple (reads raw attributes only)"""
    name = type(obj).__name__
    if name in ('Floor', 'Wall', 'MovingObstacle', 'Hidden'):
        return (name,)
    if name == 'NoneGridObject':
        return NONE
    if name == 'Exit':
        return ('Exit', obj.color.name)
    if name == 'Door':
        return ('Door', obj.state.name, obj.color.name)
    if name in ('Key', 'Telepod', 'Beacon'):
        return (name, obj.color.name)
    if name == 'Box':
        return ('Box', enc(obj.content))
    raise AssertionError(name)


ORIENTATIONS = [Orientation.F, Orientation.R, Orientation.B, Orientation.L]
# index: 0 = up (F), 1 = right (R), 2 = down (B), 3 = left (L)
DELTAS = [(-1, 0), (0, 1), (1, 0), (0, -1)]


def build_state(ms):
    grid_t, pos, ori, held = ms
    grid = Grid([[build(t) for t in row] for row in grid_t])
    agent = Agent(Position(pos[0], pos[1]), ORIENTATIONS[ori], build(held))
    return State(grid, agent)


def enc_state(state):
    grid_t = tuple(
        tuple(enc(obj) for obj in row) for row in state.grid.objects
    )
    assert len(state.grid.objects) == state.grid.shape.height
    assert all(len(row) == state.grid.shape.width for row in state.grid.objects)
    pos = (int(state.agent.position.y), int(state.agent.position.x))
    ori = ORIENTATIONS.index(state.agent.orientation)
    return (grid_t, pos, ori, enc(state.agent.grid_object))


# --------------------------------------------------------------------------
# independent model of the dynamics, rewards, termination
# --------------------------------------------------------------------------


def blocks_movement(t):
    if t[0] in ('Wall', 'Box'):
        return True
    if t[0] == 'Door':
        return t[1] != 'OPEN'
    return False


def inside(grid, p):
    return 0 <= p[0] < len(grid) and 0 <= p[1] < len(grid[0])


MOVE_OFFSET = {
    Action.MOVE_FORWARD: 0,
    Action.MOVE_RIGHT: 1,
    Action.MOVE_BACKWARD: 2,
    Action.MOVE_LEFT: 3,
}


def tentative_position(pos, ori, action):
    if action not in MOVE_OFFSET:
        return pos
    dy, dx = DELTAS[(ori + MOVE_OFFSET[action]) % 4]
    return (pos[0] + dy, pos[1] + dx)


def front_position(pos, ori):
    dy, dx = DELTAS[ori]
    return (pos[0] + dy, pos[1] + dx)


class M:
    """mutable model state"""

    def __init__(self, ms):
        grid_t, pos, ori, held = ms
        self.grid = [list(row) for row in grid_t]
        self.pos = pos
        self.ori = ori
        self.held = held

    def freeze(self):
        return (
            tuple(tuple(row) for row in self.grid),
            self.pos,
            self.ori,
            self.held,
        )


def m_move_agent(m, action):
    if action not in MOVE_OFFSET:
        return
    p = tentative_position(m.pos, m.ori, action)
    if inside(m.grid, p) and not blocks_movement(m.grid[p[0]][p[1]]):
        m.pos = p


def m_turn_agent(m, action):
    if action is Action.TURN_LEFT:
        m.ori = (m.ori - 1) % 4
    elif action is Action.TURN_RIGHT:
        m.ori = (m.ori + 1) % 4


def m_pickndrop(m, action):
    if action is not Action.PICK_N_DROP:
        return
    p = front_position(m.pos, m.ori)
    if not inside(m.grid, p):
        return
    front = m.grid[p[0]][p[1]]
    if front[0] == 'Key':  # only keys are holdable
        m.grid[p[0]][p[1]] = FLOOR if m.held == NONE else m.held
        m.held = front
    elif front[0] == 'Floor':
        if m.held != NONE:
            m.grid[p[0]][p[1]] = m.held
            m.held = NONE
        # else: Floor is replaced by a Floor, agent keeps holding nothing


def m_actuate_door(m, action):
    if action is not Action.ACTUATE:
        return
    p = front_position(m.pos, m.ori)
    if not inside(m.grid, p):
        return
    front = m.grid[p[0]][p[1]]
    if front[0] != 'Door':
        return
    _, status, color = front
    if status == 'CLOSED':
        m.grid[p[0]][p[1]] = ('Door', 'OPEN', color)
    elif status == 'LOCKED' and m.held == ('Key', color):
        m.grid[p[0]][p[1]] = ('Door', 'OPEN', color)


def m_actuate_box(m, action):
    if action is not Action.ACTUATE:
        return
    p = front_position(m.pos, m.ori)
    if not inside(m.grid, p):
        return
    front = m.grid[p[0]][p[1]]
    if front[0] == 'Box':
        m.grid[p[0]][p[1]] = front[1]


MODEL_FS = {
    'move_agent': m_move_agent,
    'turn_agent': m_turn_agent,
    'pickndrop': m_pickndrop,
    'actuate_door': m_actuate_door,
    'actuate_box': m_actuate_box,
}

CHAINS = [
    # order used by the shipped keydoor environments
    ['move_agent', 'turn_agent', 'actuate_door', 'pickndrop'],
    ['pickndrop', 'actuate_box', 'actuate_door', 'turn_agent', 'move_agent'],
    ['actuate_door', 'actuate_box', 'pickndrop', 'move_agent', 'turn_agent'],
    ['pickndrop'],
    ['actuate_door'],
]


def model_step(ms, action, chain):
    m = M(ms)
    for name in chain:
        MODEL_FS[name](m, action)
    ns = m.freeze()
    return ns, model_reward(ms, action, ns), model_terminal(ms, action, ns)


def model_reward(ms, action, ns):
    grid, pos, ori, held = ms
    ngrid, npos, nori, nheld = ns
    rewards = []
    # reach_exit(reward_on=5.0, reward_off=0.0)
    rewards.append(5.0 if ngrid[npos[0]][npos[1]][0] == 'Exit' else 0.0)
    # pickndrop(object_type=Key, reward_pick=1.0, reward_drop=-1.0)
    has, nhas = held[0] == 'Key', nheld[0] == 'Key'
    rewards.append(1.0 if (not has and nhas) else -1.0 if (has and not nhas) else 0.0)
    # actuate_door(reward_open=1.0, reward_close=-1.0)
    r = 0.0
    if action is Action.ACTUATE:
        p = front_position(pos, ori)
        if inside(grid, p):
            d, nd = grid[p[0]][p[1]], ngrid[p[0]][p[1]]
            if d[0] == 'Door' and nd[0] == 'Door':
                if d[1] != 'OPEN' and nd[1] == 'OPEN':
                    r = 1.0
                elif d[1] == 'OPEN' and nd[1] != 'OPEN':
                    r = -1.0
    rewards.append(r)
    # living_reward(reward=-0.05)
    rewards.append(-0.05)
    # bump_into_wall(reward=-0.3)
    p = tentative_position(pos, ori, action)
    rewards.append(-0.3 if inside(grid, p) and grid[p[0]][p[1]] == WALL else 0.0)
    return sum(rewards)


def model_terminal(ms, action, ns):
    grid, pos, ori, held = ms
    ngrid, npos, nori, nheld = ns
    on_exit = ngrid[npos[0]][npos[1]][0] == 'Exit'
    p = tentative_position(pos, ori, action)
    bump = inside(grid, p) and grid[p[0]][p[1]] == WALL
    return bool(on_exit or bump)


# --------------------------------------------------------------------------
# library environments
# --------------------------------------------------------------------------

ALL_TYPES = [
    t for t in grid_object_registry if t.__name__ not in ('NoneGridObject', 'Hidden')
]
ALL_COLORS = list(Color)
OBS_AREA = Area((-3, 0), (-2, 2))


def make_reward_function():
    return reward_fs.factory(
        'reduce_sum',
        reward_functions=[
            reward_fs.factory('reach_exit', reward_on=5.0, reward_off=0.0),
            reward_fs.factory(
                'pickndrop', object_type=Key, reward_pick=1.0, reward_drop=-1.0
            ),
            reward_fs.factory('actuate_door', reward_open=1.0, reward_close=-1.0),
            reward_fs.factory('living_reward', reward=-0.05),
            reward_fs.factory('bump_into_wall', reward=-0.3),
        ],
    )


def make_terminating_function():
    return terminating_fs.factory(
        'reduce_any',
        terminating_functions=[
            terminating_fs.factory('reach_exit'),
            terminating_fs.factory('bump_into_wall'),
        ],
    )


def make_env(shape, chain, observation_name='partially_occluded'):
    transition_function = transition_fs.factory(
        'chain',
        transition_functions=[transition_fs.factory(name) for name in chain],
    )
    observation_function = observation_fs.factory(observation_name, area=OBS_AREA)

    def reset_function(*, rng=None):
        raise AssertionError('reset is not used by this check program')

    return GridWorld(
        StateSpace(Shape(*shape), ALL_TYPES, ALL_COLORS),
        ActionSpace(list(Action)),
        ObservationSpace(Shape(OBS_AREA.height, OBS_AREA.width), ALL_TYPES, ALL_COLORS),
        reset_function,
        transition_function,
        observation_function,
        make_reward_function(),
        make_terminating_function(),
    )


_ENVS = {}


def get_env(shape, chain_index, generation=0):
    key = (shape, chain_index, generation)
    if key not in _ENVS:
        env = make_env(shape, CHAINS[chain_index])
        env.set_seed(1234 + chain_index)
        _ENVS[key] = env
    return _ENVS[key]


# --------------------------------------------------------------------------
# alias / purity helpers
# --------------------------------------------------------------------------


def object_ids(obj, out):
    out[id(obj)] = obj
    if type(obj).__name__ == 'Box':
        object_ids(obj.content, out)


def mutable_components(state):
    """id -> object for every mutable component reachable from the state"""
    out = {}
    out[id(state.grid)] = state.grid
    out[id(state.grid.objects)] = state.grid.objects
    for row in state.grid.objects:
        out[id(row)] = row
        for obj in row:
            object_ids(obj, out)
    out[id(state.agent)] = state.agent
    out[id(state.agent.transform)] = state.agent.transform
    object_ids(state.agent.grid_object, out)
    return out


def scramble_object(obj):
    name = type(obj).__name__
    if name == 'Door':
        obj.state = {
            Door.Status.OPEN: Door.Status.LOCKED,
            Door.Status.CLOSED: Door.Status.OPEN,
            Door.Status.LOCKED: Door.Status.CLOSED,
        }[obj.state]
        obj.color = Color.GREEN if obj.color is not Color.GREEN else Color.RED
    elif name in ('Key', 'Telepod', 'Beacon', 'Exit'):
        obj.color = Color.GREEN if obj.color is not Color.GREEN else Color.RED
    elif name == 'Box':
        scramble_object(obj.content)
        obj.content = Wall()


def scramble_state(state):
    """mutate every mutable component of the state in place"""
    for row in state.grid.objects:
        for obj in row:
            scramble_object(obj)
    scramble_object(state.agent.grid_object)
    for y in range(state.grid.shape.height):
        for x in range(state.grid.shape.width):
            state.grid[y, x] = Beacon(Color.GREEN)
    state.grid.objects[0].reverse()
    state.agent.position = Position(
        state.grid.shape.height - 1 - state.agent.position.y,
        state.grid.shape.width - 1 - state.agent.position.x,
    )
    state.agent.orientation = state.agent.orientation * Orientation.R
    state.agent.grid_object = Telepod(Color.GREEN)


COUNTS = {'steps': 0, 'direct': 0, 'observations': 0, 'random': 0}


def check_copy_semantics(state, ms):
    for copied in (fast_copy(state), copy.deepcopy(state), build_state(ms)):
        assert copied == state and state == copied
        assert hash(copied) == hash(state)
        assert copied.grid == state.grid and hash(copied.grid) == hash(state.grid)
        assert copied.agent == state.agent
        assert hash(copied.agent) == hash(state.agent)
        assert enc_state(copied) == ms
        assert not set(mutable_components(copied)) & set(mutable_components(state))


def check_step(env, ms, action, chain, other_envs=()):
    """one functional_step, checked against the model and against C03"""
    expected = model_step(ms, action, chain)

    state = build_state(ms)
    assert enc_state(state) == ms
    components_before = mutable_components(state)

    next_state, reward, terminal = env.functional_step(state, action)
    COUNTS['steps'] += 1

    # input state untouched (same components, same contents)
    assert enc_state(state) == ms, (ms, action, chain)
    assert set(mutable_components(state)) == set(components_before)
    # functional correctness against the independent model
    got = (enc_state(next_state), reward, terminal)
    assert got[0] == expected[0], (ms, action, chain, got[0], expected[0])
    assert reward == expected[1], (ms, action, chain, reward, expected[1])
    assert terminal is expected[2] or terminal == expected[2]
    assert isinstance(reward, float)
    # no shared mutable component
    shared = set(components_before) & set(mutable_components(next_state))
    assert not shared, (ms, action, chain)

    # history independence: intervening calls on other environments / states
    for other in other_envs:
        other.functional_step(build_state(ms), Action.ACTUATE)
        other.functional_step(build_state(expected[0]), Action.PICK_N_DROP)
        other.functional_observation(build_state(ms))
    again_state, again_reward, again_terminal = env.functional_step(state, action)
    assert again_state == next_state and next_state == again_state
    assert hash(again_state) == hash(next_state)
    assert enc_state(again_state) == expected[0]
    assert again_reward == reward and again_terminal == terminal
    assert not set(mutable_components(again_state)) & set(
        mutable_components(next_state)
    )

    # dynamic alias check, direction 1: mutate next state, look at input
    scramble_state(next_state)
    assert enc_state(state) == ms
    assert enc_state(again_state) == expected[0]
    # direction 2: mutate input, look at (second) next state
    scramble_state(state)
    assert enc_state(again_state) == expected[0]

    return expected


def check_direct(ms, action, name):
    """registered in-place transition functions + transition_with_copy"""
    m = M(ms)
    MODEL_FS[name](m, action)
    expected = m.freeze()

    function = transition_fs.transition_function_registry[name]
    assert function is getattr(transition_fs, name)

    # in place
    state = build_state(ms)
    assert function(state, action) is None
    assert enc_state(state) == expected, (ms, action, name)
    # through the factory
    state = build_state(ms)
    assert transition_fs.factory(name)(state, action, rng=None) is None
    assert enc_state(state) == expected
    # non in-place
    state = build_state(ms)
    next_state = transition_fs.transition_with_copy(function, state, action)
    assert enc_state(state) == ms
    assert enc_state(next_state) == expected
    assert not set(mutable_components(state)) & set(mutable_components(next_state))
    COUNTS['direct'] += 1

    # identity semantics of the in-place pickndrop: the very object that was
    # held ends up in the grid, and the very object in front ends up held
    if name == 'pickndrop' and expected != ms:
        state = build_state(ms)
        p = front_position(ms[1], ms[2])
        held_before = state.agent.grid_object
        front_before = state.grid[p]
        function(state, action)
        if ms[3] != NONE:
            assert state.grid[p] is held_before
        if front_before.holdable:
            assert state.agent.grid_object is front_before


def check_observation(ms):
    state = build_state(ms)
    for name in ('partially_occluded', 'fully_transparent', 'raytracing'):
        env = OBS_ENVS[name]
        first = env.functional_observation(state)
        assert enc_state(state) == ms
        second = env.functional_observation(state)
        assert first == second and hash(first.grid) == hash(second.grid)
        assert first.agent == second.agent
        # observation grid containers are not the state's containers
        assert first.grid is not state.grid
        assert first.grid.objects is not state.grid.objects
        assert not {id(r) for r in first.grid.objects} & {
            id(r) for r in state.grid.objects
        }
        for y in range(first.grid.shape.height):
            for x in range(first.grid.shape.width):
                first.grid[y, x] = Wall()
        assert enc_state(state) == ms
        third = env.functional_observation(state)
        assert third == second
        COUNTS['observations'] += 1


# --------------------------------------------------------------------------
# state families
# --------------------------------------------------------------------------

KEY_COLORS = ['RED', 'BLUE', 'YELLOW']
CATALOG = (
    [FLOOR, WALL, OBSTACLE, ('Exit', 'NONE'), ('Exit', 'GREEN')]
    + [('Door', s, c) for s in ('OPEN', 'CLOSED', 'LOCKED') for c in KEY_COLORS]
    + [('Key', c) for c in KEY_COLORS]
    + [('Telepod', 'RED'), ('Beacon', 'BLUE')]
    + [
        ('Box', FLOOR),
        ('Box', WALL),
        ('Box', ('Exit', 'NONE')),
        ('Box', ('Key', 'RED')),
        ('Box', ('Door', 'CLOSED', 'RED')),
        ('Box', ('Door', 'LOCKED', 'BLUE')),
        ('Box', ('Box', ('Key', 'YELLOW'))),
        ('Box', ('Box', ('Box', ('Door', 'OPEN', 'RED')))),
    ]
)
HELD = [
    NONE,
    ('Key', 'RED'),
    ('Key', 'BLUE'),
    ('Key', 'YELLOW'),
    # exotic held items (not reachable by play, but they are states)
    ('Box', ('Key', 'RED')),
    ('Door', 'LOCKED', 'RED'),
]


def focused_states():
    """3x3 grids: agent in the centre, every object in front, every held item"""
    for front, ori, held in itertools.product(CATALOG, range(4), HELD):
        grid = [[FLOOR] * 3 for _ in range(3)]
        dy, dx = DELTAS[ori]
        grid[1 + dy][1 + dx] = front
        # something behind the agent, too
        grid[1 - dy][1 - dx] = ('Box', ('Key', 'BLUE'))
        yield (tuple(tuple(r) for r in grid), (1, 1), ori, held)


def edge_states():
    """agent on every cell (walls included) of small grids, facing everywhere"""
    layouts = [
        [[FLOOR]],
        [[('Key', 'RED'), FLOOR]],
        [[('Door', 'LOCKED', 'RED')], [FLOOR]],
        [[WALL, ('Key', 'BLUE'), ('Exit', 'NONE')], [('Door', 'CLOSED', 'BLUE'), FLOOR, ('Box', ('Key', 'RED'))]],
    ]
    for layout in layouts:
        h, w = len(layout), len(layout[0])
        for y, x, ori, held in itertools.product(
            range(h), range(w), range(4), HELD[:3]
        ):
            yield (tuple(tuple(r) for r in layout), (y, x), ori, held)


def random_states(n, seed):
    rnd = random.Random(seed)
    for _ in range(n):
        h, w = rnd.randint(1, 6), rnd.randint(1, 6)
        grid = tuple(
            tuple(
                rnd.choice(CATALOG) if rnd.random() < 0.6 else FLOOR
                for _ in range(w)
            )
            for _ in range(h)
        )
        yield (
            grid,
            (rnd.randrange(h), rnd.randrange(w)),
            rnd.randrange(4),
            rnd.choice(HELD),
        )


def shape_of(ms):
    return (len(ms[0]), len(ms[0][0]))


OBS_ENVS = {}


def main():
    for name in ('partially_occluded', 'fully_transparent', 'raytracing'):
        OBS_ENVS[name] = make_env((3, 3), CHAINS[0], observation_name=name)
        OBS_ENVS[name].set_seed(7)

    cases = []
    for ms in itertools.chain(
        focused_states(), edge_states(), random_states(250, seed=20240503)
    ):
        for action in Action:
            cases.append((ms, action))

    # pass 1: every case on every composition
    results = {}
    for ms, action in cases:
        shape = shape_of(ms)
        for chain_index, chain in enumerate(CHAINS):
            env = get_env(shape, chain_index)
            others = [get_env(shape, (chain_index + 1) % len(CHAINS))]
            results[ms, action, chain_index] = check_step(
                env, ms, action, chain, other_envs=others
            )

    # direct calls of the registered (in-place) functions
    for ms, action in cases:
        for name in MODEL_FS:
            check_direct(ms, action, name)

    # pass 2: different order, both the "used" environments and fresh ones
    rnd = random.Random(99)
    shuffled = list(cases)
    rnd.shuffle(shuffled)
    for ms, action in shuffled[: len(shuffled) // 3]:
        shape = shape_of(ms)
        for chain_index, chain in enumerate(CHAINS):
            for generation in (0, 1):
                env = get_env(shape, chain_index, generation)
                again = check_step(env, ms, action, chain)
                assert again == results[ms, action, chain_index]

    # copy semantics + observation purity
    seen = set()
    for ms, _ in cases:
        if ms in seen:
            continue
        seen.add(ms)
        check_copy_semantics(build_state(ms), ms)
        check_observation(ms)

    # random components (teleport, move_obstacles): purity, no aliasing, and
    # same answer for the same seed whatever happened in between
    chain = ['move_obstacles', 'pickndrop', 'actuate_door', 'teleport', 'move_agent']
    for ms in random_states(120, seed=77):
        grid = [list(r) for r in ms[0]]
        grid[0][0] = ('Telepod', 'RED')
        grid[-1][-1] = ('Telepod', 'RED')
        ms = (tuple(tuple(r) for r in grid), ms[1], ms[2], ms[3])
        shape = shape_of(ms)
        env_a = make_env(shape, chain)
        env_b = make_env(shape, chain)
        for action in Action:
            state = build_state(ms)
            env_a.set_seed(5)
            ns_a, r_a, t_a = env_a.functional_step(state, action)
            assert enc_state(state) == ms
            assert not set(mutable_components(state)) & set(mutable_components(ns_a))
            # unrelated calls, then the same question with the same seed
            env_b.set_seed(11)
            env_b.functional_step(build_state(ms), Action.MOVE_FORWARD)
            env_a.functional_step(state, Action.TURN_LEFT)
            env_a.set_seed(5)
            ns_b, r_b, t_b = env_a.functional_step(state, action)
            env_b.set_seed(5)
            ns_c, r_c, t_c = env_b.functional_step(build_state(ms), action)
            assert ns_a == ns_b == ns_c
            assert enc_state(ns_a) == enc_state(ns_b) == enc_state(ns_c)
            assert (r_a, t_a) == (r_b, t_b) == (r_c, t_c)
            snapshot = enc_state(ns_b)
            scramble_state(ns_a)
            assert enc_state(state) == ms and enc_state(ns_b) == snapshot
            COUNTS['random'] += 1

    print('demo A OK', COUNTS)


if __name__ == '__main__':
    main()
