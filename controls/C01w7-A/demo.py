"""Check program for commit A (move tables in get_next_position, specialised
4-neighbourhood and hoisting in move_obstacles / teleport).

Exercises the changed code through the public API and compares it with an
independent re-implementation written on plain (y, x) tuples and lists, plus a
recorded digest of full environment trajectories.  Must exit 0 on the clean
tree and with the commit applied.
"""
import hashlib
import itertools as itt
import math
import os
import sys
from functools import partial

sys.path.insert(0, os.getcwd())

import numpy as np  # noqa: E402

from gym_gridverse.action import Action  # noqa: E402
from gym_gridverse.agent import Agent  # noqa: E402
from gym_gridverse.envs import observation_functions as observation_fs  # noqa: E402
from gym_gridverse.envs import reset_functions as reset_fs  # noqa: E402
from gym_gridverse.envs import reward_functions as reward_fs  # noqa: E402
from gym_gridverse.envs import terminating_functions as terminating_fs  # noqa: E402
from gym_gridverse.envs import transition_functions as transition_fs  # noqa: E402
from gym_gridverse.envs.gridworld import GridWorld  # noqa: E402
from gym_gridverse.envs.utils import get_next_position  # noqa: E402
from gym_gridverse.geometry import Area, Orientation, Position, Shape  # noqa: E402
from gym_gridverse.grid import Grid  # noqa: E402
from gym_gridverse.grid_object import (  # noqa: E402
    Beacon,
    Box,
    Color,
    Door,
    Exit,
    Floor,
    Key,
    MovingObstacle,
    NoneGridObject,
    Telepod,
    Wall,
)
from gym_gridverse.rng import make_rng, reset_gv_rng  # noqa: E402
from gym_gridverse.spaces import ActionSpace, ObservationSpace, StateSpace  # noqa: E402
from gym_gridverse.state import State  # noqa: E402

CHECKS = 0


def check(condition, *info):
    global CHECKS
    CHECKS += 1
    if not condition:
        raise AssertionError(info)


# --------------------------------------------------------------------------
# independent reference, on plain tuples
# --------------------------------------------------------------------------

# absolute headings, clockwise from north;  (dy, dx)
HEADINGS = [(-1, 0), (0, 1), (1, 0), (0, -1)]
ORIENTATION_INDEX = {
    Orientation.FORWARD: 0,
    Orientation.RIGHT: 1,
    Orientation.BACKWARD: 2,
    Orientation.LEFT: 3,
}
MOVE_INDEX = {
    Action.MOVE_FORWARD: 0,
    Action.MOVE_RIGHT: 1,
    Action.MOVE_BACKWARD: 2,
    Action.MOVE_LEFT: 3,
}
NON_MOVES = [
    Action.TURN_LEFT,
    Action.TURN_RIGHT,
    Action.ACTUATE,
    Action.PICK_N_DROP,
]


def ref_next_yx(y, x, orientation, action):
    if action not in MOVE_INDEX:
        return y, x
    dy, dx = HEADINGS[(ORIENTATION_INDEX[orientation] + MOVE_INDEX[action]) % 4]
    return y + dy, x + dx


def ref_move_obstacles(cells, rng):
    """cells: list of lists of grid-objects, modified in place"""
    height, width = len(cells), len(cells[0])
    obstacles = [
        (y, x)
        for y in range(height)
        for x in range(width)
        if isinstance(cells[y][x], MovingObstacle)
    ]
    for y, x in obstacles:
        free = []
        for dy, dx in [(-1, 0), (0, 1), (1, 0), (0, -1)]:
            ny, nx = y + dy, x + dx
            if 0 <= ny < height and 0 <= nx < width:
                if isinstance(cells[ny][nx], Floor):
                    free.append((ny, nx))
        if free:
            ny, nx = free[rng.choice(len(free))]
            cells[y][x], cells[ny][nx] = cells[ny][nx], cells[y][x]


def ref_teleport(cells, agent_yx, rng):
    """returns the next agent (y, x)"""
    height, width = len(cells), len(cells[0])
    here = cells[agent_yx[0]][agent_yx[1]]
    if not isinstance(here, Telepod):
        return agent_yx
    others = [
        (y, x)
        for y in range(height)
        for x in range(width)
        if (y, x) != agent_yx
        and isinstance(cells[y][x], Telepod)
        and cells[y][x].color is here.color
    ]
    if not others:
        return agent_yx
    return others[rng.choice(len(others))]


def ref_move_agent(cells, agent_yx, orientation, action):
    height, width = len(cells), len(cells[0])
    ny, nx = ref_next_yx(agent_yx[0], agent_yx[1], orientation, action)
    if (ny, nx) == agent_yx and action not in MOVE_INDEX:
        return agent_yx
    if not (0 <= ny < height and 0 <= nx < width):
        return agent_yx
    if cells[ny][nx].blocks_movement:
        return agent_yx
    return ny, nx


def ref_bumps_wall(cells, agent_yx, orientation, action):
    height, width = len(cells), len(cells[0])
    ny, nx = ref_next_yx(agent_yx[0], agent_yx[1], orientation, action)
    return (
        0 <= ny < height
        and 0 <= nx < width
        and isinstance(cells[ny][nx], Wall)
    )


def rng_state(rng):
    return repr(rng.bit_generator.state)


def shallow_cells(grid):
    """new lists, same objects"""
    return [list(row) for row in grid.objects]


def same_objects(grid, cells):
    return len(grid.objects) == len(cells) and all(
        len(row) == len(ref_row) and all(a is b for a, b in zip(row, ref_row))
        for row, ref_row in zip(grid.objects, cells)
    )


ORIENTATIONS = list(Orientation)
ORIENTATIONS_WITH_ALIASES = ORIENTATIONS + [
    Orientation.F,
    Orientation.B,
    Orientation.L,
    Orientation.R,
]
SHAPES = [
    (1, 1),
    (1, 2),
    (2, 1),
    (1, 6),
    (6, 1),
    (2, 2),
    (2, 5),
    (5, 2),
    (3, 3),
    (3, 7),
    (7, 3),
    (4, 6),
    (6, 4),
    (5, 5),
    (8, 5),
]


# --------------------------------------------------------------------------
# 1. get_next_position
# --------------------------------------------------------------------------


def test_get_next_position():
    for y, x in itt.product(range(-3, 9), range(-3, 9)):
        position = Position(y, x)
        for orientation in ORIENTATIONS_WITH_ALIASES:
            for action in Action:
                for _ in range(2):  # repeated calls
                    result = get_next_position(position, orientation, action)
                    check(type(result) is Position)
                    check(
                        result.yx == ref_next_yx(y, x, orientation, action),
                        position,
                        orientation,
                        action,
                        result,
                    )
                    if action in NON_MOVES:
                        # the very same position object is handed back
                        check(result is position)
                    # the input is never modified (positions are frozen)
                    check(position.yx == (y, x))

    # the displacement is a unit step along exactly one axis
    for orientation, action in itt.product(ORIENTATIONS, MOVE_INDEX):
        result = get_next_position(Position(0, 0), orientation, action)
        check(abs(result.y) + abs(result.x) == 1)

    # the four move actions of any orientation reach the four distinct neighbours
    for orientation in ORIENTATIONS:
        reached = {
            get_next_position(Position(4, 7), orientation, action).yx
            for action in MOVE_INDEX
        }
        check(reached == {(3, 7), (5, 7), (4, 6), (4, 8)})

    # an area is shifted (Position.__radd__), as before
    area = Area((0, 2), (1, 5))
    check(
        get_next_position(area, Orientation.F, Action.MOVE_FORWARD)
        == Area((-1, 1), (1, 5))
    )
    check(
        get_next_position(area, Orientation.R, Action.MOVE_LEFT)
        == Area((-1, 1), (1, 5))
    )
    check(get_next_position(area, Orientation.R, Action.ACTUATE) is area)

    # unusual inputs keep failing (or not failing) the same way
    def outcome(*args):
        try:
            return ('ok', get_next_position(*args))
        except Exception as error:  # pylint: disable=broad-except
            return ('raise', type(error))

    position = Position(2, 2)
    check(
        outcome(position, None, Action.MOVE_FORWARD) == ('raise', TypeError)
    )
    check(outcome(position, 0, Action.MOVE_LEFT) == ('raise', TypeError))
    check(outcome(position, [], Action.MOVE_LEFT) == ('raise', TypeError))
    check(outcome(position, 'F', Action.MOVE_RIGHT) == ('raise', TypeError))
    check(outcome(position, None, Action.TURN_LEFT) == ('ok', position))
    check(outcome(position, [], Action.PICK_N_DROP) == ('ok', position))
    check(outcome(position, Orientation.F, None) == ('ok', position))
    check(outcome(position, Orientation.F, 0) == ('ok', position))
    check(outcome(position, Orientation.F, 'MOVE_FORWARD') == ('ok', position))
    check(outcome(position, Orientation.F, []) == ('raise', TypeError))
    check(outcome(position, None, []) == ('raise', TypeError))
    check(
        outcome((2, 2), Orientation.F, Action.MOVE_FORWARD)
        == ('raise', TypeError)
    )
    check(
        outcome(None, Orientation.F, Action.MOVE_FORWARD)
        == ('raise', TypeError)
    )
    check(outcome(None, Orientation.F, Action.ACTUATE) == ('ok', None))
    check(outcome((2, 2), Orientation.L, Action.TURN_LEFT) == ('ok', (2, 2)))


# --------------------------------------------------------------------------
# 2. random grids
# --------------------------------------------------------------------------

COLORS = list(Color)


def random_object(rng, weights):
    kinds = list(weights)
    p = np.array([weights[k] for k in kinds], dtype=float)
    kind = kinds[rng.choice(len(kinds), p=p / p.sum())]
    color = COLORS[rng.choice(len(COLORS))]
    if kind == 'floor':
        return Floor()
    if kind == 'wall':
        return Wall()
    if kind == 'exit':
        return Exit()
    if kind == 'obstacle':
        return MovingObstacle()
    if kind == 'telepod':
        return Telepod(color)
    if kind == 'key':
        return Key(color)
    if kind == 'beacon':
        return Beacon(color)
    if kind == 'door':
        status = list(Door.Status)[rng.choice(len(Door.Status))]
        return Door(status, color)
    if kind == 'box':
        return Box(Key(color))
    raise AssertionError(kind)


def random_grid(rng, shape, weights):
    height, width = shape
    return Grid(
        [
            [random_object(rng, weights) for _ in range(width)]
            for _ in range(height)
        ]
    )


OBSTACLE_WEIGHTS = [
    {'floor': 5, 'obstacle': 3, 'wall': 1},
    {'floor': 1, 'obstacle': 5},
    {'floor': 4, 'obstacle': 1, 'wall': 1, 'exit': 1, 'key': 1, 'door': 1,
     'box': 1, 'telepod': 1, 'beacon': 1},
    {'obstacle': 1},
    {'floor': 1},
    {'wall': 3, 'obstacle': 2},
]


def test_move_obstacles():
    gen = np.random.default_rng(20240917)
    for shape in SHAPES:
        for weights in OBSTACLE_WEIGHTS:
            for seed in range(6):
                grid = random_grid(gen, shape, weights)
                height, width = shape
                agent = Agent(
                    Position(gen.integers(height), gen.integers(width)),
                    ORIENTATIONS[gen.integers(4)],
                )
                state = State(grid, agent)
                cells = shallow_cells(grid)
                rows_before = [id(row) for row in grid.objects]
                action = list(Action)[gen.integers(len(Action))]

                use_global = seed % 3 == 2
                if use_global:
                    lib_rng = reset_gv_rng(seed)
                    kwargs = {}
                else:
                    lib_rng = make_rng(seed)
                    kwargs = {'rng': lib_rng}
                ref_rng = make_rng(seed)

                # several consecutive steps on the same state
                for _ in range(4):
                    result = transition_fs.move_obstacles(
                        state, action, **kwargs
                    )
                    ref_move_obstacles(cells, ref_rng)
                    check(result is None)
                    check(same_objects(grid, cells), shape, weights, seed)
                    check(rng_state(lib_rng) == rng_state(ref_rng))
                    # grid container, shape and agent are left alone
                    check(state.grid is grid)
                    check([id(row) for row in grid.objects] == rows_before)
                    check(grid.shape == Shape(height, width))
                    check(
                        grid.area == Area((0, height - 1), (0, width - 1))
                    )
                    check(state.agent is agent)

    # obstacles in the four corners and along the borders of non-square grids
    for height, width in [(2, 7), (7, 2), (3, 5), (5, 3), (4, 4), (1, 5), (5, 1)]:
        for seed in range(10):
            grid = Grid.from_shape((height, width))
            for position in grid.area.positions('border'):
                if (position.y + position.x + seed) % 2 == 0:
                    grid[position] = MovingObstacle()
            state = State(grid, Agent(Position(0, 0), Orientation.F))
            cells = shallow_cells(grid)
            lib_rng, ref_rng = make_rng(seed), make_rng(seed)
            for _ in range(5):
                transition_fs.move_obstacles(
                    state, Action.MOVE_FORWARD, rng=lib_rng
                )
                ref_move_obstacles(cells, ref_rng)
                check(same_objects(grid, cells), height, width, seed)
                check(rng_state(lib_rng) == rng_state(ref_rng))


# --------------------------------------------------------------------------
# 3. teleport
# --------------------------------------------------------------------------

TELEPOD_WEIGHTS = [
    {'floor': 5, 'telepod': 3, 'wall': 1},
    {'telepod': 1},
    {'floor': 6, 'telepod': 1},
    {'floor': 2, 'telepod': 2, 'key': 1, 'beacon': 1, 'door': 1, 'exit': 1},
]


def test_teleport():
    gen = np.random.default_rng(77)
    for shape in SHAPES:
        height, width = shape
        for weights in TELEPOD_WEIGHTS:
            for seed in range(3):
                grid = random_grid(gen, shape, weights)
                cells = shallow_cells(grid)
                # the agent at every cell (including borders and corners)
                for y, x in itt.product(range(height), range(width)):
                    orientation = ORIENTATIONS[(y + x + seed) % 4]
                    held = Key(Color.RED) if (y + x) % 3 == 0 else None
                    agent = Agent(Position(y, x), orientation, held)
                    held_object = agent.grid_object
                    state = State(grid, agent)
                    action = list(Action)[(y * width + x + seed) % len(Action)]

                    use_global = (y + x + seed) % 4 == 3
                    if use_global:
                        lib_rng = reset_gv_rng(seed + 1000 * y + x)
                        kwargs = {}
                    else:
                        lib_rng = make_rng(seed + 1000 * y + x)
                        kwargs = {'rng': lib_rng}
                    ref_rng = make_rng(seed + 1000 * y + x)

                    yx = (y, x)
                    for _ in range(3):  # keep hopping
                        result = transition_fs.teleport(state, action, **kwargs)
                        yx = ref_teleport(cells, yx, ref_rng)
                        check(result is None)
                        check(state.agent.position.yx == yx, shape, seed, y, x)
                        check(type(state.agent.position) is Position)
                        check(rng_state(lib_rng) == rng_state(ref_rng))
                        check(state.agent.orientation is orientation)
                        check(state.agent.grid_object is held_object)
                        check(same_objects(grid, cells))
                        check(grid.area.contains(state.agent.position))

    # hand-made cases:  unpaired telepod, differently coloured telepods
    grid = Grid.from_shape((3, 6))
    grid[0, 0] = Telepod(Color.RED)
    grid[2, 5] = Telepod(Color.BLUE)
    grid[0, 5] = Telepod(Color.GREEN)
    for start in [(0, 0), (2, 5), (0, 5)]:
        state = State(grid, Agent(Position(*start), Orientation.L))
        rng = make_rng(3)
        before = rng_state(rng)
        transition_fs.teleport(state, Action.MOVE_FORWARD, rng=rng)
        check(state.agent.position == Position(*start))
        check(rng_state(rng) == before)
    grid[2, 0] = Telepod(Color.BLUE)
    grid[1, 3] = Telepod(Color.BLUE)
    seen = set()
    for seed in range(40):
        state = State(grid, Agent(Position(2, 5), Orientation.L))
        transition_fs.teleport(state, Action.TURN_LEFT, rng=make_rng(seed))
        seen.add(state.agent.position.yx)
    check(seen == {(2, 0), (1, 3)}, seen)


# --------------------------------------------------------------------------
# 4. move_agent and the wall-bump reward / termination (users of
#    get_next_position)
# --------------------------------------------------------------------------


def test_move_agent_and_bumps():
    gen = np.random.default_rng(5)
    weights = {'floor': 5, 'wall': 2, 'obstacle': 1, 'telepod': 1, 'door': 1,
               'key': 1, 'exit': 1, 'box': 1}
    for shape in SHAPES:
        height, width = shape
        for _ in range(3):
            grid = random_grid(gen, shape, weights)
            cells = shallow_cells(grid)
            for y, x in itt.product(range(height), range(width)):
                for orientation in ORIENTATIONS:
                    for action in Action:
                        agent = Agent(Position(y, x), orientation)
                        state = State(grid, agent)

                        bump = terminating_fs.bump_into_wall(
                            state, action, state
                        )
                        reward = reward_fs.bump_into_wall(
                            state, action, state, reward=-3.5
                        )
                        expected = ref_bumps_wall(
                            cells, (y, x), orientation, action
                        )
                        check(bump is expected, shape, y, x, orientation, action)
                        check(reward == (-3.5 if expected else 0.0))
                        check(type(reward) is float)

                        result = transition_fs.move_agent(state, action)
                        check(result is None)
                        check(
                            agent.position.yx
                            == ref_move_agent(
                                cells, (y, x), orientation, action
                            ),
                            shape,
                            y,
                            x,
                            orientation,
                            action,
                        )
                        check(agent.orientation is orientation)
                        check(grid.area.contains(agent.position))
                        check(same_objects(grid, cells))


# --------------------------------------------------------------------------
# 5. full environments:  closure, totality, and recorded trajectories
# --------------------------------------------------------------------------


def make_env(kind, shape, **reset_kwargs):
    if kind == 'dynamic_obstacles':
        object_types = [Wall, Floor, Exit, MovingObstacle]
        colors = [Color.NONE]
        reset = partial(reset_fs.dynamic_obstacles, shape, **reset_kwargs)
        transitions = [
            transition_fs.move_agent,
            transition_fs.turn_agent,
            transition_fs.move_obstacles,
        ]
        terminations = [
            terminating_fs.reach_exit,
            terminating_fs.bump_moving_obstacle,
            terminating_fs.bump_into_wall,
        ]
        rewards = [
            partial(reward_fs.reach_exit, reward_on=5.0, reward_off=0.0),
            partial(reward_fs.bump_moving_obstacle, reward=-1.0),
            partial(reward_fs.bump_into_wall, reward=-1.0),
            partial(reward_fs.living_reward, reward=-0.05),
        ]
    elif kind == 'teleport':
        object_types = [Wall, Floor, Exit, Telepod]
        colors = [Color.NONE, Color.RED]
        reset = partial(reset_fs.teleport, shape)
        transitions = [
            transition_fs.move_agent,
            transition_fs.turn_agent,
            transition_fs.teleport,
        ]
        terminations = [terminating_fs.reach_exit]
        rewards = [
            partial(reward_fs.reach_exit, reward_on=5.0, reward_off=0.0),
            partial(
                reward_fs.getting_closer,
                distance_function=Position.manhattan_distance,
                object_type=Exit,
                reward_closer=0.2,
                reward_further=-0.2,
            ),
            partial(reward_fs.living_reward, reward=-0.05),
        ]
    else:
        raise AssertionError(kind)

    transition = partial(transition_fs.chain, transition_functions=transitions)
    reward = partial(reward_fs.reduce_sum, reward_functions=rewards)
    termination = partial(
        terminating_fs.reduce_any, terminating_functions=terminations
    )
    observation = partial(
        observation_fs.partially_occluded, area=Area((-4, 0), (-2, 2))
    )
    return GridWorld(
        StateSpace(shape, object_types, colors),
        ActionSpace(list(Action)[:6]),
        ObservationSpace(Shape(5, 5), object_types, colors),
        reset,
        transition,
        observation,
        reward,
        termination,
    )


def describe_object(obj):
    return (type(obj).__name__, obj.state_index, obj.color.name)


def describe_state(state):
    return (
        state.grid.shape.as_tuple,
        tuple(
            tuple(describe_object(obj) for obj in row)
            for row in state.grid.objects
        ),
        state.agent.position.yx,
        state.agent.orientation.name,
        describe_object(state.agent.grid_object),
    )


ENV_SPECS = [
    ('dynamic_obstacles', Shape(7, 7), {'num_obstacles': 2}),
    ('dynamic_obstacles', Shape(5, 5), {'num_obstacles': 1}),
    ('dynamic_obstacles', Shape(4, 9), {'num_obstacles': 5, 'random_agent': True}),
    ('dynamic_obstacles', Shape(8, 4), {'num_obstacles': 3, 'random_agent': True}),
    ('dynamic_obstacles', Shape(6, 5), {'num_obstacles': 0}),
    ('dynamic_obstacles', Shape(5, 6), {'num_obstacles': 10, 'random_agent': True}),
    ('teleport', Shape(7, 7), {}),
    ('teleport', Shape(5, 5), {}),
    ('teleport', Shape(4, 8), {}),
    ('teleport', Shape(9, 4), {}),
]

# sha256 over every visited state, reward and termination flag, recorded with
# the library before the change
RECORDED_DIGEST = '5e7e6b43417e3c1e7b185f1a9f0851ce366f2012148562343bf0d43b6230d4c3'


def test_environments():
    digest = hashlib.sha256()
    policy = np.random.default_rng(99)
    for kind, shape, reset_kwargs in ENV_SPECS:
        # two environments of the same kind alive in the same process
        env = make_env(kind, shape, **reset_kwargs)
        twin = make_env(kind, shape, **reset_kwargs)
        for seed in range(6):
            env.set_seed(seed)
            twin.set_seed(seed)
            env.reset()
            twin.reset()
            check(describe_state(env.state) == describe_state(twin.state))
            for _ in range(60):
                state = env.state
                check(env.state_space.contains(state))
                check(env.observation_space.contains(env.observation))

                # actions outside the action space are rejected, nothing changes
                before = describe_state(state)
                for bad in [Action.ACTUATE, Action.PICK_N_DROP]:
                    try:
                        env.step(bad)
                    except ValueError:
                        pass
                    else:
                        raise AssertionError('invalid action accepted')
                check(env.state is state)
                check(describe_state(state) == before)

                action = env.action_space.int_to_action(
                    int(policy.integers(env.action_space.num_actions))
                )
                reward, terminal = env.step(action)
                twin_reward, twin_terminal = twin.step(action)

                next_state = env.state
                # the step works on a copy
                check(next_state is not state)
                check(next_state.grid is not state.grid)
                check(describe_state(state) == before)
                # closure
                check(env.state_space.contains(next_state))
                check(next_state.grid.shape == shape)
                check(next_state.grid.area.contains(next_state.agent.position))
                check(isinstance(next_state.agent.orientation, Orientation))
                check(type(next_state.agent.grid_object) is NoneGridObject)
                check(isinstance(reward, float) and math.isfinite(reward))
                check(isinstance(terminal, bool))
                # the object census is invariant under these dynamics
                check(
                    sorted(describe_object(o) for r in state.grid.objects for o in r)
                    == sorted(
                        describe_object(o)
                        for r in next_state.grid.objects
                        for o in r
                    )
                )
                # determinism given the seed, also for the second environment
                check(describe_state(next_state) == describe_state(twin.state))
                check(reward == twin_reward and terminal is twin_terminal)

                digest.update(
                    repr(
                        (describe_state(next_state), reward, terminal)
                    ).encode()
                )
                if terminal:
                    env.reset()
                    twin.reset()

    return digest.hexdigest()


def main():
    test_get_next_position()
    test_move_obstacles()
    test_teleport()
    test_move_agent_and_bumps()
    digest = test_environments()
    if '--record' in sys.argv:
        print(digest)
        return
    check(digest == RECORDED_DIGEST, digest)
    print(f'OK ({CHECKS} checks)')


if __name__ == '__main__':
    main()
