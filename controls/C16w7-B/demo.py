"""Check program for the numeric representations (grid / agent-id / item).

Run as:  cd /tmp/wt7-C16 && /venv/bin/python -W ignore _seed/B/demo.py

Everything is asserted against an independent re-implementation of the three
encodings written in this file (dictionaries and plain integers, no library
helper is reused) and against recorded constants.  The program must pass on the
clean tree and with the commit applied.
"""
import itertools
import os
import random
import sys

sys.path.insert(0, os.getcwd())

import numpy as np  # noqa: E402

from gym_gridverse.action import Action  # noqa: E402
from gym_gridverse.agent import Agent  # noqa: E402
from gym_gridverse.debugging import reset_gv_debug  # noqa: E402
from gym_gridverse.envs.yaml.factory import factory_env_from_data  # noqa: E402
from gym_gridverse.geometry import Orientation, Position, Shape  # noqa: E402
from gym_gridverse.grid import Grid  # noqa: E402
from gym_gridverse.grid_object import (  # noqa: E402
    Beacon,
    Box,
    Color,
    Door,
    Exit,
    Floor,
    GridObject,
    Hidden,
    Key,
    MovingObstacle,
    NoneGridObject,
    Telepod,
    Wall,
)
from gym_gridverse.observation import Observation  # noqa: E402
from gym_gridverse.outer_env import OuterEnv  # noqa: E402
from gym_gridverse.representations.observation_representations import (  # noqa: E402
    CompactGridObjectObservationRepresentation,
    DefaultGridObjectObservationRepresentation,
    GridObjectObservationRepresentation,
    GridObservationRepresentation,
    NoOverlapGridObjectObservationRepresentation,
    make_observation_representation,
)
from gym_gridverse.representations.spaces import Space, SpaceType  # noqa: E402
from gym_gridverse.representations.state_representations import (  # noqa: E402
    CompactGridObjectStateRepresentation,
    DefaultGridObjectStateRepresentation,
    GridObjectStateRepresentation,
    GridStateRepresentation,
    NoOverlapGridObjectStateRepresentation,
    make_state_representation,
)
from gym_gridverse.spaces import ObservationSpace, StateSpace  # noqa: E402
from gym_gridverse.state import State  # noqa: E402

reset_gv_debug(True)

NAMES = ('default', 'no-overlap', 'compact')

# ---------------------------------------------------------------------------
# independent reference
# ---------------------------------------------------------------------------

# recorded: registration order of the built-in grid-objects
TYPE_INDEX = {
    NoneGridObject: 0,
    Hidden: 1,
    Floor: 2,
    Wall: 3,
    Exit: 4,
    Door: 5,
    Key: 6,
    MovingObstacle: 7,
    Box: 8,
    Telepod: 9,
    Beacon: 10,
}
NUM_STATES = {t: 1 for t in TYPE_INDEX}
NUM_STATES[Door] = 3
COLOR_INDEX = {
    Color.NONE: 0,
    Color.RED: 1,
    Color.GREEN: 2,
    Color.BLUE: 3,
    Color.YELLOW: 4,
}
for t, i in TYPE_INDEX.items():
    assert t.type_index() == i and t.num_states() == NUM_STATES[t]
for c, i in COLOR_INDEX.items():
    assert c.value == i


def status_of(obj):
    return obj.state.value if isinstance(obj, Door) else 0


class Ref:
    """reference encoder for one (types, colors) pair; plain python"""

    def __init__(self, name, types, colors):
        self.name = name
        self.types = sorted(set(types), key=TYPE_INDEX.__getitem__)
        self.colors = sorted(set(colors), key=COLOR_INDEX.__getitem__)
        self.mt = max(TYPE_INDEX[t] for t in self.types)
        self.ms = max(NUM_STATES[t] for t in self.types)  # sic: the count
        self.mc = max(COLOR_INDEX[c] for c in self.colors)

        code = itertools.count()
        self.type_code = {t: next(code) for t in self.types}
        self.status_code = {
            (t, j): next(code)
            for t in self.types
            for j in range(NUM_STATES[t])
        }
        self.color_code = {c: next(code) for c in self.colors}
        self.ncodes = next(code)

    def upper(self):
        if self.name == 'default':
            return [self.mt, self.ms, self.mc]
        if self.name == 'no-overlap':
            return [
                self.mt,
                self.mt + self.ms + 1,
                self.mt + self.ms + self.mc + 2,
            ]
        return [
            max(self.type_code.values()),
            max(self.status_code.values()),
            max(self.color_code.values()),
        ]

    def encode(self, obj):
        t, j, c = type(obj), status_of(obj), obj.color
        if self.name == 'default':
            return [TYPE_INDEX[t], j, COLOR_INDEX[c]]
        if self.name == 'no-overlap':
            return [
                TYPE_INDEX[t],
                self.mt + j + 1,
                self.mt + self.ms + COLOR_INDEX[c] + 2,
            ]
        return [
            self.type_code[t],
            self.status_code[t, j],
            self.color_code[c],
        ]

    def grid(self, grid):
        return [[self.encode(obj) for obj in row] for row in grid.objects]


def ref_agent_id(shape, position):
    return [
        [1 if (y, x) == (position.y, position.x) else 0 for x in range(shape[1])]
        for y in range(shape[0])
    ]


def ref_agent(shape, position, orientation):
    h, w = shape
    out = [0.0] * 6
    out[0] = (2 * position.y - h + 1) / (h - 1)
    out[1] = (2 * position.x - w + 1) / (w - 1)
    # recorded: FORWARD, BACKWARD, LEFT, RIGHT
    order = [Orientation.F, Orientation.B, Orientation.L, Orientation.R]
    out[2 + order.index(orientation)] = 1.0
    return out


def same(array, reference, dtype_kind='i'):
    reference = np.asarray(reference)
    return (
        isinstance(array, np.ndarray)
        and array.dtype.kind == dtype_kind
        and array.shape == reference.shape
        and np.array_equal(array, reference)
    )


def all_objects(types, colors, *, in_state):
    """every distinct member object of a space (by library equality)"""
    objs = []
    for t in sorted(types, key=TYPE_INDEX.__getitem__):
        if t in (Floor, Wall, MovingObstacle, NoneGridObject, Hidden):
            objs.append(t())
        elif t is Exit:
            objs.extend(Exit(c) for c in colors)
        elif t is Door:
            objs.extend(Door(s, c) for s in Door.Status for c in colors)
        elif t in (Key, Telepod, Beacon):
            objs.extend(t(c) for c in colors)
        elif t is Box:
            assert not in_state
            objs.append(Box(Floor()))
        else:
            raise AssertionError(t)
    return objs


def clone(obj):
    """a fresh object equal to obj (never the same instance)"""
    if isinstance(obj, Door):
        return Door(obj.state, obj.color)
    if isinstance(obj, (Key, Telepod, Beacon, Exit)):
        return type(obj)(obj.color)
    if isinstance(obj, Box):
        return Box(obj.content)
    return type(obj)()


# ---------------------------------------------------------------------------
# the spaces which are quantified over
# ---------------------------------------------------------------------------

STATE_TYPE_SUBSETS = [
    [Floor],
    [Wall],
    [Floor, Wall],
    [Floor, Exit],
    [Door],
    [Floor, Wall, Door, Key],
    [Key, Floor, Door],  # not in index order
    [Floor, Wall, Exit, MovingObstacle],
    [Floor, Wall, Telepod],
    [Beacon, Floor],
    [Floor, Wall, Exit, Door, Key, MovingObstacle, Telepod, Beacon],
    [Floor, Floor, Wall],  # repeated
]
OBS_TYPE_SUBSETS = STATE_TYPE_SUBSETS + [
    [Floor, Box],
    [Floor, Wall, Exit, Door, Key, MovingObstacle, Box, Telepod, Beacon],
    [Hidden, Floor],  # Hidden explicitly listed
]
COLOR_SUBSETS = [
    [],
    [Color.NONE],
    [Color.YELLOW],
    [Color.RED, Color.BLUE],
    [Color.GREEN, Color.RED, Color.NONE],
    list(Color),
]
STATE_SHAPES = [(2, 2), (2, 3), (3, 2), (2, 5), (5, 2), (3, 4), (4, 3)]
OBS_SHAPES = [(2, 3), (3, 3), (2, 5), (5, 3), (3, 5), (4, 1), (2, 1)]

rng = random.Random(20240607)
counters = {'spaces': 0, 'converts': 0, 'pairs': 0, 'cells': 0}


COLORED = (Exit, Door, Key, Telepod, Beacon)


def check_encoding_laws(ref, objs, convert):
    """lossless + well separated; on the numbers produced by the library"""
    codes = []
    for obj in objs:
        out = convert(obj)
        assert same(out, ref.encode(obj)), (ref.name, obj)
        assert not np.shares_memory(out, convert(obj))  # always a new array
        codes.append(tuple(int(v) for v in out))
    assert len(set(codes)) == len(codes)  # injective on distinct objects
    channels = [set(c[k] for c in codes) for k in range(3)]
    if ref.name == 'default':
        for obj, code in zip(objs, codes):
            assert code == (TYPE_INDEX[type(obj)], status_of(obj), COLOR_INDEX[obj.color])
    else:
        assert not channels[0] & channels[1]
        assert not channels[0] & channels[2]
        assert not channels[1] & channels[2]
    if ref.name == 'no-overlap':
        # the value ranges of the channels, not only the used values
        upper = ref.upper()
        assert min(channels[0]) >= 0 and max(channels[0]) <= upper[0]
        assert min(channels[1]) > upper[0] and max(channels[1]) <= upper[1]
        assert min(channels[2]) > upper[1] and max(channels[2]) <= upper[2]
    if ref.name == 'compact':
        ntypes = len(ref.types)
        nstatus = sum(NUM_STATES[t] for t in ref.types)
        assert channels[0] == set(range(ntypes))
        assert channels[1] == set(range(ntypes, ntypes + nstatus))
        assert channels[2] <= set(range(ntypes + nstatus, ref.ncodes))
        if any(t in COLORED for t in ref.types):
            # some member object carries each colour: no gap at all
            assert channels[2] == set(range(ntypes + nstatus, ref.ncodes))
        assert ref.upper()[2] == ref.ncodes - 1


def check_grid_object_space(space, ref):
    assert isinstance(space, Space)
    assert space.space_type is SpaceType.CATEGORICAL
    assert same(space.lower_bound, [0, 0, 0])
    assert same(space.upper_bound, ref.upper())


def random_grid(shape, objs):
    return Grid(
        [[clone(rng.choice(objs)) for _ in range(shape[1])] for _ in range(shape[0])]
    )


def reps_equal(a, b):
    return a.keys() == b.keys() and all(
        a[k].shape == b[k].shape and np.array_equal(a[k], b[k]) for k in a
    )


def check_state_space(types, colors, shape):
    space = StateSpace(Shape(*shape), types, colors)
    cell_types = set(types)
    item_types = set(types) | {NoneGridObject}
    all_colors = set(colors) | {Color.NONE}
    cell_objs = all_objects(cell_types, all_colors, in_state=True)
    item_objs = all_objects(item_types, all_colors, in_state=True)
    h, w = shape
    counters['spaces'] += 1

    for name in NAMES:
        ref = Ref(name, item_types, all_colors)
        check_encoding_laws(
            ref,
            item_objs,
            {
                'default': DefaultGridObjectStateRepresentation,
                'no-overlap': NoOverlapGridObjectStateRepresentation,
                'compact': CompactGridObjectStateRepresentation,
            }[name](space).convert,
        )

        rep = make_state_representation(name, space)
        assert list(rep.representations) == ['grid', 'agent_id_grid', 'agent', 'item']
        spaces = rep.space
        check_grid_object_space(spaces['item'], ref)
        gspace = spaces['grid']
        assert gspace.space_type is SpaceType.CATEGORICAL
        assert same(gspace.lower_bound, np.zeros((h, w, 3), int))
        assert same(gspace.upper_bound, [[ref.upper()] * w] * h)
        # fresh arrays on every access, never shared with the item space
        again = rep.space['grid']
        assert again == gspace
        assert not np.shares_memory(again.upper_bound, gspace.upper_bound)
        assert not np.shares_memory(again.lower_bound, gspace.lower_bound)
        assert not np.shares_memory(gspace.upper_bound, spaces['item'].upper_bound)
        aspace = spaces['agent_id_grid']
        assert aspace.space_type is SpaceType.DISCRETE
        assert same(aspace.lower_bound, np.zeros((h, w), int))
        assert same(aspace.upper_bound, np.ones((h, w), int))

        # --- exhaustive: every object at every cell, on a random background
        background = random_grid(shape, cell_objs)
        base = rep.representations['grid'].convert(
            State(background, Agent(Position(0, 0), Orientation.F))
        )
        assert same(base, ref.grid(background))
        for obj in cell_objs:
            for y in range(h):
                for x in range(w):
                    previous = background[y, x]
                    background[y, x] = obj
                    state = State(background, Agent(Position(y, x), Orientation.F))
                    out = rep.representations['grid'].convert(state)
                    expected = np.array(base)
                    expected[y, x] = ref.encode(obj)
                    assert same(out, expected), (name, obj, y, x)
                    assert state.grid[y, x] is obj
                    background[y, x] = previous
                    counters['cells'] += 1

        # --- a grid made of one single object, and one of all-distinct ones
        for obj in cell_objs:
            grid = Grid([[obj] * w for _ in range(h)])  # same instance everywhere
            out = rep.representations['grid'].convert(
                State(grid, Agent(Position(0, 0), Orientation.F))
            )
            assert same(out, [[ref.encode(obj)] * w] * h)

        # --- full dictionaries on random states, all agent poses incl. corners
        states = []
        for _ in range(6):
            grid = random_grid(shape, cell_objs)
            y, x = rng.randrange(h), rng.randrange(w)
            states.append(
                State(
                    grid,
                    Agent(
                        Position(y, x),
                        rng.choice(list(Orientation)),
                        clone(rng.choice(item_objs)),
                    ),
                )
            )
        grid = random_grid(shape, cell_objs)
        for y, x in itertools.product(range(h), range(w)):
            for orientation in Orientation:
                states.append(
                    State(grid, Agent(Position(y, x), orientation, clone(rng.choice(item_objs))))
                )
        # near duplicates: equal copies and one-cell / item / pose variations
        s0 = states[0]
        states.append(
            State(
                Grid([[clone(o) for o in row] for row in s0.grid.objects]),
                Agent(s0.agent.position, s0.agent.orientation, clone(s0.agent.grid_object)),
            )
        )
        for obj in cell_objs[:4]:
            g = Grid([[clone(o) for o in row] for row in s0.grid.objects])
            g[h - 1, w - 1] = obj
            states.append(
                State(g, Agent(s0.agent.position, s0.agent.orientation, clone(s0.agent.grid_object)))
            )

        converted = []
        for state in states:
            assert space.contains(state)
            identities = [[id(o) for o in row] for row in state.grid.objects]
            out = rep.convert(state)
            counters['converts'] += 1
            assert list(out) == ['grid', 'agent_id_grid', 'agent', 'item']
            assert same(out['grid'], ref.grid(state.grid)), name
            assert same(out['agent_id_grid'], ref_agent_id(shape, state.agent.position))
            assert out['agent_id_grid'].sum() == 1
            assert out['agent_id_grid'][state.agent.position.yx] == 1
            assert same(out['item'], ref.encode(state.agent.grid_object))
            assert same(out['agent'], ref_agent(shape, state.agent.position, state.agent.orientation), 'f')
            for key in out:
                assert spaces[key].contains(out[key]), (name, key)
            # the state is not touched
            assert identities == [[id(o) for o in row] for row in state.grid.objects]
            # nothing is shared between results, fields or calls
            out2 = rep.convert(state)
            assert reps_equal(out, out2)
            for k1 in out:
                for k2 in out2:
                    assert not np.shares_memory(out[k1], out2[k2])
            assert not np.shares_memory(out['grid'], out['item'])
            out['grid'][...] = -7
            out['item'][...] = -7
            out['agent_id_grid'][...] = -7
            out3 = rep.convert(state)
            assert reps_equal(out2, out3)
            converted.append(out3)

        # --- faithful: equal representations iff equal states; equal hash alike
        for (s1, r1), (s2, r2) in itertools.combinations(zip(states, converted), 2):
            counters['pairs'] += 1
            assert (s1 == s2) == reps_equal(r1, r2), (name, s1, s2)
            if s1 == s2:
                assert hash(s1) == hash(s2)


def check_observation_space(types, colors, shape):
    space = ObservationSpace(Shape(*shape), types, colors)
    cell_types = set(types) | {Hidden}
    item_types = set(types) | {NoneGridObject}
    enc_types = set(types) | {Hidden, NoneGridObject}
    all_colors = set(colors) | {Color.NONE}
    cell_objs = all_objects(cell_types, all_colors, in_state=False)
    item_objs = all_objects(item_types, all_colors, in_state=False)
    enc_objs = all_objects(enc_types, all_colors, in_state=False)
    h, w = shape
    counters['spaces'] += 1
    assert space.agent_position == Position(h - 1, w // 2)

    for name in NAMES:
        ref = Ref(name, enc_types, all_colors)
        check_encoding_laws(
            ref,
            enc_objs,
            {
                'default': DefaultGridObjectObservationRepresentation,
                'no-overlap': NoOverlapGridObjectObservationRepresentation,
                'compact': CompactGridObjectObservationRepresentation,
            }[name](space).convert,
        )

        rep = make_observation_representation(name, space)
        assert list(rep.representations) == ['grid', 'agent_id_grid', 'item']
        spaces = rep.space
        check_grid_object_space(spaces['item'], ref)
        gspace = spaces['grid']
        assert gspace.space_type is SpaceType.CATEGORICAL
        assert same(gspace.lower_bound, np.zeros((h, w, 3), int))
        assert same(gspace.upper_bound, [[ref.upper()] * w] * h)
        again = rep.space['grid']
        assert again == gspace
        assert not np.shares_memory(again.upper_bound, gspace.upper_bound)
        assert not np.shares_memory(gspace.upper_bound, spaces['item'].upper_bound)
        aspace = spaces['agent_id_grid']
        assert aspace.space_type is SpaceType.DISCRETE
        assert same(aspace.lower_bound, np.zeros((h, w), int))
        assert same(aspace.upper_bound, np.ones((h, w), int))

        agent = Agent(space.agent_position, Orientation.F)

        background = random_grid(shape, cell_objs)
        base = rep.representations['grid'].convert(Observation(background, agent))
        assert same(base, ref.grid(background))
        for obj in cell_objs:
            for y in range(h):
                for x in range(w):
                    previous = background[y, x]
                    background[y, x] = obj
                    out = rep.representations['grid'].convert(
                        Observation(background, agent)
                    )
                    expected = np.array(base)
                    expected[y, x] = ref.encode(obj)
                    assert same(out, expected), (name, obj, y, x)
                    background[y, x] = previous
                    counters['cells'] += 1

        for obj in cell_objs:
            grid = Grid([[obj] * w for _ in range(h)])
            out = rep.representations['grid'].convert(Observation(grid, agent))
            assert same(out, [[ref.encode(obj)] * w] * h)

        observations = []
        for _ in range(10):
            observations.append(
                Observation(
                    random_grid(shape, cell_objs),
                    Agent(space.agent_position, Orientation.F, clone(rng.choice(item_objs))),
                )
            )
        o0 = observations[0]
        observations.append(
            Observation(
                Grid([[clone(o) for o in row] for row in o0.grid.objects]),
                Agent(o0.agent.position, o0.agent.orientation, clone(o0.agent.grid_object)),
            )
        )
        for obj in cell_objs[:4]:
            g = Grid([[clone(o) for o in row] for row in o0.grid.objects])
            g[0, w - 1] = obj
            observations.append(
                Observation(g, Agent(o0.agent.position, o0.agent.orientation, clone(o0.agent.grid_object)))
            )
        # agent marker at every cell of the view (spaces admit any position)
        for y, x in itertools.product(range(h), range(w)):
            out = rep.representations['agent_id_grid'].convert(
                Observation(o0.grid, Agent(Position(y, x), Orientation.F))
            )
            assert same(out, ref_agent_id(shape, Position(y, x)))

        converted = []
        for observation in observations:
            assert space.contains(observation)
            out = rep.convert(observation)
            counters['converts'] += 1
            assert list(out) == ['grid', 'agent_id_grid', 'item']
            assert same(out['grid'], ref.grid(observation.grid)), name
            assert same(out['agent_id_grid'], ref_agent_id(shape, observation.agent.position))
            assert same(out['item'], ref.encode(observation.agent.grid_object))
            for key in out:
                assert spaces[key].contains(out[key]), (name, key)
            out2 = rep.convert(observation)
            assert reps_equal(out, out2)
            for k1 in out:
                for k2 in out2:
                    assert not np.shares_memory(out[k1], out2[k2])
            out['grid'][...] = -7
            out['item'][...] = -7
            out3 = rep.convert(observation)
            assert reps_equal(out2, out3)
            converted.append(out3)

        for (o1, r1), (o2, r2) in itertools.combinations(zip(observations, converted), 2):
            counters['pairs'] += 1
            assert (o1 == o2) == reps_equal(r1, r2), (name, o1, o2)
            if o1 == o2:
                assert hash(o1) == hash(o2)


# ---------------------------------------------------------------------------
# corner cases of the grid conversion
# ---------------------------------------------------------------------------


def check_degenerate_shapes():
    """grid field alone on 1xN, Nx1 and empty-row grids"""
    types = [Floor, Wall, Door, Key]
    colors = [Color.RED, Color.BLUE]
    objs = all_objects(types, set(colors) | {Color.NONE}, in_state=True)
    agent = Agent(Position(0, 0), Orientation.F)
    for shape in [(1, 1), (1, 6), (6, 1), (1, 2)]:
        space = StateSpace(Shape(*shape), types, colors)
        for name in NAMES:
            ref = Ref(name, set(types) | {NoneGridObject}, set(colors) | {Color.NONE})
            rep = make_state_representation(name, space).representations['grid']
            for _ in range(5):
                grid = random_grid(shape, objs)
                out = rep.convert(State(grid, agent))
                assert same(out, ref.grid(grid))
                assert out.shape == shape + (3,)
    # the extent of the conversion is the shape recorded by the grid, even if
    # rows were (ab)used afterwards
    space = StateSpace(Shape(2, 2), types, colors)
    ospace = ObservationSpace(Shape(2, 3), types, colors)
    for name in NAMES:
        ref = Ref(name, set(types) | {NoneGridObject, Hidden}, set(colors) | {Color.NONE})
        sref = Ref(name, set(types) | {NoneGridObject}, set(colors) | {Color.NONE})
        grid = random_grid((2, 2), objs)
        expected = sref.grid(grid)
        grid.objects[0].append(Wall())
        grid.objects.append([Wall(), Wall(), Wall()])
        rep = make_state_representation(name, space).representations['grid']
        assert same(rep.convert(State(grid, agent)), expected)
        grid = random_grid((2, 3), objs)
        expected = ref.grid(grid)
        grid.objects[1].extend([Wall(), Floor()])
        grid.objects.append([Wall()])
        rep = make_observation_representation(name, ospace).representations['grid']
        assert same(rep.convert(Observation(grid, agent)), expected)


class PositionalStateEncoding(GridObjectStateRepresentation):
    """user-defined encoding which is NOT a function of the indices only"""

    def __init__(self, state_space):
        super().__init__(state_space)
        self.calls = []

    @property
    def space(self):
        return Space.make_categorical_space(np.array([1000, 1000, 1000]))

    def convert(self, grid_object):
        self.calls.append(grid_object)
        return np.array([len(self.calls), id(grid_object) % 1000, grid_object.color.value])


class PositionalObservationEncoding(GridObjectObservationRepresentation):
    def __init__(self, observation_space):
        super().__init__(observation_space)
        self.calls = []

    @property
    def space(self):
        return Space.make_categorical_space(np.array([1000, 1000, 1000]))

    def convert(self, grid_object):
        self.calls.append(grid_object)
        return np.array([len(self.calls), id(grid_object) % 1000, grid_object.color.value])


class ContentAwareStateEncoding(DefaultGridObjectStateRepresentation):
    """subclass of a built-in encoding which looks at more than the indices"""

    def convert(self, grid_object):
        out = super().convert(grid_object)
        out[1] = getattr(grid_object, 'tag', 0)
        return out


class ContentAwareObservationEncoding(CompactGridObjectObservationRepresentation):
    def convert(self, grid_object):
        out = super().convert(grid_object)
        if isinstance(grid_object, Box):
            out[2] = 100 + grid_object.content.type_index()
        return out


def check_user_defined_encodings():
    shape = (3, 5)
    sspace = StateSpace(Shape(*shape), [Floor, Wall, Key], [Color.RED])
    ospace = ObservationSpace(Shape(*shape), [Floor, Wall, Key, Box], [Color.RED])
    agent = Agent(Position(2, 2), Orientation.F)

    floor = Floor()
    grid = Grid([[floor] * 5, [Wall(), floor, Wall(), floor, Key(Color.RED)], [floor] * 5])
    for enc, rep, thing in [
        (
            PositionalStateEncoding(sspace),
            GridStateRepresentation,
            State(grid, agent),
        ),
        (
            PositionalObservationEncoding(ospace),
            GridObservationRepresentation,
            Observation(grid, agent),
        ),
    ]:
        field = rep(enc.state_space if rep is GridStateRepresentation else enc.observation_space, enc)
        out = field.convert(thing)
        # one call per cell, in row-major order, with the very object of the cell
        assert len(enc.calls) == 15
        flat = [o for row in grid.objects for o in row]
        assert all(a is b for a, b in zip(enc.calls, flat))
        assert same(out[:, :, 0], np.arange(1, 16).reshape(3, 5))
        out = field.convert(thing)
        assert same(out[:, :, 0], np.arange(16, 31).reshape(3, 5))
        # the grid space is the tiled object space
        assert same(field.space.upper_bound, np.full((3, 5, 3), 1000))
        assert same(field.space.lower_bound, np.zeros((3, 5, 3), int))
        assert field.space.space_type is SpaceType.CATEGORICAL

    # equal objects (library equality) which a subclass tells apart
    a, b = Floor(), Floor()
    a.tag, b.tag = 11, 22
    grid = Grid([[a, b, a], [b, b, a]])
    enc = ContentAwareStateEncoding(StateSpace(Shape(2, 3), [Floor], []))
    out = GridStateRepresentation(enc.state_space, enc).convert(State(grid, agent))
    assert same(out[:, :, 1], [[11, 22, 11], [22, 22, 11]])

    boxes = [Box(Floor()), Box(Key(Color.RED)), Box(Wall())]
    assert boxes[0] == boxes[1] == boxes[2]
    grid = Grid([boxes, boxes[::-1]])
    ospace = ObservationSpace(Shape(2, 3), [Floor, Wall, Key, Box], [Color.RED])
    enc = ContentAwareObservationEncoding(ospace)
    out = GridObservationRepresentation(ospace, enc).convert(Observation(grid, agent))
    assert same(out[:, :, 2], [[102, 106, 103], [103, 106, 102]])
    # ... while the built-in one (by design) does not look inside boxes
    out = make_observation_representation('compact', ospace).representations['grid'].convert(
        Observation(grid, agent)
    )
    assert len({tuple(v) for v in out.reshape(-1, 3)}) == 1


def check_objects_outside_of_the_space():
    """objects which are not members: recorded behaviour of the raw fields"""
    agent = Agent(Position(0, 0), Orientation.F)
    floor = Floor()

    # beyond the compact tables: IndexError, wherever the object sits
    space = StateSpace(Shape(2, 3), [Floor, Wall], [])
    field = make_state_representation('compact', space).representations['grid']
    for y, x in itertools.product(range(2), range(3)):
        grid = Grid([[floor] * 3, [floor] * 3])
        grid[y, x] = Key(Color.RED)
        try:
            field.convert(State(grid, agent))
        except IndexError as error:
            assert error.__context__ is None
        else:
            raise AssertionError('expected IndexError')
    # a colour beyond the table, after many cells which are fine
    grid = Grid([[floor] * 3, [Wall(), floor, Exit(Color.BLUE)]])
    try:
        field.convert(State(grid, agent))
    except IndexError as error:
        assert error.__context__ is None
    else:
        raise AssertionError('expected IndexError')

    # inside the tables but unused: -1 entries (recorded)
    space = StateSpace(Shape(2, 3), [Floor, Exit], [Color.GREEN])
    field = make_state_representation('compact', space).representations['grid']
    grid = Grid([[floor, Wall(), floor], [Exit(Color.RED), floor, Exit(Color.GREEN)]])
    out = field.convert(State(grid, agent))
    assert same(out, [[[1, 4, 6], [-1, -1, 6], [1, 4, 6]], [[2, 5, -1], [1, 4, 6], [2, 5, 7]]])

    # default / no-overlap never fail, they are plain index arithmetic
    grid = Grid([[floor, Beacon(Color.YELLOW), floor], [Door(Door.Status.LOCKED, Color.BLUE), floor, floor]])
    out = make_state_representation('default', space).representations['grid'].convert(State(grid, agent))
    assert same(out, [[[2, 0, 0], [10, 0, 4], [2, 0, 0]], [[5, 2, 3], [2, 0, 0], [2, 0, 0]]])
    out = make_state_representation('no-overlap', space).representations['grid'].convert(State(grid, agent))
    # mt = 4, ms = 1
    assert same(out, [[[2, 5, 7], [10, 5, 11], [2, 5, 7]], [[5, 7, 10], [2, 5, 7], [2, 5, 7]]])

    # the full dictionary refuses non-members (debug checks are on)
    rep = make_state_representation('default', space)
    try:
        rep.convert(State(grid, agent))
    except ValueError:
        pass
    else:
        raise AssertionError('expected ValueError')

    # something which is not a grid-object at all: same failure at any cell
    class Thing:
        pass

    for name in NAMES:
        field = make_state_representation(name, space).representations['grid']
        for y, x in itertools.product(range(2), range(3)):
            grid = Grid([[floor] * 3, [floor] * 3])
            grid.objects[y][x] = Thing()
            try:
                field.convert(State(grid, agent))
            except AttributeError:
                pass
            else:
                raise AssertionError('expected AttributeError')

    # ragged rows: IndexError from the cell which does not exist
    for name in NAMES:
        field = make_state_representation(name, space).representations['grid']
        grid = Grid([[floor] * 3, [floor] * 3])
        grid.objects[1] = [floor, floor]
        try:
            field.convert(State(grid, agent))
        except IndexError:
            pass
        else:
            raise AssertionError('expected IndexError')


def check_mutable_objects_between_calls():
    """nothing is remembered from one call to the next"""
    space = StateSpace(Shape(3, 4), [Floor, Wall, Door, Key], [Color.RED, Color.GREEN])
    agent = Agent(Position(1, 1), Orientation.R, Key(Color.RED))
    door = Door(Door.Status.CLOSED, Color.RED)
    key = Key(Color.GREEN)
    grid = Grid([[Floor(), door, Wall(), key], [door, Floor(), Floor(), door], [key, Wall(), door, Floor()]])
    state = State(grid, agent)
    for name in NAMES:
        ref = Ref(name, [Floor, Wall, Door, Key, NoneGridObject], [Color.NONE, Color.RED, Color.GREEN])
        rep = make_state_representation(name, space)
        rep2 = make_state_representation(name, space)  # second instance
        for status, color in itertools.product(Door.Status, [Color.RED, Color.GREEN, Color.NONE]):
            door.state = status
            door.color = color
            key.color = color
            agent.grid_object = Key(color) if status is Door.Status.OPEN else Door(status, color)
            for r in (rep, rep2, rep):
                out = r.convert(state)
                assert same(out['grid'], ref.grid(grid))
                assert same(out['item'], ref.encode(agent.grid_object))
        # replacing and swapping cells between calls
        grid.swap(Position(0, 0), Position(2, 3))
        grid[1, 1] = Wall()
        assert same(rep.convert(state)['grid'], ref.grid(grid))
        grid[1, 1] = Floor()
        grid.swap(Position(0, 0), Position(2, 3))


# ---------------------------------------------------------------------------
# running environments (python dictionaries fed to the yaml factory)
# ---------------------------------------------------------------------------

ENVS = [
    {
        'objects': ['Wall', 'Floor', 'Exit', 'Door', 'Key'],
        'colors': ['NONE', 'YELLOW'],
        'reset_function': {'name': 'keydoor', 'shape': [7, 9]},
        'transition_functions': [
            {'name': 'move_agent'},
            {'name': 'turn_agent'},
            {'name': 'actuate_door'},
            {'name': 'pickndrop'},
        ],
        'area': [[-4, 0], [-2, 2]],
    },
    {
        'objects': ['Wall', 'Floor', 'Exit', 'MovingObstacle'],
        'colors': ['NONE'],
        'reset_function': {
            'name': 'dynamic_obstacles',
            'shape': [6, 9],
            'num_obstacles': 4,
        },
        'transition_functions': [
            {'name': 'move_agent'},
            {'name': 'turn_agent'},
            {'name': 'move_obstacles'},
        ],
        'area': [[-2, 1], [-3, 3]],
        'observation': 'fully_transparent',
    },
    {
        'objects': ['Wall', 'Floor', 'Exit', 'Telepod'],
        'colors': ['NONE', 'RED', 'BLUE', 'GREEN'],
        'reset_function': {'name': 'teleport', 'shape': [9, 6]},
        'transition_functions': [
            {'name': 'move_agent'},
            {'name': 'turn_agent'},
            {'name': 'teleport'},
        ],
        'area': [[-6, 0], [-1, 1]],
    },
    {
        'objects': ['Wall', 'Floor', 'Exit'],
        'colors': ['NONE'],
        'reset_function': {'name': 'empty', 'shape': [4, 8], 'random_agent_pose': True},
        'transition_functions': [{'name': 'move_agent'}, {'name': 'turn_agent'}],
        'area': [[-3, 3], [-3, 3]],
        'observation': 'raytracing',
    },
]


def make_env(spec, name):
    data = {
        'state_space': {'objects': list(spec['objects']), 'colors': list(spec['colors'])},
        'observation_space': {'objects': list(spec['objects']), 'colors': list(spec['colors'])},
        'reset_function': dict(spec['reset_function']),
        'transition_functions': [dict(d) for d in spec['transition_functions']],
        'reward_functions': [{'name': 'living_reward', 'reward': -1.0}],
        'observation_function': {
            'name': spec.get('observation', 'partially_occluded'),
            'area': spec['area'],
        },
        'terminating_function': {'name': 'reach_exit'},
    }
    inner = factory_env_from_data(data)
    return OuterEnv(
        inner,
        state_representation=make_state_representation(name, inner.state_space),
        observation_representation=make_observation_representation(
            name, inner.observation_space
        ),
    )


def check_running_environments():
    from gym_gridverse.grid_object import grid_object_registry

    steps = 0
    for spec in ENVS:
        types = [grid_object_registry.from_name(n) for n in spec['objects']]
        colors = {Color[n] for n in spec['colors']} | {Color.NONE}
        for name in NAMES:
            sref = Ref(name, set(types) | {NoneGridObject}, colors)
            oref = Ref(name, set(types) | {NoneGridObject, Hidden}, colors)
            env, twin = make_env(spec, name), make_env(spec, name)
            for seed in range(6):
                env.inner_env.set_seed(seed)
                twin.inner_env.set_seed(seed)
                env.reset()
                twin.reset()
                action_rng = random.Random(seed)
                for _ in range(25):
                    state = env.inner_env.state
                    observation = env.inner_env.observation
                    shape = state.grid.shape.as_tuple
                    out = env.state
                    assert same(out['grid'], sref.grid(state.grid))
                    assert same(out['agent_id_grid'], ref_agent_id(shape, state.agent.position))
                    assert same(out['item'], sref.encode(state.agent.grid_object))
                    assert same(out['agent'], ref_agent(shape, state.agent.position, state.agent.orientation), 'f')
                    oshape = observation.grid.shape.as_tuple
                    out = env.observation
                    assert same(out['grid'], oref.grid(observation.grid))
                    assert same(out['agent_id_grid'], ref_agent_id(oshape, observation.agent.position))
                    assert same(out['item'], oref.encode(observation.agent.grid_object))
                    # same seed, second environment of the process: same numbers
                    assert reps_equal(env.state, twin.state)
                    assert reps_equal(env.observation, twin.observation)
                    assert (env.inner_env.state == twin.inner_env.state)
                    assert hash(env.inner_env.state) == hash(twin.inner_env.state)
                    action = action_rng.choice(list(Action))
                    _, done = env.step(action)
                    _, done2 = twin.step(action)
                    assert done == done2
                    steps += 1
                    if done:
                        env.reset()
                        twin.reset()
    return steps


def reshaped_observation_space(shape, types, colors):
    """observation space whose recorded shape is degenerate (the constructor
    refuses those, the attribute is public and plain)"""
    space = ObservationSpace(Shape(3, 3), types, colors)
    space.grid_shape = Shape(*shape)
    return space


def check_agent_id_corner_cases():
    """recorded behaviour of the agent marker for unusual shapes / positions"""
    types, colors = [Floor, Wall], []
    floor = Floor()

    for name in NAMES:
        # negative extents: the space is refused, with this message
        for shape in [(-1, 3), (3, -1), (-2, -5)]:
            for rep in (
                make_state_representation(name, StateSpace(Shape(*shape), types, colors)),
                make_observation_representation(name, reshaped_observation_space(shape, types, colors)),
            ):
                try:
                    rep.representations['agent_id_grid'].space
                except ValueError as error:
                    assert str(error) == f'negative height or width ({shape})', str(error)
                else:
                    raise AssertionError('expected ValueError')
        # empty extents are fine
        for shape in [(0, 3), (3, 0 + 1), (0, 1)]:
            rep = make_observation_representation(name, reshaped_observation_space(shape, types, colors))
            space = rep.representations['agent_id_grid'].space
            assert space.space_type is SpaceType.DISCRETE
            assert same(space.lower_bound, np.zeros(shape, int))
            assert same(space.upper_bound, np.ones(shape, int))
            gspace = rep.representations['grid'].space
            assert gspace.lower_bound.shape == shape + (3,)
            assert gspace.upper_bound.shape == shape + (3,)

        for shape in [(2, 3), (3, 2), (1, 5), (5, 1), (4, 7)]:
            h, w = shape
            grid = Grid([[floor] * w for _ in range(h)])
            sfield = make_state_representation(
                name, StateSpace(Shape(*shape), types, colors)
            ).representations['agent_id_grid']
            ofield = make_observation_representation(
                name, ObservationSpace(Shape(h, 2 * w + 1), types, colors)
            ).representations['agent_id_grid']  # the space shape is not used
            for make, field in ((State, sfield), (Observation, ofield)):
                # every cell, python and numpy integers
                for y, x in itertools.product(range(h), range(w)):
                    for position in (Position(y, x), Position(np.int64(y), np.int64(x))):
                        out = field.convert(make(grid, Agent(position, Orientation.L)))
                        assert same(out, ref_agent_id(shape, Position(y, x)))
                        assert out.sum() == 1 and out[y, x] == 1
                        out[...] = 5
                        again = field.convert(make(grid, Agent(position, Orientation.L)))
                        assert same(again, ref_agent_id(shape, Position(y, x)))
                # negative coordinates wrap around (numpy indexing), recorded
                for y, x in itertools.product(range(-h, 0), range(-w, 0)):
                    out = field.convert(make(grid, Agent(Position(y, x), Orientation.F)))
                    assert same(out, ref_agent_id(shape, Position(y + h, x + w)))
                # outside: IndexError, just beyond each border and corner
                for y, x in [(h, 0), (0, w), (h, w), (-h - 1, 0), (0, -w - 1), (h - 1, w), (h, w - 1)]:
                    try:
                        field.convert(make(grid, Agent(Position(y, x), Orientation.F)))
                    except IndexError:
                        pass
                    else:
                        raise AssertionError('expected IndexError')


def check_shared_helpers():
    """the module-level helpers (when available) against the reference"""
    from gym_gridverse.representations import representation as module

    names = [
        'grid_representation_space',
        'grid_representation_convert',
        'agent_id_grid_representation_space',
        'agent_id_grid_representation_convert',
    ]
    available = [hasattr(module, n) for n in names]
    assert all(available) or not any(available)
    if not any(available):
        return False

    types = [Floor, Wall, Door, Key]
    colors = [Color.RED, Color.BLUE]
    all_colors = set(colors) | {Color.NONE}
    objs = all_objects(types, all_colors, in_state=True)
    for shape in [(1, 1), (2, 3), (3, 2), (1, 5), (5, 1), (4, 7)]:
        h, w = shape
        space = StateSpace(Shape(*shape), types, colors)
        for name, cls in [
            ('default', DefaultGridObjectStateRepresentation),
            ('no-overlap', NoOverlapGridObjectStateRepresentation),
            ('compact', CompactGridObjectStateRepresentation),
        ]:
            ref = Ref(name, set(types) | {NoneGridObject}, all_colors)
            encoding = cls(space)
            for _ in range(4):
                grid = random_grid(shape, objs)
                out = module.grid_representation_convert(grid, encoding)
                assert same(out, ref.grid(grid))
            # any shape can be asked for, not only the one of the space
            for other in [(1, 1), (2, 5), (0, 2), (3, 0)]:
                gspace = module.grid_representation_space(Shape(*other), encoding.space)
                assert gspace.space_type is SpaceType.CATEGORICAL
                assert same(gspace.lower_bound, np.zeros(other + (3,), int))
                assert same(gspace.upper_bound, np.tile(ref.upper(), other + (1,)))
                assert not np.shares_memory(gspace.upper_bound, encoding.space.upper_bound)
        aspace = module.agent_id_grid_representation_space(Shape(*shape))
        assert aspace.space_type is SpaceType.DISCRETE
        assert same(aspace.lower_bound, np.zeros(shape, int))
        assert same(aspace.upper_bound, np.ones(shape, int))
        for y, x in itertools.product(range(h), range(w)):
            out = module.agent_id_grid_representation_convert(Shape(*shape), Position(y, x))
            assert same(out, ref_agent_id(shape, Position(y, x)))
    try:
        module.agent_id_grid_representation_space(Shape(2, -3))
    except ValueError as error:
        assert str(error) == 'negative height or width ((2, -3))'
    else:
        raise AssertionError('expected ValueError')
    return True



def main():
    for types in STATE_TYPE_SUBSETS:
        for colors in COLOR_SUBSETS:
            for shape in rng.sample(STATE_SHAPES, 3):
                check_state_space(types, colors, shape)
    for types in OBS_TYPE_SUBSETS:
        for colors in COLOR_SUBSETS:
            for shape in rng.sample(OBS_SHAPES, 3):
                check_observation_space(types, colors, shape)

    check_degenerate_shapes()
    check_user_defined_encodings()
    check_objects_outside_of_the_space()
    check_mutable_objects_between_calls()
    check_agent_id_corner_cases()
    helpers = check_shared_helpers()
    steps = check_running_environments()

    print(
        'ok: spaces={spaces} dict-converts={converts} pairs={pairs} '
        'object-at-cell checks={cells}'.format(**counters),
        f'env-steps={steps}',
        f'shared-helpers={"checked" if helpers else "absent"}',
    )


if __name__ == '__main__':
    main()
