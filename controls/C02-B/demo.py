"""Demo / check program for refactoring B (move_obstacles / teleport transitions).

Run as:  cd /tmp/wt3-C02 && /venv/bin/python -W ignore _seed/B/demo.py

Reference results are computed by an independent re-implementation working on
plain character matrices (`ref_move_obstacles`, `ref_teleport`, `ref_step`),
which only uses numpy generators, never the library.
"""
import copy
import hashlib
import os
import random
import subprocess
import sys

sys.path.insert(0, os.getcwd())

import numpy as np  # noqa: E402

from gym_gridverse import rng as gv_rng_module  # noqa: E402
from gym_gridverse.action import Action  # noqa: E402
from gym_gridverse.agent import Agent  # noqa: E402
from gym_gridverse.debugging import reset_gv_debug  # noqa: E402
from gym_gridverse.envs import transition_functions  # noqa: E402
from gym_gridverse.envs.yaml.factory import factory_env_from_data  # noqa: E402
from gym_gridverse.geometry import Orientation, Position  # noqa: E402
from gym_gridverse.grid import Grid  # noqa: E402
from gym_gridverse.grid_object import (  # noqa: E402
    Color,
    Exit,
    Floor,
    MovingObstacle,
    Telepod,
    Wall,
)
from gym_gridverse.state import State  # noqa: E402

# ------------------------------------------------------- char matrix <-> library

MAKERS = {
    '#': Wall,
    '.': Floor,
    'O': MovingObstacle,
    'E': Exit,
    'r': lambda: Telepod(Color.RED),
    'b': lambda: Telepod(Color.BLUE),
    'g': lambda: Telepod(Color.GREEN),
}
HEADINGS = ['FORWARD', 'RIGHT', 'BACKWARD', 'LEFT']  # clockwise: N, E, S, W
DELTAS = [(-1, 0), (0, 1), (1, 0), (0, -1)]


def to_char(obj):
    if isinstance(obj, Telepod):
        return {Color.RED: 'r', Color.BLUE: 'b', Color.GREEN: 'g'}[obj.color]
    return {
        'Wall': '#',
        'Floor': '.',
        'MovingObstacle': 'O',
        'Exit': 'E',
    }[type(obj).__name__]


def make_state(cells, agent):
    grid = Grid([[MAKERS[c]() for c in row] for row in cells])
    y, x, heading = agent
    return State(grid, Agent(Position(y, x), Orientation[HEADINGS[heading]]))


def read_state(state):
    grid = state.grid
    cells = [
        [to_char(grid[y, x]) for x in range(grid.shape.width)]
        for y in range(grid.shape.height)
    ]
    agent = (
        state.agent.position.y,
        state.agent.position.x,
        HEADINGS.index(state.agent.orientation.name),
    )
    return cells, agent


def canon(view):
    """canonical form of a State or an Observation"""
    grid = view.grid
    cells = tuple(
        tuple(
            (type(grid[y, x]).__name__, grid[y, x].color.name)
            for x in range(grid.shape.width)
        )
        for y in range(grid.shape.height)
    )
    agent = view.agent
    return (
        cells,
        (agent.position.y, agent.position.x, agent.orientation.name),
        (type(agent.grid_object).__name__, agent.grid_object.color.name),
    )


# ------------------------------------------------- independent re-implementation


def ref_move_obstacles(cells, rng):
    """in-place on the char matrix; row-major scan made before any movement"""
    h, w = len(cells), len(cells[0])
    obstacles = [(y, x) for y in range(h) for x in range(w) if cells[y][x] == 'O']
    for y, x in obstacles:
        free = []
        for dy, dx in DELTAS:  # up, right, down, left
            ny, nx = y + dy, x + dx
            if 0 <= ny < h and 0 <= nx < w and cells[ny][nx] == '.':
                free.append((ny, nx))
        if len(free) == 0:
            continue  # numpy refuses to sample from nothing; no draw happens
        ny, nx = free[int(rng.choice(len(free)))]
        cells[y][x], cells[ny][nx] = cells[ny][nx], cells[y][x]


def ref_teleport(cells, agent, rng):
    y, x, heading = agent
    here = cells[y][x]
    if here not in 'rbg':
        return agent
    h, w = len(cells), len(cells[0])
    twins = [
        (ty, tx)
        for ty in range(h)
        for tx in range(w)
        if (ty, tx) != (y, x) and cells[ty][tx] == here
    ]
    if len(twins) == 0:
        return agent
    ty, tx = twins[int(rng.choice(len(twins)))]
    return (ty, tx, heading)


MOVE_OFFSETS = {
    'MOVE_FORWARD': 0,
    'MOVE_RIGHT': 1,
    'MOVE_BACKWARD': 2,
    'MOVE_LEFT': 3,
}


def ref_step(cells, agent, action_name, rng):
    """move_agent, turn_agent, move_obstacles, teleport; reward and terminal"""
    h, w = len(cells), len(cells[0])
    y, x, heading = agent
    if action_name in MOVE_OFFSETS:
        dy, dx = DELTAS[(heading + MOVE_OFFSETS[action_name]) % 4]
        ny, nx = y + dy, x + dx
        if 0 <= ny < h and 0 <= nx < w and cells[ny][nx] != '#':
            y, x = ny, nx
    elif action_name == 'TURN_RIGHT':
        heading = (heading + 1) % 4
    elif action_name == 'TURN_LEFT':
        heading = (heading - 1) % 4
    ref_move_obstacles(cells, rng)
    agent = ref_teleport(cells, (y, x, heading), rng)
    on_exit = cells[agent[0]][agent[1]] == 'E'
    reward = sum([5.0 if on_exit else 0.0, -0.05])
    return agent, reward, on_exit


# ------------------------------------------------------------- global rng guards


def global_snapshot():
    lib = gv_rng_module.get_gv_rng()
    return (
        id(lib),
        repr(lib.bit_generator.state),
        repr(np.random.get_state()),
    )


def rng_state(rng):
    return repr(rng.bit_generator.state)


# ---------------------------------------------------------------- random grids


def random_cells(r, h, w, alphabet, weights, border):
    cells = [r.choices(alphabet, weights, k=w) for _ in range(h)]
    if border:
        for y in range(h):
            for x in range(w):
                if y in (0, h - 1) or x in (0, w - 1):
                    cells[y][x] = '#'
    return cells


def check_move_obstacles():
    r = random.Random(20240501)
    n = n_moved = n_stuck = 0
    move_obstacles = transition_functions.transition_function_registry['move_obstacles']
    assert move_obstacles is transition_functions.move_obstacles
    for case in range(3000):
        h, w = r.randint(1, 7), r.randint(1, 7)
        density = r.choice([0.1, 0.3, 0.6, 0.9])
        cells = random_cells(
            r,
            h,
            w,
            '.O#Er',
            [1 - density, density, 0.25, 0.05, 0.05],
            border=r.random() < 0.4,
        )
        agent = (r.randrange(h), r.randrange(w), r.randrange(4))
        seed = r.randrange(2**32)
        action = r.choice(list(Action))

        state = make_state(cells, agent)
        objects_before = sorted(
            id(state.grid[y, x]) for y in range(h) for x in range(w)
        )
        expected = copy.deepcopy(cells)
        rng_lib, rng_ref = np.random.default_rng(seed), np.random.default_rng(seed)
        snap = global_snapshot()
        result = move_obstacles(state, action, rng=rng_lib)
        assert global_snapshot() == snap, 'global generator touched'
        ref_move_obstacles(expected, rng_ref)

        assert result is None
        got, got_agent = read_state(state)
        assert got == expected, (case, cells, got, expected)
        assert got_agent == agent
        assert rng_state(rng_lib) == rng_state(rng_ref), (case, 'draw count')
        # objects are moved (swapped), never copied or re-created
        assert objects_before == sorted(
            id(state.grid[y, x]) for y in range(h) for x in range(w)
        )
        n += 1
        n_moved += got != cells
        n_stuck += got == cells and any('O' in row for row in cells)
    assert n_moved > 1000 and n_stuck > 100, (n_moved, n_stuck)

    # without an explicit generator the library-level one is used, identically
    for seed in range(20):
        cells = random_cells(r, 6, 6, '.O#', [0.6, 0.3, 0.1], border=True)
        state = make_state(cells, (1, 1, 0))
        expected = copy.deepcopy(cells)
        lib = gv_rng_module.reset_gv_rng(seed)
        rng_ref = np.random.default_rng(seed)
        move_obstacles(state, Action.MOVE_FORWARD)
        ref_move_obstacles(expected, rng_ref)
        assert read_state(state)[0] == expected
        assert gv_rng_module.get_gv_rng() is lib
        assert rng_state(lib) == rng_state(rng_ref)
    return n, n_moved, n_stuck


def check_teleport():
    r = random.Random(77)
    n = n_jump = n_alone = 0
    teleport = transition_functions.transition_function_registry['teleport']
    assert teleport is transition_functions.teleport
    for case in range(3000):
        h, w = r.randint(1, 6), r.randint(1, 6)
        cells = random_cells(
            r,
            h,
            w,
            '.#rbgOE',
            [0.5, 0.1, r.choice([0.05, 0.3]), 0.1, 0.05, 0.05, 0.05],
            border=False,
        )
        agent = (r.randrange(h), r.randrange(w), r.randrange(4))
        if r.random() < 0.5:  # make "agent stands on a telepod" frequent
            cells[agent[0]][agent[1]] = r.choice('rbg')
        seed = r.randrange(2**32)
        action = r.choice(list(Action))

        state = make_state(cells, agent)
        rng_lib, rng_ref = np.random.default_rng(seed), np.random.default_rng(seed)
        snap = global_snapshot()
        result = teleport(state, action, rng=rng_lib)
        assert global_snapshot() == snap, 'global generator touched'
        expected_agent = ref_teleport(cells, agent, rng_ref)

        assert result is None
        got, got_agent = read_state(state)
        assert got == cells, 'teleport must not change the grid'
        assert got_agent == expected_agent, (case, cells, agent, got_agent)
        assert rng_state(rng_lib) == rng_state(rng_ref), (case, 'draw count')
        n += 1
        n_jump += got_agent != agent
        n_alone += got_agent == agent and cells[agent[0]][agent[1]] in 'rbg'
    assert n_jump > 300 and n_alone > 100, (n_jump, n_alone)

    for seed in range(20):
        cells = [list('r..r'), list('.r..'), list('...r')]
        state = make_state(cells, (0, 0, 1))
        lib = gv_rng_module.reset_gv_rng(seed)
        rng_ref = np.random.default_rng(seed)
        teleport(state, Action.TURN_LEFT)
        assert read_state(state)[1] == ref_teleport(cells, (0, 0, 1), rng_ref)
        assert gv_rng_module.get_gv_rng() is lib
        assert rng_state(lib) == rng_state(rng_ref)
    return n, n_jump, n_alone


# ---------------------------------------------------------------- environments

ACTIONS = [
    'MOVE_FORWARD',
    'MOVE_BACKWARD',
    'MOVE_LEFT',
    'MOVE_RIGHT',
    'TURN_LEFT',
    'TURN_RIGHT',
]
OBJECTS = ['Wall', 'Floor', 'Exit', 'MovingObstacle', 'Telepod']
COLORS = ['NONE', 'RED', 'GREEN', 'BLUE']


def base_config(reset_function, transitions, observation='partially_occluded'):
    return {
        'state_space': {'objects': OBJECTS, 'colors': COLORS},
        'observation_space': {'objects': OBJECTS, 'colors': COLORS},
        'action_space': list(ACTIONS),
        'reset_function': reset_function,
        'transition_functions': [{'name': name} for name in transitions],
        'reward_functions': [
            {'name': 'reach_exit', 'reward_on': 5.0, 'reward_off': 0.0},
            {'name': 'living_reward', 'reward': -0.05},
        ],
        'observation_function': {'name': observation, 'area': [[-6, 0], [-3, 3]]},
        'terminating_function': {'name': 'reach_exit'},
    }


def obstacles_config(size, num, random_agent=False, observation='partially_occluded'):
    return base_config(
        {
            'name': 'dynamic_obstacles',
            'shape': [size, size],
            'num_obstacles': num,
            'random_agent': random_agent,
        },
        ['move_agent', 'turn_agent', 'move_obstacles'],
        observation,
    )


def teleport_config(size, observation='partially_occluded'):
    return base_config(
        {'name': 'teleport', 'shape': [size, size]},
        ['move_agent', 'turn_agent', 'teleport'],
        observation,
    )


def mixed_config(h, w):
    return base_config(
        {'name': 'dynamic_obstacles', 'shape': [h, w], 'num_obstacles': 1},
        ['move_agent', 'turn_agent', 'move_obstacles', 'teleport'],
    )


def configs():
    return {
        'dynamic_obstacles_5': obstacles_config(5, 1),
        'dynamic_obstacles_7': obstacles_config(7, 2),
        'dynamic_obstacles_7_full': obstacles_config(7, 23),
        'dynamic_obstacles_9_random_stochastic': obstacles_config(
            9, 12, True, 'stochastic_raytracing'
        ),
        'teleport_5': teleport_config(5),
        'teleport_7': teleport_config(7),
        'teleport_7_stochastic': teleport_config(7, 'stochastic_raytracing'),
    }


def make_env(data):
    return factory_env_from_data(copy.deepcopy(data))  # factory pops keys


def check_functional_steps():
    """seeded GridWorld.functional_step against the reference, hand-made states"""
    r = random.Random(99)
    n_steps = 0
    for h, w in [(4, 4), (5, 7), (7, 5), (6, 6)]:
        env = make_env(mixed_config(h, w))
        for case in range(40):
            cells = random_cells(
                r, h, w, '.O#Erb', [0.5, 0.2, 0.05, 0.03, 0.15, 0.07], border=True
            )
            cells[1][1] = '.'
            agent = (1, 1, r.randrange(4))
            seed = r.randrange(2**32)
            for debug in (True, False):
                reset_gv_debug(debug)
                env.set_seed(seed)
                rng_ref = np.random.default_rng(seed)
                ref_cells, ref_agent = copy.deepcopy(cells), agent
                state = make_state(cells, agent)
                action_rng = random.Random(seed)
                snap = global_snapshot()
                for _ in range(25):
                    name = action_rng.choice(ACTIONS)
                    before = read_state(state)
                    next_state, reward, terminal = env.functional_step(
                        state, Action[name]
                    )
                    assert read_state(state) == before, 'input state mutated'
                    assert next_state is not state
                    ref_agent, ref_reward, ref_terminal = ref_step(
                        ref_cells, ref_agent, name, rng_ref
                    )
                    assert read_state(next_state) == (ref_cells, ref_agent), (
                        h,
                        w,
                        case,
                        name,
                    )
                    assert reward == ref_reward and terminal == ref_terminal
                    state = next_state
                    n_steps += 1
                assert global_snapshot() == snap, 'global generator touched'
            reset_gv_debug(True)
    return n_steps


def actions_for(env, seed, n):
    r = random.Random(seed * 7919 + 1)
    return [r.choice(env.action_space.actions) for _ in range(n)]


class Runner:
    """steps one environment, recording a trace; resets at episode end"""

    def __init__(self, env, seed, actions):
        self.env, self.actions, self.t = env, actions, 0
        env.set_seed(seed)
        env.reset()
        self.trace = [(canon(env.state), canon(env.observation))]

    def done(self):
        return self.t >= len(self.actions)

    def advance(self):
        reward, terminal = self.env.step(self.actions[self.t])
        self.t += 1
        self.trace.append(
            (canon(self.env.state), canon(self.env.observation), reward, terminal)
        )
        if terminal:
            self.env.reset()
            self.trace.append((canon(self.env.state), canon(self.env.observation)))


def run_alone(data, seed, n):
    env = make_env(data)
    runner = Runner(env, seed, actions_for(env, seed, n))
    while not runner.done():
        runner.advance()
    return runner.trace


def check_environments():
    all_traces = {}
    n = 80
    for name, data in configs().items():
        for seed in (0, 1, 42):
            reset_gv_debug(True)
            reference = run_alone(data, seed, n)
            reset_gv_debug(False)
            assert run_alone(data, seed, n) == reference, (name, seed, 'debug')
            reset_gv_debug(True)

            envs = [make_env(data) for _ in range(4)]
            snap = global_snapshot()
            runners = [
                Runner(envs[0], seed, actions_for(envs[0], seed, n)),
                Runner(envs[1], seed + 1000, actions_for(envs[1], seed + 5, n)),
                Runner(envs[2], seed, actions_for(envs[2], seed, n)),
                Runner(envs[3], seed + 2000, actions_for(envs[3], seed + 9, n)),
            ]
            scheduler = random.Random(seed)
            while not all(runner.done() for runner in runners):
                live = [runner for runner in runners if not runner.done()]
                runner = live[scheduler.randrange(len(live))]
                python_state = random.getstate()
                runner.advance()
                assert random.getstate() == python_state
            assert runners[0].trace == reference, (name, seed, 'interleaved 0')
            assert runners[2].trace == reference, (name, seed, 'interleaved 2')
            assert global_snapshot() == snap, (name, seed, 'global rng perturbed')
            all_traces[f'{name}/{seed}'] = reference
    return all_traces


def digest(traces):
    return hashlib.sha256(repr(sorted(traces.items())).encode()).hexdigest()


def check_across_processes(own_digest):
    for hashseed in ('0', '1', 'random'):
        env = dict(os.environ, PYTHONHASHSEED=hashseed)
        out = subprocess.run(
            [sys.executable, '-W', 'ignore', os.path.abspath(__file__), '--digest'],
            env=env,
            cwd=os.getcwd(),
            stdout=subprocess.PIPE,
            stderr=subprocess.DEVNULL,
            check=True,
        ).stdout.decode().strip().splitlines()[-1]
        assert out == own_digest, f'PYTHONHASHSEED={hashseed}: trace differs'


def main():
    if '--digest' in sys.argv:
        print(digest(check_environments()))
        return

    print('move_obstacles (cases, moved, stuck):', check_move_obstacles())
    print('teleport (cases, jumped, no twin):', check_teleport())
    print('functional steps against reference:', check_functional_steps())
    traces = check_environments()
    print('environment traces:', len(traces))
    check_across_processes(digest(traces))
    print('B: all checks passed')


if __name__ == '__main__':
    main()
