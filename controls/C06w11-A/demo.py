"""Demo for change A (Grid.subgrid builds rows by slicing + padding).

Runs from the worktree root:  /venv/bin/python _seed/A/demo.py
Exits 0 on the pristine tree and with the patch applied.

Part 1 compares Grid.subgrid with a reference implementation embedded here
(cell by cell, identity of the in-grid objects, freshness of the Hidden cells,
no aliasing of the rows) on all areas around small grids.

Part 2 checks property C06 (hidden cells carry no information, occlusion is
monotone) through the public observation / visibility functions.
"""
import itertools as itt
import os
import sys
import warnings

# the worktree root (cwd) provides the package under test
sys.path.insert(0, os.getcwd())

import numpy as np
import numpy.random as rnd

from gym_gridverse.agent import Agent
from gym_gridverse.envs import observation_functions as ofs
from gym_gridverse.envs import visibility_functions as vfs
from gym_gridverse.geometry import Area, Orientation, Position
from gym_gridverse.grid import Grid
from gym_gridverse.grid_object import (
    Color,
    Door,
    Exit,
    Floor,
    Hidden,
    Key,
    MovingObstacle,
    Wall,
)
from gym_gridverse.state import State
from gym_gridverse.utils.raytracing import cached_compute_rays_fancy

CHECKS = 0


def check(condition, message):
    global CHECKS
    CHECKS += 1
    if not condition:
        print('FAIL:', message)
        sys.exit(1)


# ---------------------------------------------------------------------------
# helpers
# ---------------------------------------------------------------------------

FACTORIES = [
    Floor,
    Wall,
    lambda: Exit(Color.NONE),
    lambda: Key(Color.NONE),
    lambda: Key(Color.RED),
    lambda: Door(Door.Status.OPEN, Color.BLUE),
    lambda: Door(Door.Status.CLOSED, Color.NONE),
    lambda: Door(Door.Status.LOCKED, Color.YELLOW),
    MovingObstacle,
]


def random_grid(height, width, rng, p_floor=0.5):
    objects = []
    for _ in range(height):
        row = []
        for _ in range(width):
            if rng.random() < p_floor:
                row.append(Floor())
            else:
                row.append(FACTORIES[rng.integers(len(FACTORIES))]())
        objects.append(row)
    return Grid(objects)


def rotate(orientation, y, x):
    """reference rotation of a relative (y, x) offset into the world frame"""
    if orientation is Orientation.F:
        return y, x
    if orientation is Orientation.B:
        return -y, -x
    if orientation is Orientation.R:
        return x, -y
    if orientation is Orientation.L:
        return -x, y
    raise AssertionError


def view_to_world(agent_yx, orientation, area):
    """dict: view cell (oy, ox) -> world cell (wy, wx), reference mapping"""
    mapping = {}
    for oy in range(area.height):
        for ox in range(area.width):
            ry, rx = rotate(orientation, oy + area.ymin, ox + area.xmin)
            mapping[oy, ox] = (agent_yx[0] + ry, agent_yx[1] + rx)
    return mapping


# ---------------------------------------------------------------------------
# part 1:  Grid.subgrid against an embedded reference
# ---------------------------------------------------------------------------


def reference_subgrid_cells(grid, area):
    """rows of either the very object of the grid or None (meaning Hidden)"""
    height, width = len(grid.objects), len(grid.objects[0])
    return [
        [
            grid.objects[y][x] if 0 <= y < height and 0 <= x < width else None
            for x in range(area.xs[0], area.xs[1] + 1)
        ]
        for y in range(area.ys[0], area.ys[1] + 1)
    ]


def check_subgrid(grid, area):
    before = [list(row) for row in grid.objects]
    sub = grid.subgrid(area)
    expected = reference_subgrid_cells(grid, area)

    check(type(sub) is Grid, 'subgrid returns a Grid')
    check(
        sub.shape.as_tuple == (area.height, area.width),
        f'subgrid shape {sub.shape} for {area}',
    )
    check(type(sub.objects) is list, 'rows container is a list')
    check(len(sub.objects) == area.height, f'number of rows for {area}')

    hidden_ids = set()
    for row, expected_row in zip(sub.objects, expected):
        check(type(row) is list, 'each row is a list')
        check(len(row) == area.width, f'row length for {area}')
        for obj, expected_obj in zip(row, expected_row):
            if expected_obj is None:
                check(type(obj) is Hidden, f'outside cell is Hidden, {area}')
                check(id(obj) not in hidden_ids, 'one Hidden instance per cell')
                hidden_ids.add(id(obj))
            else:
                check(obj is expected_obj, f'inside cell is the object, {area}')

    # no row of the subgrid aliases a row of the grid, nor another row
    for i, row in enumerate(sub.objects):
        check(all(row is not r for r in grid.objects), 'rows are not aliased')
        check(
            all(row is not r for r in sub.objects[:i]),
            'rows are pairwise distinct lists',
        )

    # writing into the subgrid never writes into the grid
    for y in range(area.height):
        for x in range(area.width):
            sub[Position(y, x)] = Wall()
    check(
        all(
            a is b
            for row_a, row_b in zip(grid.objects, before)
            for a, b in zip(row_a, row_b)
        )
        and [len(r) for r in grid.objects] == [len(r) for r in before],
        'the grid is untouched by writes into the subgrid',
    )


def part1():
    rng = rnd.default_rng(11)
    for height, width in [(1, 1), (1, 4), (4, 1), (2, 3), (3, 2), (3, 5)]:
        grid = random_grid(height, width, rng)
        lo_y, hi_y = -3, height + 2
        lo_x, hi_x = -3, width + 2
        for y0, y1 in itt.combinations_with_replacement(range(lo_y, hi_y + 1), 2):
            for x0, x1 in itt.combinations_with_replacement(
                range(lo_x, hi_x + 1), 2
            ):
                check_subgrid(grid, Area((y0, y1), (x0, x1)))

    # far away and huge areas
    grid = random_grid(3, 4, rng)
    for area in [
        Area((-1000, -990), (-5, 5)),
        Area((990, 1000), (-5, 5)),
        Area((-2, 5), (-1000, -995)),
        Area((-2, 5), (995, 1000)),
        Area((-40, 40), (-30, 50)),
        Area((1, 1), (-50, 50)),
        Area((-50, 50), (2, 2)),
        grid.area,
    ]:
        check_subgrid(grid, area)

    # numpy integers as area bounds (as produced by some callers)
    check_subgrid(
        grid, Area((np.int64(-1), np.int64(2)), (np.int64(1), np.int64(6)))
    )

    # hard-coded expectation
    W, F, K = Wall(), Floor(), Key(Color.GREEN)
    grid = Grid([[W, F, K], [F, K, W]])
    sub = grid.subgrid(Area((-1, 1), (1, 3)))
    expected = Grid(
        [
            [Hidden(), Hidden(), Hidden()],
            [Floor(), Key(Color.GREEN), Hidden()],
            [Key(Color.GREEN), Wall(), Hidden()],
        ]
    )
    check(sub == expected, 'hard-coded subgrid')
    check(hash(sub) == hash(expected), 'hard-coded subgrid hash')

    # repeated calls give equal, independent results
    a = grid.subgrid(Area((-1, 2), (-1, 3)))
    b = grid.subgrid(Area((-1, 2), (-1, 3)))
    check(a == b and a is not b, 'repeated calls agree')
    check(
        all(ra is not rb for ra in a.objects for rb in b.objects),
        'repeated calls do not share rows',
    )


# ---------------------------------------------------------------------------
# part 2:  property C06
# ---------------------------------------------------------------------------

OBSERVATION_FUNCTIONS = {
    'partially_occluded': ofs.partially_occluded,
    'raytracing': ofs.raytracing,
}

REPLACEMENTS = [
    Floor,
    Wall,
    lambda: Key(Color.NONE),
    lambda: Door(Door.Status.OPEN, Color.RED),
    lambda: Door(Door.Status.CLOSED, Color.GREEN),
]

# areas with the agent on the bottom row (valid for both functions)
AREAS_BOTTOM = [
    Area((-3, 0), (-2, 2)),
    Area((-4, 0), (-1, 3)),  # asymmetric
    Area((-2, 0), (-3, 0)),  # agent in the bottom-right corner of the view
    Area((-2, 0), (0, 2)),  # agent in the bottom-left corner of the view
    Area((-3, 0), (0, 0)),  # single column
    Area((0, 0), (-2, 2)),  # single row
    Area((0, 0), (0, 0)),  # single cell
]
# areas for raytracing only
AREAS_ANY = [
    Area((-2, 1), (-1, 3)),
    Area((-1, 2), (-2, 1)),
    Area((0, 3), (-1, 1)),
]


def expected_observation_cells(state, area, visibility_function):
    """reference observation, as rows of objects or None (meaning Hidden)"""
    grid = state.grid
    height, width = len(grid.objects), len(grid.objects[0])
    agent_yx = state.agent.position.yx
    mapping = view_to_world(agent_yx, state.agent.orientation, area)

    rows = []
    for oy in range(area.height):
        row = []
        for ox in range(area.width):
            wy, wx = mapping[oy, ox]
            inside = 0 <= wy < height and 0 <= wx < width
            row.append(grid.objects[wy][wx] if inside else Hidden())
        rows.append(row)

    visibility = visibility_function(
        Grid([list(row) for row in rows]), Position(-area.ymin, -area.xmin)
    )
    return [
        [obj if visibility[oy, ox] else Hidden() for ox, obj in enumerate(row)]
        for oy, row in enumerate(rows)
    ]


def check_noninterference(state, area, name):
    observation_function = OBSERVATION_FUNCTIONS[name]
    grid = state.grid
    height, width = grid.shape.as_tuple
    observation = observation_function(state, area=area)

    check(
        observation.grid.shape.as_tuple == (area.height, area.width),
        'observation shape',
    )
    check(
        observation.agent.position == Position(-area.ymin, -area.xmin)
        and observation.agent.orientation is Orientation.F,
        'observation agent',
    )

    # equality with the reference construction
    expected = expected_observation_cells(
        state, area, vfs.visibility_function_registry[name]
    )
    check(
        observation.grid == Grid(expected),
        f'{name}: observation equals reference, {state.agent}, {area}',
    )

    # the agent cell is always shown
    agent_cell = observation.grid[observation.agent.position]
    world_cell = grid[state.agent.position]
    check(agent_cell is world_cell, f'{name}: agent cell is shown')

    # the observation never shares mutable structure with the state
    check(
        all(
            orow is not srow
            for orow in observation.grid.objects
            for srow in grid.objects
        ),
        'observation rows are not state rows',
    )

    # world cells in view and shown
    mapping = view_to_world(
        state.agent.position.yx, state.agent.orientation, area
    )
    shown = set()
    for (oy, ox), (wy, wx) in mapping.items():
        if 0 <= wy < height and 0 <= wx < width:
            if type(observation.grid[oy, ox]) is not Hidden:
                shown.add((wy, wx))

    # replacing any other world cell leaves the observation unchanged
    for wy in range(height):
        for wx in range(width):
            if (wy, wx) in shown:
                continue
            original = grid.objects[wy][wx]
            for factory in REPLACEMENTS:
                grid.objects[wy][wx] = factory()
                again = observation_function(state, area=area)
                check(
                    again.grid == observation.grid
                    and again.agent == observation.agent,
                    f'{name}: replacing hidden/out-of-view cell {(wy, wx)} '
                    f'changed the observation; {state.agent}, {area}',
                )
            grid.objects[wy][wx] = original

    # the state was not modified by observing
    again = observation_function(state, area=area)
    check(again == observation, f'{name}: repeated observation is equal')


def lit_counts(grid, position):
    rays = cached_compute_rays_fancy(position, grid.area)
    num = np.zeros(grid.shape.as_tuple, dtype=int)
    den = np.zeros(grid.shape.as_tuple, dtype=int)
    for ray in rays:
        light = True
        for pos in ray:
            num[pos.y, pos.x] += int(light)
            den[pos.y, pos.x] += 1
            light = light and not grid[pos].blocks_vision
    return num, den


def check_chain(grid, position, visibility, name):
    """every visible cell is the agent cell or adjacent (8-neighbourhood) to a
    transparent visible cell which is itself linked to the agent"""
    height, width = grid.shape.as_tuple
    check(bool(visibility[position.y, position.x]), f'{name}: own cell visible')

    linked = {position.yx}
    frontier = [position.yx]
    while frontier:
        y, x = frontier.pop()
        # only transparent cells extend the chain (the agent cell included)
        if grid[y, x].blocks_vision:
            continue
        for dy, dx in itt.product([-1, 0, 1], repeat=2):
            ny, nx = y + dy, x + dx
            if (
                0 <= ny < height
                and 0 <= nx < width
                and visibility[ny, nx]
                and (ny, nx) not in linked
            ):
                linked.add((ny, nx))
                frontier.append((ny, nx))

    visible = {(y, x) for y, x in zip(*np.nonzero(visibility))}
    check(visible <= linked, f'{name}: visible cells are linked to the agent')


def check_monotone(grid, position, function, name):
    visibility = function(grid, position)
    for y, x in zip(*np.nonzero(visibility)):
        y, x = int(y), int(x)
        if not grid[y, x].blocks_vision:
            continue
        original = grid.objects[y][x]
        grid.objects[y][x] = Floor()
        more = function(grid, position)
        grid.objects[y][x] = original
        check(
            bool(np.all(more[visibility])),
            f'{name}: opening {(y, x)} hid a visible cell',
        )


def opacity_grid(height, width, bits):
    return Grid(
        [
            [Wall() if bits[y * width + x] else Floor() for x in range(width)]
            for y in range(height)
        ]
    )


def part2():
    rng = rnd.default_rng(6)

    # --- non-interference on random states, all headings, border agents ---
    for height, width in [(4, 6), (5, 3)]:
        positions = [
            Position(0, 0),
            Position(0, width - 1),
            Position(height - 1, 0),
            Position(height - 1, width - 1),
            Position(height // 2, width // 2),
            Position(0, width // 2),
        ]
        for position in positions:
            grid = random_grid(height, width, rng, p_floor=0.6)
            for orientation in Orientation:
                state = State(grid, Agent(position, orientation))
                for area in AREAS_BOTTOM:
                    check_noninterference(state, area, 'partially_occluded')
                    check_noninterference(state, area, 'raytracing')
                for area in AREAS_ANY:
                    check_noninterference(state, area, 'raytracing')

    # --- views larger than the world, world of a single cell ---
    for grid in [Grid([[Floor()]]), Grid([[Wall()]]), random_grid(1, 3, rng)]:
        for orientation in Orientation:
            state = State(grid, Agent(Position(0, 0), orientation))
            for area in AREAS_BOTTOM[:3]:
                check_noninterference(state, area, 'partially_occluded')
                check_noninterference(state, area, 'raytracing')

    # --- exhaustive opacity patterns of small views ---
    functions = {
        'partially_occluded': vfs.partially_occluded,
        'raytracing': vfs.raytracing,
    }
    for height, width, position in [
        (3, 3, Position(2, 1)),
        (3, 3, Position(2, 0)),
        (3, 3, Position(2, 2)),
        (2, 4, Position(1, 1)),
        (4, 2, Position(3, 1)),
        (1, 4, Position(0, 2)),
    ]:
        for bits in itt.product([0, 1], repeat=height * width):
            grid = opacity_grid(height, width, bits)
            for name, function in functions.items():
                visibility = function(grid, position)
                check(
                    visibility.shape == (height, width)
                    and visibility.dtype == bool,
                    'visibility array',
                )
                check_chain(grid, position, visibility, name)
                check_monotone(grid, position, function, name)

    # raytracing with the agent not on the bottom row
    for bits in itt.product([0, 1], repeat=9):
        grid = opacity_grid(3, 3, bits)
        for position in [Position(1, 1), Position(0, 0), Position(1, 2)]:
            visibility = vfs.raytracing(grid, position)
            check_chain(grid, position, visibility, 'raytracing')
            check_monotone(grid, position, vfs.raytracing, 'raytracing')

    # --- random larger views ---
    for _ in range(30):
        height, width = int(rng.integers(2, 6)), int(rng.integers(2, 7))
        grid = random_grid(height, width, rng, p_floor=0.7)
        position = Position(height - 1, int(rng.integers(width)))
        for name, function in functions.items():
            visibility = function(grid, position)
            check_chain(grid, position, visibility, name)
            check_monotone(grid, position, function, name)

    # --- stochastic variant:  bounds only ---
    for _ in range(12):
        height, width = int(rng.integers(1, 6)), int(rng.integers(1, 6))
        grid = random_grid(height, width, rng, p_floor=0.7)
        position = Position(
            int(rng.integers(height)), int(rng.integers(width))
        )
        upper = vfs.raytracing(grid, position)
        num, den = lit_counts(grid, position)
        lower = (num == den) & (den > 0)
        for seed in range(8):
            with warnings.catch_warnings():
                warnings.simplefilter('ignore')
                with np.errstate(all='ignore'):
                    sample = vfs.stochastic_raytracing(
                        grid, position, rng=rnd.default_rng(seed)
                    )
            check(bool(np.all(upper[sample])), 'stochastic within raytracing')
            check(bool(np.all(sample[lower])), 'stochastic shows fully lit')

    # through the observation function, with the world border in view
    grid = random_grid(4, 5, rng, p_floor=0.7)
    for orientation in Orientation:
        state = State(grid, Agent(Position(0, 4), orientation))
        area = Area((-3, 0), (-2, 2))
        deterministic = ofs.raytracing(state, area=area)
        for seed in range(6):
            with warnings.catch_warnings():
                warnings.simplefilter('ignore')
                with np.errstate(all='ignore'):
                    stochastic = ofs.stochastic_raytracing(
                        state, area=area, rng=rnd.default_rng(seed)
                    )
            for pos in stochastic.grid.area.positions():
                if type(stochastic.grid[pos]) is not Hidden:
                    check(
                        stochastic.grid[pos] is deterministic.grid[pos],
                        'stochastic observation shows only what raytracing shows',
                    )

    # --- hard-coded expectations (worked out by hand) ---
    W, F, H = Wall, Floor, Hidden
    grid = Grid(
        [
            [F(), F(), W(), F(), F()],
            [F(), W(), W(), F(), Key(Color.RED)],
            [F(), F(), F(), W(), F()],
        ]
    )
    state = State(grid, Agent(Position(2, 2), Orientation.F))
    observation = ofs.partially_occluded(state, area=Area((-2, 0), (-1, 1)))
    expected = Grid(
        [
            [H(), H(), F()],
            [W(), W(), F()],
            [F(), F(), W()],
        ]
    )
    check(observation.grid == expected, 'hard-coded partially_occluded, F')

    state = State(grid, Agent(Position(2, 4), Orientation.L))
    observation = ofs.partially_occluded(state, area=Area((-2, 0), (-1, 1)))
    # facing west from the bottom-right corner:  view rows are world columns
    # 2, 3, 4 and view columns are world rows 3 (outside), 2, 1
    expected = Grid(
        [
            [H(), H(), W()],
            [H(), W(), F()],
            [H(), F(), Key(Color.RED)],
        ]
    )
    check(observation.grid == expected, 'hard-coded partially_occluded, L')
    check(
        observation.agent == Agent(Position(2, 1), Orientation.F),
        'hard-coded observation agent',
    )


if __name__ == '__main__':
    part1()
    part2()
    print(f'ok ({CHECKS} checks)')
