"""Demo for change B (C17): `rng.integer` helper used by the reset functions.

Runs on the pristine tree and on the patched tree; exits 0 on both.

* every reset function that draws integers (`keydoor`, `rooms`, `crossing`,
  `memory_rooms`) is called -- directly, through `reset_functions.factory`
  and through a built YAML configuration -- for many shapes (non-square,
  smallest legal), layouts and seeds; the resulting states are compared with
  fingerprints recorded on the pristine tree (EXPECTED below) and with a
  reference re-implementation of the draws embedded here (`keydoor`, `rooms`),
  which also checks that the generator ends in the same state, i.e. that the
  same number of draws were made with the same bounds;
* illegal parameters raise the same exceptions as before;
* the module-level generator, re-seeding and several environments in one
  process are covered;
* if `gym_gridverse.rng.integer` exists it is compared with `Generator.integers`.
"""
import copy
import glob
import hashlib
import os
import re
import sys
import warnings

warnings.filterwarnings('ignore')

ROOT = os.path.dirname(
    os.path.dirname(os.path.dirname(os.path.abspath(__file__)))
)
sys.path.insert(0, ROOT)

import numpy as np  # noqa: E402

import gym_gridverse.rng as gv_rng  # noqa: E402
from gym_gridverse.action import Action  # noqa: E402
from gym_gridverse.envs import reset_functions as reset_fs  # noqa: E402
from gym_gridverse.envs.yaml.factory import (  # noqa: E402
    factory_env_from_data,
    factory_reset_function,
)
from gym_gridverse.geometry import Orientation, Position, Shape  # noqa: E402
from gym_gridverse.grid_object import (  # noqa: E402
    Color,
    Door,
    Exit,
    Floor,
    Key,
    Wall,
)
from gym_gridverse.rng import make_rng  # noqa: E402

failures = []


def check(condition, message):
    if not condition:
        failures.append(message)


def fingerprint(state):
    grid = state.grid
    cells = [
        (type(grid[y, x]).__name__, int(grid[y, x].state_index), grid[y, x].color.name)
        for y in range(grid.shape.height)
        for x in range(grid.shape.width)
    ]
    agent = (
        int(state.agent.position.y),
        int(state.agent.position.x),
        state.agent.orientation.name,
        type(state.agent.grid_object).__name__,
    )
    text = repr((grid.shape.height, grid.shape.width, cells, agent))
    return hashlib.sha1(text.encode()).hexdigest()[:12]


def generator_state(rng):
    return repr(rng.bit_generator.state)


SEEDS = [0, 1, 2, 3, 5, 8, 13, 21, 34, 2**31 - 1]

COLORS4 = {Color.RED, Color.GREEN, Color.BLUE, Color.YELLOW}

# name -> list of keyword arguments
SCENARIOS = {
    'keydoor': [
        {'shape': Shape(h, w)}
        for h, w in [(4, 6), (4, 5), (5, 5), (4, 9), (9, 5), (7, 7), (6, 11), (12, 6)]
    ],
    'rooms': [
        {'shape': Shape(h, w), 'layout': layout}
        for h, w, layout in [
            (3, 4, (1, 1)),
            (4, 3, (1, 1)),
            (5, 5, (2, 2)),
            (5, 9, (2, 4)),
            (9, 5, (4, 2)),
            (7, 7, (2, 2)),
            (7, 10, (1, 3)),
            (10, 7, (3, 1)),
            (13, 13, (3, 3)),
            (8, 15, (2, 5)),
        ]
    ],
    'crossing': [
        {'shape': Shape(h, w), 'num_rivers': n, 'object_type': Wall}
        for h, w, n in [(5, 5, 1), (7, 7, 1), (7, 7, 2), (5, 9, 2), (9, 5, 2), (9, 11, 4), (11, 9, 5), (5, 13, 1), (13, 5, 1), (5, 5, 2), (5, 5, 9)]
    ],
    'memory_rooms': [
        {'shape': Shape(h, w), 'layout': layout, 'colors': colors, 'num_beacons': b, 'num_exits': e}
        for h, w, layout, colors, b, e in [
            (7, 7, (2, 2), COLORS4, 1, 2),
            (5, 9, (2, 4), COLORS4, 1, 2),
            (9, 5, (4, 2), {Color.RED, Color.BLUE}, 1, 2),
            (13, 13, (3, 3), COLORS4, 2, 4),
            (10, 7, (3, 1), COLORS4, 3, 2),
            (4, 6, (1, 1), {Color.RED, Color.GREEN}, 1, 2),
        ]
    ],
}

# recorded on the pristine tree with `demo.py --record`
EXPECTED = {
    'crossing(shape=(11, 9), num_rivers=5, object_type=Wall)#0': ['c0e90867df8b', 1081530687],
    'crossing(shape=(11, 9), num_rivers=5, object_type=Wall)#1': ['fcacc8f4e06f', 1382612245],
    'crossing(shape=(11, 9), num_rivers=5, object_type=Wall)#13': ['d56a8cc2de34', 2032519786],
    'crossing(shape=(11, 9), num_rivers=5, object_type=Wall)#2': ['29e21473f3bf', 1198780982],
    'crossing(shape=(11, 9), num_rivers=5, object_type=Wall)#21': ['38a688f08016', 2032373415],
    'crossing(shape=(11, 9), num_rivers=5, object_type=Wall)#2147483647': ['dbd7983c0118', 246495854],
    'crossing(shape=(11, 9), num_rivers=5, object_type=Wall)#3': ['24a304dfda0c', 1577492420],
    'crossing(shape=(11, 9), num_rivers=5, object_type=Wall)#34': ['e16c3609b9cf', 1378098577],
    'crossing(shape=(11, 9), num_rivers=5, object_type=Wall)#5': ['cc2dbf478621', 877189529],
    'crossing(shape=(11, 9), num_rivers=5, object_type=Wall)#8': ['5ffc3b2088c3', 800472174],
    'crossing(shape=(13, 5), num_rivers=1, object_type=Wall)#0': ['645f8a26616a', 376383645],
    'crossing(shape=(13, 5), num_rivers=1, object_type=Wall)#1': ['0da904ab68ce', 535214420],
    'crossing(shape=(13, 5), num_rivers=1, object_type=Wall)#13': ['5323e21b5dbe', 2022850573],
    'crossing(shape=(13, 5), num_rivers=1, object_type=Wall)#2': ['36324851a886', 197387982],
    'crossing(shape=(13, 5), num_rivers=1, object_type=Wall)#21': ['5323e21b5dbe', 738845295],
    'crossing(shape=(13, 5), num_rivers=1, object_type=Wall)#2147483647': ['2d6ac2021748', 1932789255],
    'crossing(shape=(13, 5), num_rivers=1, object_type=Wall)#3': ['5f82ca1f816a', 1866662802],
    'crossing(shape=(13, 5), num_rivers=1, object_type=Wall)#34': ['be55bd26669e', 1398143491],
    'crossing(shape=(13, 5), num_rivers=1, object_type=Wall)#5': ['be0fa37b626a', 115815301],
    'crossing(shape=(13, 5), num_rivers=1, object_type=Wall)#8': ['9f2886951535', 1380032419],
    'crossing(shape=(5, 13), num_rivers=1, object_type=Wall)#0': ['f7a287c1ebc0', 376383645],
    'crossing(shape=(5, 13), num_rivers=1, object_type=Wall)#1': ['148f1372f108', 535214420],
    'crossing(shape=(5, 13), num_rivers=1, object_type=Wall)#13': ['8ae9ff407489', 2022850573],
    'crossing(shape=(5, 13), num_rivers=1, object_type=Wall)#2': ['2c2864d8f667', 197387982],
    'crossing(shape=(5, 13), num_rivers=1, object_type=Wall)#21': ['869391a2addc', 738845295],
    'crossing(shape=(5, 13), num_rivers=1, object_type=Wall)#2147483647': ['5add904fa183', 1932789255],
    'crossing(shape=(5, 13), num_rivers=1, object_type=Wall)#3': ['ac5a67c4637a', 1866662802],
    'crossing(shape=(5, 13), num_rivers=1, object_type=Wall)#34': ['9539eaac1673', 1398143491],
    'crossing(shape=(5, 13), num_rivers=1, object_type=Wall)#5': ['63e8cd09036f', 115815301],
    'crossing(shape=(5, 13), num_rivers=1, object_type=Wall)#8': ['1952e5d29fc5', 1380032419],
    'crossing(shape=(5, 5), num_rivers=1, object_type=Wall)#0': ['622278805be5', 1097657232],
    'crossing(shape=(5, 5), num_rivers=1, object_type=Wall)#1': ['622278805be5', 1621709875],
    'crossing(shape=(5, 5), num_rivers=1, object_type=Wall)#13': ['ffc5c7e1cecf', 1760389631],
    'crossing(shape=(5, 5), num_rivers=1, object_type=Wall)#2': ['0eb05da94bf8', 234731698],
    'crossing(shape=(5, 5), num_rivers=1, object_type=Wall)#21': ['ffc5c7e1cecf', 829042257],
    'crossing(shape=(5, 5), num_rivers=1, object_type=Wall)#2147483647': ['62b94950be0a', 414967189],
    'crossing(shape=(5, 5), num_rivers=1, object_type=Wall)#3': ['62b94950be0a', 385346042],
    'crossing(shape=(5, 5), num_rivers=1, object_type=Wall)#34': ['62b94950be0a', 253779629],
    'crossing(shape=(5, 5), num_rivers=1, object_type=Wall)#5': ['ffc5c7e1cecf', 48647418],
    'crossing(shape=(5, 5), num_rivers=1, object_type=Wall)#8': ['62b94950be0a', 503597500],
    'crossing(shape=(5, 5), num_rivers=2, object_type=Wall)#0': ['d52a1b0dcf55', 1097657232],
    'crossing(shape=(5, 5), num_rivers=2, object_type=Wall)#1': ['d52a1b0dcf55', 1621709875],
    'crossing(shape=(5, 5), num_rivers=2, object_type=Wall)#13': ['d52a1b0dcf55', 1760389631],
    'crossing(shape=(5, 5), num_rivers=2, object_type=Wall)#2': ['870fa63cd71f', 234731698],
    'crossing(shape=(5, 5), num_rivers=2, object_type=Wall)#21': ['870fa63cd71f', 829042257],
    'crossing(shape=(5, 5), num_rivers=2, object_type=Wall)#2147483647': ['d52a1b0dcf55', 414967189],
    'crossing(shape=(5, 5), num_rivers=2, object_type=Wall)#3': ['d52a1b0dcf55', 385346042],
    'crossing(shape=(5, 5), num_rivers=2, object_type=Wall)#34': ['870fa63cd71f', 253779629],
    'crossing(shape=(5, 5), num_rivers=2, object_type=Wall)#5': ['870fa63cd71f', 48647418],
    'crossing(shape=(5, 5), num_rivers=2, object_type=Wall)#8': ['870fa63cd71f', 503597500],
    'crossing(shape=(5, 5), num_rivers=9, object_type=Wall)#0': ['d52a1b0dcf55', 1097657232],
    'crossing(shape=(5, 5), num_rivers=9, object_type=Wall)#1': ['d52a1b0dcf55', 1621709875],
    'crossing(shape=(5, 5), num_rivers=9, object_type=Wall)#13': ['d52a1b0dcf55', 1760389631],
    'crossing(shape=(5, 5), num_rivers=9, object_type=Wall)#2': ['870fa63cd71f', 234731698],
    'crossing(shape=(5, 5), num_rivers=9, object_type=Wall)#21': ['870fa63cd71f', 829042257],
    'crossing(shape=(5, 5), num_rivers=9, object_type=Wall)#2147483647': ['d52a1b0dcf55', 414967189],
    'crossing(shape=(5, 5), num_rivers=9, object_type=Wall)#3': ['d52a1b0dcf55', 385346042],
    'crossing(shape=(5, 5), num_rivers=9, object_type=Wall)#34': ['870fa63cd71f', 253779629],
    'crossing(shape=(5, 5), num_rivers=9, object_type=Wall)#5': ['870fa63cd71f', 48647418],
    'crossing(shape=(5, 5), num_rivers=9, object_type=Wall)#8': ['870fa63cd71f', 503597500],
    'crossing(shape=(5, 9), num_rivers=2, object_type=Wall)#0': ['92e9a41bb195', 161576974],
    'crossing(shape=(5, 9), num_rivers=2, object_type=Wall)#1': ['c25ba0b65cbe', 1767258089],
    'crossing(shape=(5, 9), num_rivers=2, object_type=Wall)#13': ['0e6f2ef84102', 2022850573],
    'crossing(shape=(5, 9), num_rivers=2, object_type=Wall)#2': ['6a9b562bc837', 969095166],
    'crossing(shape=(5, 9), num_rivers=2, object_type=Wall)#21': ['754c28a8141e', 1000846326],
    'crossing(shape=(5, 9), num_rivers=2, object_type=Wall)#2147483647': ['94a49dced76e', 1098880052],
    'crossing(shape=(5, 9), num_rivers=2, object_type=Wall)#3': ['303ee50972fc', 1250183452],
    'crossing(shape=(5, 9), num_rivers=2, object_type=Wall)#34': ['a57cc1e4cf33', 15575661],
    'crossing(shape=(5, 9), num_rivers=2, object_type=Wall)#5': ['382f221b2395', 1353417275],
    'crossing(shape=(5, 9), num_rivers=2, object_type=Wall)#8': ['a57cc1e4cf33', 1380032419],
    'crossing(shape=(7, 7), num_rivers=1, object_type=Wall)#0': ['05d0b51d0b52', 87989972],
    'crossing(shape=(7, 7), num_rivers=1, object_type=Wall)#1': ['5b3b2c6ab104', 309580411],
    'crossing(shape=(7, 7), num_rivers=1, object_type=Wall)#13': ['21d5a561c9d9', 149284444],
    'crossing(shape=(7, 7), num_rivers=1, object_type=Wall)#2': ['dbacb832f3f2', 888658063],
    'crossing(shape=(7, 7), num_rivers=1, object_type=Wall)#21': ['7f9fef06a5ed', 1000846326],
    'crossing(shape=(7, 7), num_rivers=1, object_type=Wall)#2147483647': ['10e949609679', 1098880052],
    'crossing(shape=(7, 7), num_rivers=1, object_type=Wall)#3': ['60eed342fa21', 1720723811],
    'crossing(shape=(7, 7), num_rivers=1, object_type=Wall)#34': ['21d5a561c9d9', 244631416],
    'crossing(shape=(7, 7), num_rivers=1, object_type=Wall)#5': ['21d5a561c9d9', 1006851808],
    'crossing(shape=(7, 7), num_rivers=1, object_type=Wall)#8': ['21d5a561c9d9', 378027506],
    'crossing(shape=(7, 7), num_rivers=2, object_type=Wall)#0': ['4f15fee6e00f', 161576974],
    'crossing(shape=(7, 7), num_rivers=2, object_type=Wall)#1': ['0ec0e1e22f05', 2037209175],
    'crossing(shape=(7, 7), num_rivers=2, object_type=Wall)#13': ['d8f30669b898', 2022850573],
    'crossing(shape=(7, 7), num_rivers=2, object_type=Wall)#2': ['bced382a9f4e', 969095166],
    'crossing(shape=(7, 7), num_rivers=2, object_type=Wall)#21': ['be44fc78bfe8', 738845295],
    'crossing(shape=(7, 7), num_rivers=2, object_type=Wall)#2147483647': ['c030c6ff41a6', 1098880052],
    'crossing(shape=(7, 7), num_rivers=2, object_type=Wall)#3': ['3db09ee0debc', 1250183452],
    'crossing(shape=(7, 7), num_rivers=2, object_type=Wall)#34': ['ac82015f2207', 521285308],
    'crossing(shape=(7, 7), num_rivers=2, object_type=Wall)#5': ['77ded555b671', 1106653215],
    'crossing(shape=(7, 7), num_rivers=2, object_type=Wall)#8': ['f0eaf046d965', 684426314],
    'crossing(shape=(9, 11), num_rivers=4, object_type=Wall)#0': ['55341a8e4d06', 2084654370],
    'crossing(shape=(9, 11), num_rivers=4, object_type=Wall)#1': ['4c5be11a232f', 1180243457],
    'crossing(shape=(9, 11), num_rivers=4, object_type=Wall)#13': ['3c1b326148f6', 2032519786],
    'crossing(shape=(9, 11), num_rivers=4, object_type=Wall)#2': ['fe0d644a6776', 1564571817],
    'crossing(shape=(9, 11), num_rivers=4, object_type=Wall)#21': ['ed38163fa5fe', 2106274944],
    'crossing(shape=(9, 11), num_rivers=4, object_type=Wall)#2147483647': ['565b56a0c1ab', 364428005],
    'crossing(shape=(9, 11), num_rivers=4, object_type=Wall)#3': ['3241d4a45dd5', 1484806553],
    'crossing(shape=(9, 11), num_rivers=4, object_type=Wall)#34': ['cb8e2c82bc56', 234000940],
    'crossing(shape=(9, 11), num_rivers=4, object_type=Wall)#5': ['3c5e6ef7c1d9', 1226609122],
    'crossing(shape=(9, 11), num_rivers=4, object_type=Wall)#8': ['aa9a589cafb4', 103777467],
    'crossing(shape=(9, 5), num_rivers=2, object_type=Wall)#0': ['5bf281886f6a', 35492827],
    'crossing(shape=(9, 5), num_rivers=2, object_type=Wall)#1': ['bfba8cd06575', 2037209175],
    'crossing(shape=(9, 5), num_rivers=2, object_type=Wall)#13': ['2a623b464d66', 1741659487],
    'crossing(shape=(9, 5), num_rivers=2, object_type=Wall)#2': ['fe593fa3c25a', 1748536463],
    'crossing(shape=(9, 5), num_rivers=2, object_type=Wall)#21': ['71bf3be7165e', 738845295],
    'crossing(shape=(9, 5), num_rivers=2, object_type=Wall)#2147483647': ['3aeda891c711', 1098880052],
    'crossing(shape=(9, 5), num_rivers=2, object_type=Wall)#3': ['e39134749ca8', 1720723811],
    'crossing(shape=(9, 5), num_rivers=2, object_type=Wall)#34': ['f716ad059a58', 521285308],
    'crossing(shape=(9, 5), num_rivers=2, object_type=Wall)#5': ['4364b2181096', 1106653215],
    'crossing(shape=(9, 5), num_rivers=2, object_type=Wall)#8': ['a0bf593b0e10', 684426314],
    'keydoor(shape=(12, 6))#0': ['ea35d253b4f0', 35492827],
    'keydoor(shape=(12, 6))#1': ['ebff9a7fd00a', 309580411],
    'keydoor(shape=(12, 6))#13': ['0a1e9284cdf2', 561451785],
    'keydoor(shape=(12, 6))#2': ['849119949325', 197387982],
    'keydoor(shape=(12, 6))#21': ['5d49b8bbe9fa', 1524286449],
    'keydoor(shape=(12, 6))#2147483647': ['2134754bdd6c', 1384004610],
    'keydoor(shape=(12, 6))#3': ['8dc90ee677e5', 1250183452],
    'keydoor(shape=(12, 6))#34': ['24f8b3e78585', 521285308],
    'keydoor(shape=(12, 6))#5': ['c72153082e7e', 613753790],
    'keydoor(shape=(12, 6))#8': ['6f7c542c3ce2', 1693395945],
    'keydoor(shape=(4, 5))#0': ['a889a53781e5', 661058652],
    'keydoor(shape=(4, 5))#1': ['31e44aa620c8', 74845286],
    'keydoor(shape=(4, 5))#13': ['d82dea7fc5b9', 149284444],
    'keydoor(shape=(4, 5))#2': ['38885f6891a0', 888658063],
    'keydoor(shape=(4, 5))#21': ['8befe2fbabe7', 1000846326],
    'keydoor(shape=(4, 5))#2147483647': ['8f031d933054', 1098880052],
    'keydoor(shape=(4, 5))#3': ['4c6b66b5e4d0', 389477915],
    'keydoor(shape=(4, 5))#34': ['c54294e2e658', 244631416],
    'keydoor(shape=(4, 5))#5': ['c84920c843d3', 1006851808],
    'keydoor(shape=(4, 5))#8': ['8f031d933054', 378027506],
    'keydoor(shape=(4, 6))#0': ['814796ce34e9', 35492827],
    'keydoor(shape=(4, 6))#1': ['7fe61482671d', 309580411],
    'keydoor(shape=(4, 6))#13': ['d5b464c49bea', 561451785],
    'keydoor(shape=(4, 6))#2': ['f3b3dad1af72', 197387982],
    'keydoor(shape=(4, 6))#21': ['59ca6f1c546e', 1524286449],
    'keydoor(shape=(4, 6))#2147483647': ['cbe6661a47dc', 1384004610],
    'keydoor(shape=(4, 6))#3': ['99276aaabce6', 1250183452],
    'keydoor(shape=(4, 6))#34': ['6f308c0c38e2', 521285308],
    'keydoor(shape=(4, 6))#5': ['3b04074fe361', 613753790],
    'keydoor(shape=(4, 6))#8': ['71d5b622249e', 1693395945],
    'keydoor(shape=(4, 9))#0': ['7bc4581bb8ee', 35492827],
    'keydoor(shape=(4, 9))#1': ['403849553ec9', 2037209175],
    'keydoor(shape=(4, 9))#13': ['543647c1dcda', 561451785],
    'keydoor(shape=(4, 9))#2': ['6df79814e59e', 197387982],
    'keydoor(shape=(4, 9))#21': ['63bfbe62f642', 191336225],
    'keydoor(shape=(4, 9))#2147483647': ['22dc75b6e4b2', 1384004610],
    'keydoor(shape=(4, 9))#3': ['59803aa9edc0', 1250183452],
    'keydoor(shape=(4, 9))#34': ['a528241752cd', 521285308],
    'keydoor(shape=(4, 9))#5': ['79330e643476', 613753790],
    'keydoor(shape=(4, 9))#8': ['a53f384ac3dd', 1693395945],
    'keydoor(shape=(5, 5))#0': ['4b70e52fc238', 661058652],
    'keydoor(shape=(5, 5))#1': ['3aa648f7d8d2', 74845286],
    'keydoor(shape=(5, 5))#13': ['13704394c767', 149284444],
    'keydoor(shape=(5, 5))#2': ['d3efe1421e51', 888658063],
    'keydoor(shape=(5, 5))#21': ['6688f3289ee6', 1000846326],
    'keydoor(shape=(5, 5))#2147483647': ['864285b2ca9c', 1098880052],
    'keydoor(shape=(5, 5))#3': ['a459455fd3e6', 389477915],
    'keydoor(shape=(5, 5))#34': ['f45ba13c0d4c', 244631416],
    'keydoor(shape=(5, 5))#5': ['3a28cfbf986d', 1006851808],
    'keydoor(shape=(5, 5))#8': ['864285b2ca9c', 378027506],
    'keydoor(shape=(6, 11))#0': ['a92d6093e1c1', 35492827],
    'keydoor(shape=(6, 11))#1': ['4dead01de798', 2037209175],
    'keydoor(shape=(6, 11))#13': ['65106f339ca6', 561451785],
    'keydoor(shape=(6, 11))#2': ['3fd428ae9faf', 197387982],
    'keydoor(shape=(6, 11))#21': ['800847e90b36', 191336225],
    'keydoor(shape=(6, 11))#2147483647': ['8c1991676208', 1384004610],
    'keydoor(shape=(6, 11))#3': ['5fca8de3bec8', 1250183452],
    'keydoor(shape=(6, 11))#34': ['be9393864fe1', 521285308],
    'keydoor(shape=(6, 11))#5': ['d7769c25d4d3', 613753790],
    'keydoor(shape=(6, 11))#8': ['eb65767d8682', 1693395945],
    'keydoor(shape=(7, 7))#0': ['1e076da353b4', 35492827],
    'keydoor(shape=(7, 7))#1': ['390572651004', 2037209175],
    'keydoor(shape=(7, 7))#13': ['5cf82f13cdd4', 561451785],
    'keydoor(shape=(7, 7))#2': ['ce70845e6d8b', 197387982],
    'keydoor(shape=(7, 7))#21': ['710a5c6a5332', 1524286449],
    'keydoor(shape=(7, 7))#2147483647': ['d399e5bcecc7', 1384004610],
    'keydoor(shape=(7, 7))#3': ['716a5ccc1214', 1250183452],
    'keydoor(shape=(7, 7))#34': ['6b83f592d7e3', 521285308],
    'keydoor(shape=(7, 7))#5': ['32692ac7c0a9', 613753790],
    'keydoor(shape=(7, 7))#8': ['462772dc6275', 1693395945],
    'keydoor(shape=(9, 5))#0': ['0a884760e7b7', 661058652],
    'keydoor(shape=(9, 5))#1': ['c224aae4faff', 74845286],
    'keydoor(shape=(9, 5))#13': ['9261922424d4', 149284444],
    'keydoor(shape=(9, 5))#2': ['7c0fb304c723', 888658063],
    'keydoor(shape=(9, 5))#21': ['c9e5938af0c6', 1000846326],
    'keydoor(shape=(9, 5))#2147483647': ['0dc614d386c7', 1098880052],
    'keydoor(shape=(9, 5))#3': ['95b5904fd82b', 389477915],
    'keydoor(shape=(9, 5))#34': ['b1d270fc49d2', 244631416],
    'keydoor(shape=(9, 5))#5': ['6dde34a00a47', 1006851808],
    'keydoor(shape=(9, 5))#8': ['396dd5c15a68', 378027506],
    "memory_rooms(shape=(10, 7), layout=(3, 1), colors=['BLUE', 'GREEN', 'RED', 'YELLOW'], num_beacons=3, num_exits=2)#0": ['a6400b67c4d4', 1167425779],
    "memory_rooms(shape=(10, 7), layout=(3, 1), colors=['BLUE', 'GREEN', 'RED', 'YELLOW'], num_beacons=3, num_exits=2)#1": ['0c10d0824552', 1180243457],
    "memory_rooms(shape=(10, 7), layout=(3, 1), colors=['BLUE', 'GREEN', 'RED', 'YELLOW'], num_beacons=3, num_exits=2)#13": ['570a732add9d', 1955084527],
    "memory_rooms(shape=(10, 7), layout=(3, 1), colors=['BLUE', 'GREEN', 'RED', 'YELLOW'], num_beacons=3, num_exits=2)#2": ['108c74d38561', 590492221],
    "memory_rooms(shape=(10, 7), layout=(3, 1), colors=['BLUE', 'GREEN', 'RED', 'YELLOW'], num_beacons=3, num_exits=2)#21": ['0fc20ad4ab55', 2057861521],
    "memory_rooms(shape=(10, 7), layout=(3, 1), colors=['BLUE', 'GREEN', 'RED', 'YELLOW'], num_beacons=3, num_exits=2)#2147483647": ['0281eafc272a', 1815048020],
    "memory_rooms(shape=(10, 7), layout=(3, 1), colors=['BLUE', 'GREEN', 'RED', 'YELLOW'], num_beacons=3, num_exits=2)#3": ['84512d19fa69', 1577492420],
    "memory_rooms(shape=(10, 7), layout=(3, 1), colors=['BLUE', 'GREEN', 'RED', 'YELLOW'], num_beacons=3, num_exits=2)#34": ['574052ef58f0', 1118823719],
    "memory_rooms(shape=(10, 7), layout=(3, 1), colors=['BLUE', 'GREEN', 'RED', 'YELLOW'], num_beacons=3, num_exits=2)#5": ['d0cd9bd37305', 104706386],
    "memory_rooms(shape=(10, 7), layout=(3, 1), colors=['BLUE', 'GREEN', 'RED', 'YELLOW'], num_beacons=3, num_exits=2)#8": ['b90f66d874c1', 229681099],
    "memory_rooms(shape=(13, 13), layout=(3, 3), colors=['BLUE', 'GREEN', 'RED', 'YELLOW'], num_beacons=2, num_exits=4)#0": ['d792aab014e5', 191741831],
    "memory_rooms(shape=(13, 13), layout=(3, 3), colors=['BLUE', 'GREEN', 'RED', 'YELLOW'], num_beacons=2, num_exits=4)#1": ['4356c352ea42', 2097889541],
    "memory_rooms(shape=(13, 13), layout=(3, 3), colors=['BLUE', 'GREEN', 'RED', 'YELLOW'], num_beacons=2, num_exits=4)#13": ['60ee4837fb2e', 1893314293],
    "memory_rooms(shape=(13, 13), layout=(3, 3), colors=['BLUE', 'GREEN', 'RED', 'YELLOW'], num_beacons=2, num_exits=4)#2": ['3a94fb5cfaf5', 2007792140],
    "memory_rooms(shape=(13, 13), layout=(3, 3), colors=['BLUE', 'GREEN', 'RED', 'YELLOW'], num_beacons=2, num_exits=4)#21": ['62a70d85b3f6', 1679741562],
    "memory_rooms(shape=(13, 13), layout=(3, 3), colors=['BLUE', 'GREEN', 'RED', 'YELLOW'], num_beacons=2, num_exits=4)#2147483647": ['a4a60d9fb123', 1490238184],
    "memory_rooms(shape=(13, 13), layout=(3, 3), colors=['BLUE', 'GREEN', 'RED', 'YELLOW'], num_beacons=2, num_exits=4)#3": ['73383de38df6', 1688352592],
    "memory_rooms(shape=(13, 13), layout=(3, 3), colors=['BLUE', 'GREEN', 'RED', 'YELLOW'], num_beacons=2, num_exits=4)#34": ['0a9eba7a0a00', 1841522261],
    "memory_rooms(shape=(13, 13), layout=(3, 3), colors=['BLUE', 'GREEN', 'RED', 'YELLOW'], num_beacons=2, num_exits=4)#5": ['435de7feeccb', 248528775],
    "memory_rooms(shape=(13, 13), layout=(3, 3), colors=['BLUE', 'GREEN', 'RED', 'YELLOW'], num_beacons=2, num_exits=4)#8": ['dbbbfcc814ff', 65241236],
    "memory_rooms(shape=(4, 6), layout=(1, 1), colors=['GREEN', 'RED'], num_beacons=1, num_exits=2)#0": ['49e37bcfd92b', 1394609703],
    "memory_rooms(shape=(4, 6), layout=(1, 1), colors=['GREEN', 'RED'], num_beacons=1, num_exits=2)#1": ['eb870e55fdd5', 1866217508],
    "memory_rooms(shape=(4, 6), layout=(1, 1), colors=['GREEN', 'RED'], num_beacons=1, num_exits=2)#13": ['340afd53f1f5', 1715750153],
    "memory_rooms(shape=(4, 6), layout=(1, 1), colors=['GREEN', 'RED'], num_beacons=1, num_exits=2)#2": ['7a373d919e50', 1746310708],
    "memory_rooms(shape=(4, 6), layout=(1, 1), colors=['GREEN', 'RED'], num_beacons=1, num_exits=2)#21": ['fe6aa27cb125', 1333199766],
    "memory_rooms(shape=(4, 6), layout=(1, 1), colors=['GREEN', 'RED'], num_beacons=1, num_exits=2)#2147483647": ['8a5e0951dd19', 753403476],
    "memory_rooms(shape=(4, 6), layout=(1, 1), colors=['GREEN', 'RED'], num_beacons=1, num_exits=2)#3": ['f94d03f45124', 713397379],
    "memory_rooms(shape=(4, 6), layout=(1, 1), colors=['GREEN', 'RED'], num_beacons=1, num_exits=2)#34": ['92ad0f8da17f', 537246089],
    "memory_rooms(shape=(4, 6), layout=(1, 1), colors=['GREEN', 'RED'], num_beacons=1, num_exits=2)#5": ['699f1ce48a7e', 596836679],
    "memory_rooms(shape=(4, 6), layout=(1, 1), colors=['GREEN', 'RED'], num_beacons=1, num_exits=2)#8": ['8c7755abd434', 103777467],
    "memory_rooms(shape=(5, 9), layout=(2, 4), colors=['BLUE', 'GREEN', 'RED', 'YELLOW'], num_beacons=1, num_exits=2)#0": ['4ab90ba1f323', 1960127676],
    "memory_rooms(shape=(5, 9), layout=(2, 4), colors=['BLUE', 'GREEN', 'RED', 'YELLOW'], num_beacons=1, num_exits=2)#1": ['930cb39ae8b6', 909086626],
    "memory_rooms(shape=(5, 9), layout=(2, 4), colors=['BLUE', 'GREEN', 'RED', 'YELLOW'], num_beacons=1, num_exits=2)#13": ['ef99c4f76722', 2032519786],
    "memory_rooms(shape=(5, 9), layout=(2, 4), colors=['BLUE', 'GREEN', 'RED', 'YELLOW'], num_beacons=1, num_exits=2)#2": ['9cdec154f3f1', 1564571817],
    "memory_rooms(shape=(5, 9), layout=(2, 4), colors=['BLUE', 'GREEN', 'RED', 'YELLOW'], num_beacons=1, num_exits=2)#21": ['eeae69ef7b90', 2106274944],
    "memory_rooms(shape=(5, 9), layout=(2, 4), colors=['BLUE', 'GREEN', 'RED', 'YELLOW'], num_beacons=1, num_exits=2)#2147483647": ['4d6f86a4337d', 1002463483],
    "memory_rooms(shape=(5, 9), layout=(2, 4), colors=['BLUE', 'GREEN', 'RED', 'YELLOW'], num_beacons=1, num_exits=2)#3": ['89d53583dc8a', 930133021],
    "memory_rooms(shape=(5, 9), layout=(2, 4), colors=['BLUE', 'GREEN', 'RED', 'YELLOW'], num_beacons=1, num_exits=2)#34": ['0904c330309b', 1693362784],
    "memory_rooms(shape=(5, 9), layout=(2, 4), colors=['BLUE', 'GREEN', 'RED', 'YELLOW'], num_beacons=1, num_exits=2)#5": ['3e426bdeb3fe', 823278402],
    "memory_rooms(shape=(5, 9), layout=(2, 4), colors=['BLUE', 'GREEN', 'RED', 'YELLOW'], num_beacons=1, num_exits=2)#8": ['218b42c80f2e', 839848227],
    "memory_rooms(shape=(7, 7), layout=(2, 2), colors=['BLUE', 'GREEN', 'RED', 'YELLOW'], num_beacons=1, num_exits=2)#0": ['caae38474d1c', 1566581935],
    "memory_rooms(shape=(7, 7), layout=(2, 2), colors=['BLUE', 'GREEN', 'RED', 'YELLOW'], num_beacons=1, num_exits=2)#1": ['cfcaa3b09549', 878748454],
    "memory_rooms(shape=(7, 7), layout=(2, 2), colors=['BLUE', 'GREEN', 'RED', 'YELLOW'], num_beacons=1, num_exits=2)#13": ['da57af5ca013', 5649500],
    "memory_rooms(shape=(7, 7), layout=(2, 2), colors=['BLUE', 'GREEN', 'RED', 'YELLOW'], num_beacons=1, num_exits=2)#2": ['6ca9f1322b24', 118426480],
    "memory_rooms(shape=(7, 7), layout=(2, 2), colors=['BLUE', 'GREEN', 'RED', 'YELLOW'], num_beacons=1, num_exits=2)#21": ['9687c274ef5b', 241383783],
    "memory_rooms(shape=(7, 7), layout=(2, 2), colors=['BLUE', 'GREEN', 'RED', 'YELLOW'], num_beacons=1, num_exits=2)#2147483647": ['571ee49cb2ab', 2124911341],
    "memory_rooms(shape=(7, 7), layout=(2, 2), colors=['BLUE', 'GREEN', 'RED', 'YELLOW'], num_beacons=1, num_exits=2)#3": ['0bb2cbe7eedb', 343036707],
    "memory_rooms(shape=(7, 7), layout=(2, 2), colors=['BLUE', 'GREEN', 'RED', 'YELLOW'], num_beacons=1, num_exits=2)#34": ['256e55dd376b', 1932138275],
    "memory_rooms(shape=(7, 7), layout=(2, 2), colors=['BLUE', 'GREEN', 'RED', 'YELLOW'], num_beacons=1, num_exits=2)#5": ['60271b0cd59e', 97227738],
    "memory_rooms(shape=(7, 7), layout=(2, 2), colors=['BLUE', 'GREEN', 'RED', 'YELLOW'], num_beacons=1, num_exits=2)#8": ['d64b53654c38', 800472174],
    "memory_rooms(shape=(9, 5), layout=(4, 2), colors=['BLUE', 'RED'], num_beacons=1, num_exits=2)#0": ['4aeb34ead78d', 1394609703],
    "memory_rooms(shape=(9, 5), layout=(4, 2), colors=['BLUE', 'RED'], num_beacons=1, num_exits=2)#1": ['bcbb9f618e92', 1866217508],
    "memory_rooms(shape=(9, 5), layout=(4, 2), colors=['BLUE', 'RED'], num_beacons=1, num_exits=2)#13": ['5a85e4e91c67', 1715750153],
    "memory_rooms(shape=(9, 5), layout=(4, 2), colors=['BLUE', 'RED'], num_beacons=1, num_exits=2)#2": ['b5a7205f2312', 1746310708],
    "memory_rooms(shape=(9, 5), layout=(4, 2), colors=['BLUE', 'RED'], num_beacons=1, num_exits=2)#21": ['efbd3815db47', 1333199766],
    "memory_rooms(shape=(9, 5), layout=(4, 2), colors=['BLUE', 'RED'], num_beacons=1, num_exits=2)#2147483647": ['e6cd82fd4342', 753403476],
    "memory_rooms(shape=(9, 5), layout=(4, 2), colors=['BLUE', 'RED'], num_beacons=1, num_exits=2)#3": ['cadb9d9cabe7', 713397379],
    "memory_rooms(shape=(9, 5), layout=(4, 2), colors=['BLUE', 'RED'], num_beacons=1, num_exits=2)#34": ['eb13d0485284', 537246089],
    "memory_rooms(shape=(9, 5), layout=(4, 2), colors=['BLUE', 'RED'], num_beacons=1, num_exits=2)#5": ['dbd473ab70c3', 596836679],
    "memory_rooms(shape=(9, 5), layout=(4, 2), colors=['BLUE', 'RED'], num_beacons=1, num_exits=2)#8": ['5bae016e2c08', 103777467],
    'rooms(shape=(10, 7), layout=(3, 1))#0': ['f4681818e27f', 161576974],
    'rooms(shape=(10, 7), layout=(3, 1))#1': ['bda2636980d0', 1767258089],
    'rooms(shape=(10, 7), layout=(3, 1))#13': ['65cb26d230f7', 2022850573],
    'rooms(shape=(10, 7), layout=(3, 1))#2': ['22af55bf0b87', 969095166],
    'rooms(shape=(10, 7), layout=(3, 1))#21': ['7f2dbd13930c', 738845295],
    'rooms(shape=(10, 7), layout=(3, 1))#2147483647': ['dde9a9f99d21', 1932789255],
    'rooms(shape=(10, 7), layout=(3, 1))#3': ['436b1b740f5b', 1866662802],
    'rooms(shape=(10, 7), layout=(3, 1))#34': ['6411e6252f6b', 15575661],
    'rooms(shape=(10, 7), layout=(3, 1))#5': ['5f11562bc52e', 1353417275],
    'rooms(shape=(10, 7), layout=(3, 1))#8': ['91a9f3dfb469', 1380032419],
    'rooms(shape=(13, 13), layout=(3, 3))#0': ['2902f786e9a5', 1357791199],
    'rooms(shape=(13, 13), layout=(3, 3))#1': ['9d9534e30052', 1382612245],
    'rooms(shape=(13, 13), layout=(3, 3))#13': ['2f08ccb79c89', 1796202708],
    'rooms(shape=(13, 13), layout=(3, 3))#2': ['255ec3ea9888', 1198780982],
    'rooms(shape=(13, 13), layout=(3, 3))#21': ['2e8063ab16e0', 1504235393],
    'rooms(shape=(13, 13), layout=(3, 3))#2147483647': ['71eee3881659', 1755345502],
    'rooms(shape=(13, 13), layout=(3, 3))#3': ['5d731568cf3e', 1484806553],
    'rooms(shape=(13, 13), layout=(3, 3))#34': ['5437b04b352b', 1067731748],
    'rooms(shape=(13, 13), layout=(3, 3))#5': ['c3319bcda0ad', 2180442],
    'rooms(shape=(13, 13), layout=(3, 3))#8': ['98aa86adf7b2', 86214689],
    'rooms(shape=(3, 4), layout=(1, 1))#0': ['96294694afd0', 579362556],
    'rooms(shape=(3, 4), layout=(1, 1))#1': ['55a567ea90a7', 2041105245],
    'rooms(shape=(3, 4), layout=(1, 1))#13': ['55a567ea90a7', 1836748164],
    'rooms(shape=(3, 4), layout=(1, 1))#2': ['94ab934e8bc8', 641004849],
    'rooms(shape=(3, 4), layout=(1, 1))#21': ['734bbce1e861', 1301046589],
    'rooms(shape=(3, 4), layout=(1, 1))#2147483647': ['94ab934e8bc8', 2005533798],
    'rooms(shape=(3, 4), layout=(1, 1))#3': ['94ab934e8bc8', 508546690],
    'rooms(shape=(3, 4), layout=(1, 1))#34': ['94ab934e8bc8', 1872985661],
    'rooms(shape=(3, 4), layout=(1, 1))#5': ['48f4f03f6d27', 1735039634],
    'rooms(shape=(3, 4), layout=(1, 1))#8': ['94ab934e8bc8', 2120160877],
    'rooms(shape=(4, 3), layout=(1, 1))#0': ['549d2057468d', 579362556],
    'rooms(shape=(4, 3), layout=(1, 1))#1': ['453b0c393fc7', 2041105245],
    'rooms(shape=(4, 3), layout=(1, 1))#13': ['453b0c393fc7', 1836748164],
    'rooms(shape=(4, 3), layout=(1, 1))#2': ['e3b180ed3f0a', 641004849],
    'rooms(shape=(4, 3), layout=(1, 1))#21': ['889f46974ee3', 1301046589],
    'rooms(shape=(4, 3), layout=(1, 1))#2147483647': ['e3b180ed3f0a', 2005533798],
    'rooms(shape=(4, 3), layout=(1, 1))#3': ['e3b180ed3f0a', 508546690],
    'rooms(shape=(4, 3), layout=(1, 1))#34': ['e3b180ed3f0a', 1872985661],
    'rooms(shape=(4, 3), layout=(1, 1))#5': ['eb8801616855', 1735039634],
    'rooms(shape=(4, 3), layout=(1, 1))#8': ['e3b180ed3f0a', 2120160877],
    'rooms(shape=(5, 5), layout=(2, 2))#0': ['3805cce5f503', 661058652],
    'rooms(shape=(5, 5), layout=(2, 2))#1': ['f6aa36ceda02', 74845286],
    'rooms(shape=(5, 5), layout=(2, 2))#13': ['b21667e326f0', 149284444],
    'rooms(shape=(5, 5), layout=(2, 2))#2': ['064761ca5db0', 888658063],
    'rooms(shape=(5, 5), layout=(2, 2))#21': ['fbb28fa8aa24', 1000846326],
    'rooms(shape=(5, 5), layout=(2, 2))#2147483647': ['245c1fbace07', 1098880052],
    'rooms(shape=(5, 5), layout=(2, 2))#3': ['c34beca574a2', 389477915],
    'rooms(shape=(5, 5), layout=(2, 2))#34': ['a328118960a3', 244631416],
    'rooms(shape=(5, 5), layout=(2, 2))#5': ['92ff994a7253', 1006851808],
    'rooms(shape=(5, 5), layout=(2, 2))#8': ['245c1fbace07', 378027506],
    'rooms(shape=(5, 9), layout=(2, 4))#0': ['ab6814d155d8', 661058652],
    'rooms(shape=(5, 9), layout=(2, 4))#1': ['66346e182adf', 74845286],
    'rooms(shape=(5, 9), layout=(2, 4))#13': ['67b44fcdfcc6', 149284444],
    'rooms(shape=(5, 9), layout=(2, 4))#2': ['a06ca9a09e3c', 888658063],
    'rooms(shape=(5, 9), layout=(2, 4))#21': ['2ea0525124ef', 1000846326],
    'rooms(shape=(5, 9), layout=(2, 4))#2147483647': ['3672a1c1b4f9', 1098880052],
    'rooms(shape=(5, 9), layout=(2, 4))#3': ['37cbcd08a91b', 389477915],
    'rooms(shape=(5, 9), layout=(2, 4))#34': ['d61f9bbf55fb', 244631416],
    'rooms(shape=(5, 9), layout=(2, 4))#5': ['4ecc81a224fe', 1006851808],
    'rooms(shape=(5, 9), layout=(2, 4))#8': ['9f046b9dd9fb', 378027506],
    'rooms(shape=(7, 10), layout=(1, 3))#0': ['100489cc41f4', 161576974],
    'rooms(shape=(7, 10), layout=(1, 3))#1': ['59d242c90817', 1767258089],
    'rooms(shape=(7, 10), layout=(1, 3))#13': ['8742c4f8ff94', 2022850573],
    'rooms(shape=(7, 10), layout=(1, 3))#2': ['52938a5f9c77', 969095166],
    'rooms(shape=(7, 10), layout=(1, 3))#21': ['31294c1cc36b', 738845295],
    'rooms(shape=(7, 10), layout=(1, 3))#2147483647': ['fd649f95db93', 1932789255],
    'rooms(shape=(7, 10), layout=(1, 3))#3': ['a34c258db1dc', 1866662802],
    'rooms(shape=(7, 10), layout=(1, 3))#34': ['2445e2b82009', 15575661],
    'rooms(shape=(7, 10), layout=(1, 3))#5': ['0b127cac9fe1', 1353417275],
    'rooms(shape=(7, 10), layout=(1, 3))#8': ['bbaf809edde8', 1380032419],
    'rooms(shape=(7, 7), layout=(2, 2))#0': ['113e30f397e5', 376383645],
    'rooms(shape=(7, 7), layout=(2, 2))#1': ['645b6daa22dd', 535214420],
    'rooms(shape=(7, 7), layout=(2, 2))#13': ['81992b1f1c43', 364116581],
    'rooms(shape=(7, 7), layout=(2, 2))#2': ['7cdde1b351d1', 719155818],
    'rooms(shape=(7, 7), layout=(2, 2))#21': ['ffba09dbd3b9', 631709596],
    'rooms(shape=(7, 7), layout=(2, 2))#2147483647': ['17627973f755', 2132441371],
    'rooms(shape=(7, 7), layout=(2, 2))#3': ['b175d02316f1', 84608903],
    'rooms(shape=(7, 7), layout=(2, 2))#34': ['d97b9ce54166', 211968524],
    'rooms(shape=(7, 7), layout=(2, 2))#5': ['8b98acf0566f', 2103511158],
    'rooms(shape=(7, 7), layout=(2, 2))#8': ['8f9d9a32f44d', 1373808880],
    'rooms(shape=(8, 15), layout=(2, 5))#0': ['baccec5ce0dc', 1357791199],
    'rooms(shape=(8, 15), layout=(2, 5))#1': ['a8e6175a4c5c', 1382612245],
    'rooms(shape=(8, 15), layout=(2, 5))#13': ['276afdad77cc', 1796202708],
    'rooms(shape=(8, 15), layout=(2, 5))#2': ['ba88332172ab', 1198780982],
    'rooms(shape=(8, 15), layout=(2, 5))#21': ['7439833c8171', 1504235393],
    'rooms(shape=(8, 15), layout=(2, 5))#2147483647': ['872c114bf7ef', 1755345502],
    'rooms(shape=(8, 15), layout=(2, 5))#3': ['d90dd851b139', 1484806553],
    'rooms(shape=(8, 15), layout=(2, 5))#34': ['93fbe1ee7409', 1067731748],
    'rooms(shape=(8, 15), layout=(2, 5))#5': ['829e8d2ed4ed', 2180442],
    'rooms(shape=(8, 15), layout=(2, 5))#8': ['9c6ec559567a', 86214689],
    'rooms(shape=(9, 5), layout=(4, 2))#0': ['eded706a4c09', 661058652],
    'rooms(shape=(9, 5), layout=(4, 2))#1': ['09668c3683ef', 74845286],
    'rooms(shape=(9, 5), layout=(4, 2))#13': ['0c2536097db1', 149284444],
    'rooms(shape=(9, 5), layout=(4, 2))#2': ['124a89a8beac', 888658063],
    'rooms(shape=(9, 5), layout=(4, 2))#21': ['e7a4cdcd5482', 1000846326],
    'rooms(shape=(9, 5), layout=(4, 2))#2147483647': ['f8ae05e99099', 1098880052],
    'rooms(shape=(9, 5), layout=(4, 2))#3': ['c98892199417', 389477915],
    'rooms(shape=(9, 5), layout=(4, 2))#34': ['fd81888840e2', 244631416],
    'rooms(shape=(9, 5), layout=(4, 2))#5': ['f9e1d6f43db5', 1006851808],
    'rooms(shape=(9, 5), layout=(4, 2))#8': ['42850a8275d0', 378027506],
}


def scenario_key(name, kwargs, seed):
    parts = []
    for key, value in kwargs.items():
        if isinstance(value, (set, frozenset)):
            value = sorted(color.name for color in value)
        elif isinstance(value, type):
            value = value.__name__
        elif isinstance(value, Shape):
            value = (value.height, value.width)
        parts.append(f'{key}={value}')
    return f'{name}({", ".join(parts)})#{seed}'


# ------------------------------------------------- 1. recorded fingerprints

recorded = {}
for name, scenarios in SCENARIOS.items():
    function = getattr(reset_fs, name)
    for kwargs in scenarios:
        for seed in SEEDS:
            rng = make_rng(seed)
            try:
                state = function(**copy.deepcopy(kwargs), rng=rng)
                result = fingerprint(state)
            except Exception as error:  # noqa: BLE001
                result = f'{type(error).__name__}: {error}'
            # generator state after the call tells how much was drawn
            tail = int(rng.integers(0, 2**31))
            recorded[scenario_key(name, kwargs, seed)] = [result, tail]

if '--record' in sys.argv:
    import json

    print(json.dumps(recorded, indent=0, sort_keys=True))
    sys.exit(0)

check(len(EXPECTED) == len(recorded) and len(recorded) > 300, 'scenario list / EXPECTED mismatch')
for key, value in recorded.items():
    check(EXPECTED.get(key) == value, f'{key}: expected {EXPECTED.get(key)}, got {value}')
check(
    not any(str(value[0]).split(':')[0].endswith('Error') for value in recorded.values()),
    'a legal scenario raised',
)

# --------------------------------- 2. reference re-implementation of the draws


def reference_keydoor(shape, rng):
    """what `keydoor` draws, in order, and what it must build from that"""
    x_wall = rng.integers(2, shape.width - 3, endpoint=True)
    i_door = rng.choice(shape.height - 2)
    y_key = rng.integers(1, shape.height - 2, endpoint=True)
    x_key = rng.integers(1, x_wall - 1, endpoint=True)
    y_agent = rng.integers(1, shape.height - 2, endpoint=True)
    x_agent = rng.integers(1, x_wall - 1, endpoint=True)
    i_orientation = rng.choice(len(Orientation))
    return (
        int(x_wall),
        1 + int(i_door),
        (int(y_key), int(x_key)),
        (int(y_agent), int(x_agent)),
        list(Orientation)[i_orientation],
    )


for kwargs in SCENARIOS['keydoor']:
    shape = kwargs['shape']
    for seed in SEEDS:
        rng, rng_reference = make_rng(seed), make_rng(seed)
        state = reset_fs.keydoor(shape, rng=rng)
        x_wall, y_door, key, agent, orientation = reference_keydoor(
            shape, rng_reference
        )
        label = f'keydoor {shape} seed {seed}'
        check(generator_state(rng) == generator_state(rng_reference), f'{label}: generator state')
        check(2 <= x_wall <= shape.width - 3, f'{label}: wall column out of range')
        for y in range(1, shape.height - 1):
            obj = state.grid[y, x_wall]
            if y == y_door:
                check(
                    isinstance(obj, Door) and obj.is_locked and obj.color is Color.YELLOW,
                    f'{label}: door',
                )
            else:
                check(isinstance(obj, Wall), f'{label}: wall at {y}')
        # the key lies where drawn (unless the agent..: no, objects only)
        check(
            isinstance(state.grid[key], Key) and state.grid[key].color is Color.YELLOW,
            f'{label}: key',
        )
        check(key[1] < x_wall and agent[1] < x_wall, f'{label}: left of wall')
        check(state.agent.position == Position(*agent), f'{label}: agent position')
        check(state.agent.orientation is orientation, f'{label}: agent orientation')
        check(
            isinstance(state.grid[shape.height - 2, shape.width - 2], Exit),
            f'{label}: exit',
        )
        n_keys = sum(
            isinstance(state.grid[p], Key) for p in state.grid.area.positions()
        )
        check(n_keys == 1, f'{label}: number of keys')


def reference_rooms_passages(shape, layout, rng):
    """passages drawn by `rooms` / `memory_rooms`, in order"""
    layout_height, layout_width = layout
    y_splits = np.linspace(0, shape.height - 1, num=layout_height + 1, dtype=int)
    x_splits = np.linspace(0, shape.width - 1, num=layout_width + 1, dtype=int)
    passages = []
    for y in y_splits[1:-1]:
        for x_from, x_to in zip(x_splits[:-1], x_splits[1:]):
            passages.append((int(y), int(rng.integers(x_from + 1, x_to))))
    for y_from, y_to in zip(y_splits[:-1], y_splits[1:]):
        for x in x_splits[1:-1]:
            passages.append((int(rng.integers(y_from + 1, y_to)), int(x)))
    return y_splits, x_splits, passages


for kwargs in SCENARIOS['rooms']:
    shape, layout = kwargs['shape'], kwargs['layout']
    for seed in SEEDS:
        rng, rng_reference = make_rng(seed), make_rng(seed)
        state = reset_fs.rooms(shape, layout, rng=rng)
        y_splits, x_splits, passages = reference_rooms_passages(
            shape, layout, rng_reference
        )
        label = f'rooms {shape} {layout} seed {seed}'

        # expected grid before placing the exit
        expected_walls = {
            (y, x)
            for y in range(shape.height)
            for x in range(shape.width)
            if y in y_splits or x in x_splits
        } - set(passages)
        floors = [
            Position(y, x)
            for y in range(shape.height)
            for x in range(shape.width)
            if (y, x) not in expected_walls
        ]
        i_agent, i_exit = rng_reference.choice(len(floors), size=2, replace=False)
        i_orientation = rng_reference.choice(len(Orientation))
        check(generator_state(rng) == generator_state(rng_reference), f'{label}: generator state')

        for y in range(shape.height):
            for x in range(shape.width):
                obj = state.grid[y, x]
                if (y, x) in expected_walls:
                    check(isinstance(obj, Wall), f'{label}: wall at {(y, x)}')
                elif Position(y, x) == floors[i_exit]:
                    check(isinstance(obj, Exit), f'{label}: exit at {(y, x)}')
                else:
                    check(isinstance(obj, Floor), f'{label}: floor at {(y, x)}')
        check(state.agent.position == floors[i_agent], f'{label}: agent position')
        check(
            state.agent.orientation is list(Orientation)[i_orientation],
            f'{label}: agent orientation',
        )
        # passages are strictly inside their wall segment
        for (y, x) in passages:
            check(
                (y in y_splits) != (x in x_splits), f'{label}: passage {(y, x)} on a crossing'
            )

    # memory_rooms draws the same passages first
for kwargs in SCENARIOS['memory_rooms']:
    shape, layout = kwargs['shape'], kwargs['layout']
    for seed in SEEDS[:5]:
        state = reset_fs.memory_rooms(**copy.deepcopy(kwargs), rng=make_rng(seed))
        y_splits, x_splits, passages = reference_rooms_passages(
            shape, layout, make_rng(seed)
        )
        for y in range(shape.height):
            for x in range(shape.width):
                on_wall = (y in y_splits or x in x_splits) and (y, x) not in passages
                check(
                    isinstance(state.grid[y, x], Wall) == on_wall,
                    f'memory_rooms {shape} {layout} seed {seed}: wall at {(y, x)}',
                )

# crossing: the path from (1, 1) to the exit exists, rivers otherwise intact
for kwargs in SCENARIOS['crossing']:
    shape, num_rivers = kwargs['shape'], kwargs['num_rivers']
    for seed in SEEDS:
        state = reset_fs.crossing(**kwargs, rng=make_rng(seed))
        label = f'crossing {shape} {num_rivers} seed {seed}'
        walkable = {
            (p.y, p.x)
            for p in state.grid.area.positions()
            if isinstance(state.grid[p], (Floor, Exit))
        }
        frontier, seen = [(1, 1)], {(1, 1)}
        while frontier:
            y, x = frontier.pop()
            for dy, dx in [(0, 1), (1, 0), (0, -1), (-1, 0)]:
                q = (y + dy, x + dx)
                if q in walkable and q not in seen:
                    seen.add(q)
                    frontier.append(q)
        check((shape.height - 2, shape.width - 2) in seen, f'{label}: exit unreachable')
        inner_walls = sum(
            isinstance(state.grid[y, x], Wall)
            for y in range(1, shape.height - 1)
            for x in range(1, shape.width - 1)
        )
        check(state.agent.position == Position(1, 1), f'{label}: agent position')
        check(state.agent.orientation is Orientation.R, f'{label}: agent orientation')

# ----------------------------------------------- 3. illegal parameters

ILLEGAL = [
    ('keydoor', {'shape': Shape(3, 5)}, ValueError),
    ('keydoor', {'shape': Shape(2, 9)}, ValueError),
    ('keydoor', {'shape': Shape(3, 6)}, ValueError),
    ('rooms', {'shape': Shape(3, 3), 'layout': (1, 1)}, ValueError),
    ('crossing', {'shape': Shape(5, 5), 'num_rivers': 0, 'object_type': Wall}, ValueError),
    ('memory_rooms', {'shape': Shape(5, 5), 'layout': (1, 1), 'colors': {Color.NONE}, 'num_beacons': 1, 'num_exits': 2}, ValueError),
    ('memory_rooms', {'shape': Shape(5, 5), 'layout': (1, 1), 'colors': COLORS4, 'num_beacons': 1, 'num_exits': 1}, ValueError),
    ('keydoor', {'shape': Shape(9, 4)}, ValueError),
    ('rooms', {'shape': Shape(3, 3), 'layout': (2, 1)}, ValueError),
    ('rooms', {'shape': Shape(5, 3), 'layout': (2, 3)}, ValueError),
    # legal splits but rooms of zero width: empty range for the passage
    ('rooms', {'shape': Shape(5, 3), 'layout': (2, 2)}, ValueError),
    ('rooms', {'shape': Shape(3, 5), 'layout': (2, 2)}, ValueError),
    ('memory_rooms', {'shape': Shape(3, 5), 'layout': (2, 2), 'colors': COLORS4, 'num_beacons': 1, 'num_exits': 2}, ValueError),
    ('crossing', {'shape': Shape(4, 5), 'num_rivers': 1, 'object_type': Wall}, ValueError),
    ('crossing', {'shape': Shape(5, 5), 'num_rivers': -1, 'object_type': Wall}, ValueError),
]
for name, kwargs, exception in ILLEGAL:
    messages = set()
    for seed in SEEDS[:3]:
        try:
            getattr(reset_fs, name)(**copy.deepcopy(kwargs), rng=make_rng(seed))
        except exception as error:
            messages.add(f'{type(error).__name__}: {error}')
        except Exception as error:  # noqa: BLE001
            check(False, f'{name} {kwargs}: raised {error!r} instead of {exception.__name__}')
        else:
            check(False, f'{name} {kwargs}: did not raise')
    key = f'illegal {name} {scenario_key(name, kwargs, "*")}'
    recorded[key] = sorted(messages)

ILLEGAL_EXPECTED = {
    'illegal crossing crossing(shape=(4, 5), num_rivers=1, object_type=Wall)#*': ['ValueError: height (4) must be odd and >= 5'],
    'illegal crossing crossing(shape=(5, 5), num_rivers=-1, object_type=Wall)#*': ['ValueError: number of rivers (-1) must be positive'],
    'illegal crossing crossing(shape=(5, 5), num_rivers=0, object_type=Wall)#*': ['ValueError: number of rivers (0) must be positive'],
    'illegal keydoor keydoor(shape=(2, 9))#*': ['ValueError: Shape must larger than (3, 5), given Shape(height=2, width=9)'],
    'illegal keydoor keydoor(shape=(3, 5))#*': ['ValueError: Shape must larger than (3, 5), given Shape(height=3, width=5)'],
    'illegal keydoor keydoor(shape=(3, 6))#*': ['ValueError: height and width need to be at least 4'],
    'illegal keydoor keydoor(shape=(9, 4))#*': ['ValueError: Shape must larger than (3, 5), given Shape(height=9, width=4)'],
    "illegal memory_rooms memory_rooms(shape=(3, 5), layout=(2, 2), colors=['BLUE', 'GREEN', 'RED', 'YELLOW'], num_beacons=1, num_exits=2)#*": ['ValueError: low >= high'],
    "illegal memory_rooms memory_rooms(shape=(5, 5), layout=(1, 1), colors=['BLUE', 'GREEN', 'RED', 'YELLOW'], num_beacons=1, num_exits=1)#*": ['ValueError: num_exits (1) must be >= 2'],
    "illegal memory_rooms memory_rooms(shape=(5, 5), layout=(1, 1), colors=['NONE'], num_beacons=1, num_exits=2)#*": ['ValueError: colors ({<Color.NONE: 0>}) must not include NONE'],
    'illegal rooms rooms(shape=(3, 3), layout=(1, 1))#*': ['ValueError: Cannot take a larger sample than population when replace is False'],
    'illegal rooms rooms(shape=(3, 3), layout=(2, 1))#*': ['ValueError: Cannot take a larger sample than population when replace is False'],
    'illegal rooms rooms(shape=(3, 5), layout=(2, 2))#*': ['ValueError: low >= high'],
    'illegal rooms rooms(shape=(5, 3), layout=(2, 2))#*': ['ValueError: low >= high'],
    'illegal rooms rooms(shape=(5, 3), layout=(2, 3))#*': ['ValueError: insufficient width (3) for layout ((2, 3))'],
}
if '--record-illegal' in sys.argv:
    import json

    print(json.dumps({k: v for k, v in recorded.items() if k.startswith('illegal')}, indent=0, sort_keys=True))
    sys.exit(0)
for key, value in ILLEGAL_EXPECTED.items():
    check(recorded.get(key) == value, f'{key}: expected {value}, got {recorded.get(key)}')
check(len(ILLEGAL_EXPECTED) == len(ILLEGAL), 'ILLEGAL_EXPECTED incomplete')

# -------------------- 4. factory by name, module generator, re-seeding

for name, scenarios in SCENARIOS.items():
    for kwargs in scenarios[:4]:
        by_name = reset_fs.factory(name, **copy.deepcopy(kwargs), ignored_parameter=3)
        for seed in SEEDS[:4]:
            direct = getattr(reset_fs, name)(**copy.deepcopy(kwargs), rng=make_rng(seed))
            check(
                by_name(rng=make_rng(seed)) == direct,
                f'factory({name!r}) differs from the function for {kwargs} seed {seed}',
            )
            # library-level generator
            gv_rng.reset_gv_rng(seed)
            check(
                getattr(reset_fs, name)(**copy.deepcopy(kwargs)) == direct,
                f'{name} with the module generator differs for {kwargs} seed {seed}',
            )
        # one generator, consecutive calls == recorded sequence replayed
        rng_a, rng_b = make_rng(99), make_rng(99)
        first = [by_name(rng=rng_a) for _ in range(3)]
        second = [getattr(reset_fs, name)(**copy.deepcopy(kwargs), rng=rng_b) for _ in range(3)]
        check(first == second, f'{name}: consecutive resets differ for {kwargs}')

# ---------------------------------------- 5. shipped configurations
# ------------------------------------------------------- configuration loader
# PyYAML may be missing (then `import yaml` finds the `yaml/` directory of the
# repository as a namespace package);  the shipped files only use block
# mappings, block sequences, flow sequences and plain scalars.


def _scalar(text):
    text = text.strip()
    if re.fullmatch(r'[-+]?\d+', text):
        return int(text)
    if re.fullmatch(r'[-+]?(\d+\.\d*|\.\d+|\d+)([eE][-+]?\d+)?', text):
        return float(text)
    if text in ('true', 'True', 'TRUE'):
        return True
    if text in ('false', 'False', 'FALSE'):
        return False
    if text in ('null', 'Null', 'NULL', '~', ''):
        return None
    if len(text) >= 2 and text[0] == text[-1] and text[0] in '\'"':
        return text[1:-1]
    return text


def _flow(text):
    tokens = re.findall(r'\[|\]|,|[^\[\],]+', text)
    tokens = [t.strip() for t in tokens if t.strip()]
    position = 0

    def parse():
        nonlocal position
        token = tokens[position]
        position += 1
        if token != '[':
            assert token not in (']', ','), text
            return _scalar(token)
        items = []
        while tokens[position] != ']':
            items.append(parse())
            if tokens[position] == ',':
                position += 1
        position += 1
        return items

    value = parse()
    assert position == len(tokens), text
    return value


def _value(text):
    return _flow(text) if text.lstrip().startswith('[') else _scalar(text)


_KEY = re.compile(r'^([A-Za-z_][\w]*):(?:\s+(.*))?$')


def mini_yaml_load(text):
    lines = []
    for raw in text.splitlines():
        raw = re.sub(r'(^|\s)#.*$', '', raw).rstrip()
        if raw.strip():
            assert '\t' not in raw
            lines.append([len(raw) - len(raw.lstrip()), raw.strip()])

    def block(i, indent):
        if lines[i][1].startswith('- '):
            return sequence(i, indent)
        if _KEY.match(lines[i][1]):
            return mapping(i, indent)
        return _value(lines[i][1]), i + 1

    def sequence(i, indent):
        items = []
        while i < len(lines) and lines[i][0] == indent and lines[i][1].startswith('- '):
            rest = lines[i][1][2:]
            inner = indent + 2 + (len(rest) - len(rest.lstrip()))
            lines[i] = [inner, rest.strip()]
            item, i = block(i, inner)
            items.append(item)
        return items, i

    def mapping(i, indent):
        items = {}
        while i < len(lines) and lines[i][0] == indent:
            match = _KEY.match(lines[i][1])
            assert match, lines[i]
            key, rest = match.group(1), match.group(2)
            assert key not in items, key
            if rest is not None and rest.strip():
                items[key] = _value(rest)
                i += 1
            elif i + 1 < len(lines) and (
                lines[i + 1][0] > indent
                or (lines[i + 1][0] == indent and lines[i + 1][1].startswith('- '))
            ):
                items[key], i = block(i + 1, lines[i + 1][0])
            else:
                items[key] = None
                i += 1
        return items, i

    value, i = block(0, lines[0][0])
    assert i == len(lines), lines[i:]
    return value


def load_configuration(path):
    with open(path) as f:
        text = f.read()
    try:
        import yaml

        return yaml.safe_load(text)
    except (ImportError, AttributeError):
        return mini_yaml_load(text)


RESET_KWARGS = {
    'keydoor': lambda d: {'shape': Shape(*d['shape'])},
    'rooms': lambda d: {'shape': Shape(*d['shape']), 'layout': tuple(d['layout'])},
    'crossing': lambda d: {
        'shape': Shape(*d['shape']),
        'num_rivers': d['num_rivers'],
        'object_type': {'Wall': Wall}[d['object_type']],
    },
    'memory_rooms': lambda d: {
        'shape': Shape(*d['shape']),
        'layout': tuple(d['layout']),
        'colors': {Color[c] for c in d['colors']},
        'num_beacons': d['num_beacons'],
        'num_exits': d['num_exits'],
    },
}

paths = sorted(
    glob.glob(os.path.join(ROOT, 'yaml', '*.yaml'))
    + glob.glob(os.path.join(ROOT, 'gym_gridverse', 'registered_envs', '*.yaml'))
)
n_checked = 0
for path in paths:
    name = os.path.relpath(path, ROOT)
    data = load_configuration(path)
    reset_name = data['reset_function']['name']
    if reset_name not in RESET_KWARGS:
        continue
    n_checked += 1

    before = copy.deepcopy(data)
    env1 = factory_env_from_data(data)
    env2 = factory_env_from_data(data)
    check(data == before, f'{name}: building changed the input data')

    kwargs = RESET_KWARGS[reset_name](data['reset_function'])
    by_hand = getattr(reset_fs, reset_name)
    from_data = factory_reset_function(copy.deepcopy(data['reset_function']))

    actions = env1.action_space.actions
    for seed in SEEDS[:5]:
        env1.set_seed(seed)
        env2.set_seed(seed)
        rng_hand = make_rng(seed)
        for episode in range(3):
            env1.reset()
            env2.reset()
            check(env1.state == env2.state, f'{name}: two builds differ, seed {seed}')
            if episode == 0:
                # the transition functions of these files may draw as well, so
                # only the first reset is comparable with a bare generator
                check(
                    env1.state == by_hand(**copy.deepcopy(kwargs), rng=rng_hand),
                    f'{name}: initial state differs from {reset_name}(...), seed {seed}',
                )
                check(
                    env1.state == from_data(rng=make_rng(seed)),
                    f'{name}: initial state differs from factory_reset_function, seed {seed}',
                )
            for i in range(8):
                action = actions[(seed + episode + 5 * i) % len(actions)]
                check(env1.step(action) == env2.step(action), f'{name}: steps differ')
                check(env1.state == env2.state, f'{name}: states differ after step')
                check(env1.observation == env2.observation, f'{name}: observations differ')
        # re-seeding reproduces
        env1.set_seed(seed)
        env1.reset()
        env2.set_seed(seed)
        env2.reset()
        check(env1.state == env2.state, f'{name}: re-seeding differs, seed {seed}')

check(n_checked >= 20, f'only {n_checked} configurations use the integer-drawing resets')

# ----------------------------------------------- 6. the helper itself

integer = getattr(gv_rng, 'integer', None)
if integer is not None:
    for low, high in [(0, 1), (1, 2), (-3, 4), (5, 6), (0, 2**40), (np.int64(2), np.int64(9)), (7, np.int64(8))]:
        for endpoint in (False, True):
            rng, rng_reference = make_rng(7), make_rng(7)
            drawn = [integer(rng, low, high, endpoint=endpoint) for _ in range(20)]
            reference = [rng_reference.integers(low, high, endpoint=endpoint) for _ in range(20)]
            check(drawn == reference, f'integer({low}, {high}, endpoint={endpoint}) values')
            check([type(x) for x in drawn] == [type(x) for x in reference], 'integer types')
            check(generator_state(rng) == generator_state(rng_reference), 'integer generator state')
        rng, rng_reference = make_rng(7), make_rng(7)
        check(
            [integer(rng, low, high) for _ in range(5)]
            == [rng_reference.integers(low, high) for _ in range(5)],
            'integer default endpoint',
        )
    for low, high, endpoint in [(1, 1, False), (2, 1, False), (2, 1, True), (0, -5, True)]:
        messages = []
        for draw in (
            lambda: integer(make_rng(0), low, high, endpoint=endpoint),
            lambda: make_rng(0).integers(low, high, endpoint=endpoint),
        ):
            try:
                draw()
                messages.append(None)
            except ValueError as error:
                messages.append(str(error))
        check(messages[0] == messages[1] and messages[0] is not None, f'empty range {low, high, endpoint}: {messages}')
    # a single-value range still consumes nothing surprising
    rng = make_rng(3)
    check(integer(rng, 4, 4, endpoint=True) == 4 and integer(rng, 4, 5) == 4, 'single value range')

if failures:
    print(f'{len(failures)} FAILURES')
    for failure in failures[:40]:
        print(' -', failure[:400])
    sys.exit(1)

print(f'OK: {len(recorded)} recorded scenarios, {n_checked} configurations, helper present: {integer is not None}')
