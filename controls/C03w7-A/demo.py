"""Demo / check program for commit A (vectorised ray counting).

Run as:  cd /tmp/wt7-C03 && /venv/bin/python -W ignore _seed/A/demo.py

Exercises the `raytracing` and `stochastic_raytracing` visibility functions
(directly, through the observation functions, and through
GridWorld.functional_observation) and compares every answer with an
independent re-implementation of the original python-loop algorithm contained
in this file.  Also checks purity (inputs are not modified), freshness of the
returned arrays, history independence (repeated calls, interleaved calls with
other geometries, second environments) and random-number consumption.
"""
import itertools as itt
import math
import os
import pickle
import sys

sys.path.insert(0, os.getcwd())

import numpy as np  # noqa: E402
import numpy.random as rnd  # noqa: E402

from gym_gridverse.action import Action  # noqa: E402
from gym_gridverse.agent import Agent  # noqa: E402
from gym_gridverse.debugging import reset_gv_debug  # noqa: E402
from gym_gridverse.envs import observation_functions as ofs  # noqa: E402
from gym_gridverse.envs import visibility_functions as vfs  # noqa: E402
from gym_gridverse.envs.gridworld import GridWorld  # noqa: E402
from gym_gridverse.geometry import (  # noqa: E402
    Area,
    Orientation,
    Position,
    Shape,
)
from gym_gridverse.grid import Grid  # noqa: E402
from gym_gridverse.grid_object import (  # noqa: E402
    Beacon,
    Box,
    Color,
    Door,
    Exit,
    Floor,
    Hidden,
    Key,
    MovingObstacle,
    Telepod,
    Wall,
)
from gym_gridverse.spaces import (  # noqa: E402
    ActionSpace,
    ObservationSpace,
    StateSpace,
)
from gym_gridverse.state import State  # noqa: E402

# ---------------------------------------------------------------------------
# independent reference implementation (python loops, no library caches)
# ---------------------------------------------------------------------------


def ref_ray(y0, x0, height, width, radians, step_size=0.01):
    dy = step_size * math.sin(radians)
    dx = step_size * math.cos(radians)
    ray, seen = [], set()
    for i in itt.count():
        y, x = round(float(y0) + i * dy), round(float(x0) + i * dx)
        if not (0 <= y <= height - 1 and 0 <= x <= width - 1):
            break
        if (y, x) not in seen:
            seen.add((y, x))
            ray.append((y, x))
    return ray


_ref_rays_memo = {}


def ref_rays(y0, x0, height, width):
    key = (y0, x0, height, width)
    if key not in _ref_rays_memo:
        ys = np.linspace(0, height, num=height + 1) - 0.5 - y0
        xs = np.linspace(0, width, num=width + 1) - 0.5 - x0
        yys, xxs = np.meshgrid(ys, xs)
        radians = np.sort(np.arctan2(yys, xxs), axis=None)
        _ref_rays_memo[key] = tuple(
            tuple(ref_ray(y0, x0, height, width, rad)) for rad in radians
        )
    return _ref_rays_memo[key]


def ref_counts(grid, y0, x0):
    height, width = grid.shape.height, grid.shape.width
    num = np.zeros((height, width), dtype=int)
    den = np.zeros((height, width), dtype=int)
    for ray in ref_rays(y0, x0, height, width):
        light = True
        for y, x in ray:
            num[y, x] += int(light)
            den[y, x] += 1
            light = light and not grid.objects[y][x].blocks_vision
    return num, den


def ref_raytracing(grid, y0, x0, absolute_counts=True, threshold=1):
    num, den = ref_counts(grid, y0, x0)
    return num >= threshold if absolute_counts else (num / den) >= threshold


def ref_stochastic_raytracing(grid, y0, x0, rng):
    num, den = ref_counts(grid, y0, x0)
    probs = np.nan_to_num(num / den)
    return rng.random(probs.shape) < probs


def ref_observation(state, area, visibility_f):
    """reference for observation_functions.from_visibility"""
    t = state.agent.transform
    pov_area = t * area
    h, w = state.grid.shape.height, state.grid.shape.width
    objects = [
        [
            state.grid.objects[y][x] if 0 <= y < h and 0 <= x < w else Hidden()
            for x in range(pov_area.xmin, pov_area.xmax + 1)
        ]
        for y in range(pov_area.ymin, pov_area.ymax + 1)
    ]
    orientation = state.agent.orientation
    if orientation is Orientation.R:
        objects = [list(row) for row in zip(*objects)][::-1]
    elif orientation is Orientation.L:
        objects = [list(row) for row in zip(*objects[::-1])]
    elif orientation is Orientation.B:
        objects = [row[::-1] for row in objects[::-1]]
    grid = Grid(objects)
    visibility = visibility_f(grid, -area.ymin, -area.xmin)
    return [
        [
            objects[y][x] if visibility[y, x] else None
            for x in range(len(objects[0]))
        ]
        for y in range(len(objects))
    ]


# ---------------------------------------------------------------------------
# data
# ---------------------------------------------------------------------------

COLORS = [Color.RED, Color.GREEN, Color.BLUE, Color.YELLOW]


def random_object(rng, depth=0):
    k = rng.integers(0, 14)
    color = COLORS[rng.integers(0, len(COLORS))]
    if k <= 3:
        return Floor()
    if k <= 6:
        return Wall()
    if k == 7:
        status = list(Door.Status)[rng.integers(0, 3)]
        return Door(status, color)
    if k == 8:
        return Key(color)
    if k == 9:
        return MovingObstacle()
    if k == 10:
        return Exit(color)
    if k == 11:
        return Telepod(color)
    if k == 12:
        return Beacon(color)
    if depth < 2:
        return Box(random_object(rng, depth + 1))
    return Box(Key(color))


def random_grid(rng, height, width, density=None):
    if density is None:
        return Grid(
            [[random_object(rng) for _ in range(width)] for _ in range(height)]
        )
    return Grid(
        [
            [
                Wall() if rng.random() < density else Floor()
                for _ in range(width)
            ]
            for _ in range(height)
        ]
    )


def snapshot(obj):
    """structural fingerprint, which (unlike ==) looks into box contents"""
    return pickle.dumps(obj)


def identities(grid):
    return [[id(obj) for obj in row] for row in grid.objects]


SHAPES = [
    (1, 1),
    (1, 2),
    (2, 1),
    (1, 6),
    (6, 1),
    (2, 2),
    (2, 5),
    (5, 2),
    (3, 3),
    (3, 7),
    (7, 3),
    (4, 6),
    (7, 7),
    (5, 9),
]

raytracing = vfs.visibility_function_registry['raytracing']
stochastic_raytracing = vfs.visibility_function_registry[
    'stochastic_raytracing'
]

n_checks = 0


def check_visibility(grid, position, *, note=''):
    """compares all variants of the visibility functions at one pose"""
    global n_checks
    y0, x0 = position.y, position.x
    before, ids = snapshot(grid), identities(grid)

    expected = ref_raytracing(grid, y0, x0)
    actual = raytracing(grid, position)
    assert actual.dtype == expected.dtype == np.dtype(bool), note
    assert actual.shape == (grid.shape.height, grid.shape.width), note
    assert np.array_equal(actual, expected), (note, grid, position)

    # returned arrays are fresh:  scribbling on them does not leak
    actual[...] = ~actual
    again = raytracing(grid, position)
    assert again is not actual
    assert np.array_equal(again, expected), note
    assert again.flags.writeable

    for threshold in (0, 1, 2, 3, 7, 1000, 0.5, 2.5, -1):
        e = ref_raytracing(grid, y0, x0, True, threshold)
        a = raytracing(grid, position, threshold=threshold)
        assert np.array_equal(a, e), (note, threshold)
    for threshold in (0.0, 0.1, 0.25, 0.5, 0.75, 1.0, 1, 1.5, -0.5):
        e = ref_raytracing(grid, y0, x0, False, threshold)
        a = raytracing(
            grid, position, absolute_counts=False, threshold=threshold
        )
        assert np.array_equal(a, e), (note, threshold)

    for seed in (0, 1, 12345):
        rng_a, rng_e = rnd.default_rng(seed), rnd.default_rng(seed)
        a = stochastic_raytracing(grid, position, rng=rng_a)
        e = ref_stochastic_raytracing(grid, y0, x0, rng_e)
        assert a.dtype == np.dtype(bool)
        assert np.array_equal(a, e), (note, seed)
        # same number (and kind) of random draws
        assert rng_a.bit_generator.state == rng_e.bit_generator.state, note
        # a cell which no lit ray reaches is never shown
        num, _ = ref_counts(grid, y0, x0)
        assert not a[num == 0].any()

    # the grid was only read
    assert snapshot(grid) == before, note
    assert identities(grid) == ids, note
    n_checks += 1


def test_visibility_functions():
    rng = rnd.default_rng(2024)

    # exhaustive over positions for all shapes, several contents
    for height, width in SHAPES:
        grids = [
            Grid.from_shape((height, width)),
            Grid.from_shape((height, width), factory=Wall),
            random_grid(rng, height, width),
            random_grid(rng, height, width, density=0.2),
            random_grid(rng, height, width, density=0.5),
        ]
        for grid in grids:
            for y in range(height):
                for x in range(width):
                    check_visibility(
                        grid, Position(y, x), note=f'{height}x{width}@{y},{x}'
                    )

    # many random grids at random poses (borders and corners included)
    for seed in range(60):
        rng = rnd.default_rng(seed)
        height, width = SHAPES[rng.integers(0, len(SHAPES))]
        grid = random_grid(rng, height, width)
        corners = [
            Position(0, 0),
            Position(0, width - 1),
            Position(height - 1, 0),
            Position(height - 1, width - 1),
            Position(rng.integers(0, height), rng.integers(0, width)),
        ]
        for position in corners:
            check_visibility(grid, position, note=f'seed {seed}')

    # position given as a plain position with numpy integers
    grid = random_grid(rnd.default_rng(5), 4, 5)
    check_visibility(grid, Position(np.int64(3), np.int64(2)))


def test_errors():
    """a source outside of the grid is rejected, on every call"""
    grid = Grid.from_shape((3, 4))
    for position in [
        Position(-1, 0),
        Position(0, -1),
        Position(3, 0),
        Position(0, 4),
        Position(7, 9),
    ]:
        for _ in range(2):
            for f in (raytracing, stochastic_raytracing):
                try:
                    f(grid, position, rng=rnd.default_rng(0))
                except ValueError:
                    pass
                else:
                    raise AssertionError(f'{f} accepted {position}')
    # and the failures did not disturb later answers
    check_visibility(grid, Position(2, 3))


def test_history_independence():
    """answers do not depend on what was asked before (cache histories)"""
    rng = rnd.default_rng(77)
    grid_a = random_grid(rng, 5, 7)
    grid_b = random_grid(rng, 5, 7)  # same geometry, other content
    grid_c = random_grid(rng, 7, 5)  # transposed geometry
    questions = [
        (grid, Position(y, x))
        for grid in (grid_a, grid_b, grid_c)
        for y in range(grid.shape.height)
        for x in range(grid.shape.width)
    ]
    first = [raytracing(g, p) for g, p in questions]
    # more than 128 distinct geometries in between, to roll over LRU caches
    for height, width in [(9, 9), (8, 10), (10, 8)]:
        big = Grid.from_shape((height, width))
        for y in range(height):
            for x in range(width):
                raytracing(big, Position(y, x))
    order = rnd.default_rng(3).permutation(len(questions))
    for i in order:
        g, p = questions[i]
        assert np.array_equal(raytracing(g, p), first[i])
        assert np.array_equal(first[i], ref_raytracing(g, p.y, p.x))

    # mutating the grid between calls is reflected (nothing about the grid
    # contents is remembered)
    grid = Grid.from_shape((5, 5))
    position = Position(4, 2)
    assert raytracing(grid, position).all()
    grid[3, 2] = Wall()
    grid[4, 1] = Door(Door.Status.CLOSED, Color.RED)
    check_visibility(grid, position)
    assert not raytracing(grid, position).all()
    grid[4, 1].state = Door.Status.OPEN
    check_visibility(grid, position)
    grid[3, 2] = Floor()
    assert raytracing(grid, position).all()


def make_env(state, area, observation_name):
    object_types = [
        Floor,
        Wall,
        Door,
        Key,
        MovingObstacle,
        Exit,
        Telepod,
        Beacon,
        Box,
    ]
    state_space = StateSpace(state.grid.shape, object_types, COLORS)
    observation_space = ObservationSpace(
        Shape(area.height, area.width), object_types, COLORS
    )
    return GridWorld(
        state_space,
        ActionSpace(list(Action)),
        observation_space,
        reset_function=lambda *, rng=None: pickle.loads(pickle.dumps(state)),
        transition_function=lambda s, a, *, rng=None: None,
        observation_function=ofs.factory(observation_name, area=area),
        reward_function=lambda s, a, ns, *, rng=None: 0.0,
        termination_function=lambda s, a, ns, *, rng=None: False,
    )


def check_observation(observation, state, area, visibility_f):
    expected = ref_observation(state, area, visibility_f)
    assert observation.grid.shape == Shape(area.height, area.width)
    for y, row in enumerate(expected):
        for x, obj in enumerate(row):
            actual = observation.grid.objects[y][x]
            if obj is None or type(obj) is Hidden:
                # not visible, or outside of the state grid
                assert type(actual) is Hidden
            else:
                # same aliasing as ever: visible cells are the state's objects
                assert actual is obj, (y, x, actual, obj)
    assert observation.agent.position == Position(-area.ymin, -area.xmin)
    assert observation.agent.orientation is Orientation.F
    assert observation.agent.grid_object is state.agent.grid_object


def test_observations():
    areas = [
        Area((-6, 0), (-3, 3)),
        Area((-3, 0), (-1, 1)),
        Area((-2, 2), (-2, 2)),
        Area((-1, 1), (0, 2)),
        Area((0, 0), (0, 0)),
        Area((-4, 1), (-3, 1)),
    ]
    n = 0
    for seed in range(40):
        rng = rnd.default_rng(1000 + seed)
        height, width = SHAPES[rng.integers(0, len(SHAPES))]
        grid = random_grid(rng, height, width)
        corners = [
            (0, 0),
            (0, width - 1),
            (height - 1, 0),
            (height - 1, width - 1),
            (rng.integers(0, height), rng.integers(0, width)),
        ]
        y, x = corners[seed % len(corners)]
        held = [None, Key(Color.RED), Box(Key(Color.BLUE))][seed % 3]
        for orientation in Orientation:
            state = State(
                grid, Agent(Position(int(y), int(x)), orientation, held)
            )
            before, ids = snapshot(state), identities(state.grid)
            state_hash = hash(state)
            copied = pickle.loads(before)
            for area in areas:
                # direct calls of the observation functions
                observation = ofs.raytracing(state, area=area)
                check_observation(
                    observation, state, area, lambda g, y, x: ref_raytracing(g, y, x)
                )
                rng_a, rng_e = rnd.default_rng(seed), rnd.default_rng(seed)
                observation = ofs.stochastic_raytracing(
                    state, area=area, rng=rng_a
                )
                check_observation(
                    observation,
                    state,
                    area,
                    lambda g, y, x: ref_stochastic_raytracing(g, y, x, rng_e),
                )
                assert rng_a.bit_generator.state == rng_e.bit_generator.state

                # through (two) environments, repeatedly
                if area.width % 2 == 1:
                    for name in ('raytracing', 'stochastic_raytracing'):
                        env1 = make_env(state, area, name)
                        env2 = make_env(state, area, name)
                        env1.set_seed(seed)
                        env2.set_seed(seed)
                        rng_e = rnd.default_rng(seed)
                        for env in (env1, env2, env1):
                            if env is env2:
                                rng_e = rnd.default_rng(seed)
                            observation = env.functional_observation(state)
                            check_observation(
                                observation,
                                state,
                                area,
                                (lambda g, y, x: ref_raytracing(g, y, x))
                                if name == 'raytracing'
                                else (
                                    lambda g, y, x: ref_stochastic_raytracing(
                                        g, y, x, rng_e
                                    )
                                ),
                            )
                        if name == 'raytracing':
                            o1 = env1.functional_observation(state)
                            o2 = env2.functional_observation(copied)
                            assert o1 == o2 and hash(o1) == hash(o2)
                            # changing an observation grid does not leak
                            o1.grid[0, 0] = Wall()
                            o3 = env1.functional_observation(state)
                            assert o3 == o2
                n += 1

            # the state was only read, and still equals / hashes like a copy
            assert snapshot(state) == before
            assert identities(state.grid) == ids
            assert state == copied and hash(state) == state_hash == hash(copied)
    return n


def main():
    reset_gv_debug(True)
    test_visibility_functions()
    test_errors()
    test_history_independence()
    n = test_observations()
    reset_gv_debug(False)
    test_observations()
    print(f'OK: {n_checks} visibility checks, {n} observation checks (x2)')


if __name__ == '__main__':
    main()
