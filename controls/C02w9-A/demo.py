#!/usr/bin/env python
"""Demo for change A (shared passage helper of the room-based reset functions).

Run from the worktree root:  /venv/bin/python _seed/A/demo.py

Exits 0 on the pristine tree and with the patch applied.  Checks

1. `rooms` / `memory_rooms` against reference implementations embedded below
   (verbatim pre-change logic): identical states AND identical generator
   state afterwards (i.e. the stream is consumed identically), identical
   exceptions on degenerate inputs;
2. property C02 on a set of environments built through the python API:
   same seed => same trace, re-seeding, debug flag on/off, interleaving of
   several live environments, no use / perturbation of global generators;
3. the same traces in fresh interpreters under several PYTHONHASHSEED values.
"""
import hashlib
import os
import random
import subprocess
import sys
import warnings

sys.path.insert(0, os.getcwd())
warnings.filterwarnings('ignore')

import numpy as np  # noqa: E402

import gym_gridverse.rng as gv_rng  # noqa: E402
from gym_gridverse.action import Action  # noqa: E402
from gym_gridverse.agent import Agent  # noqa: E402
from gym_gridverse.debugging import reset_gv_debug  # noqa: E402
from gym_gridverse.design import draw_room_grid  # noqa: E402
from gym_gridverse.envs import observation_functions as observation_fs
from gym_gridverse.envs import reset_functions as reset_fs
from gym_gridverse.envs import reward_functions as reward_fs
from gym_gridverse.envs import terminating_functions as terminating_fs
from gym_gridverse.envs import transition_functions as transition_fs
from gym_gridverse.envs.gridworld import GridWorld  # noqa: E402
from gym_gridverse.geometry import (  # noqa: E402
    Area,
    Orientation,
    Shape,
    distance_function_factory,
)
from gym_gridverse.grid import Grid  # noqa: E402
from gym_gridverse.grid_object import (  # noqa: E402
    Beacon,
    Box,
    Color,
    Door,
    Exit,
    Floor,
    Key,
    MovingObstacle,
    Telepod,
    Wall,
)
from gym_gridverse.spaces import (  # noqa: E402
    ActionSpace,
    ObservationSpace,
    StateSpace,
)
from gym_gridverse.state import State  # noqa: E402

ALL_OBJECTS = [Wall, Floor, Exit, Door, Key, MovingObstacle, Box, Telepod, Beacon]
ALL_COLORS = list(Color)
RGBY = {Color.RED, Color.GREEN, Color.BLUE, Color.YELLOW}


def check(condition, message):
    if not condition:
        print('FAIL:', message)
        sys.exit(1)


# --------------------------------------------------------------------------
# reference implementations (pre-change logic, self-contained)
# --------------------------------------------------------------------------


def ref_choice(rng, data):
    return data[rng.choice(len(data))]


def ref_choices(rng, data, *, size, **kwargs):
    return [data[i] for i in rng.choice(len(data), size=size, **kwargs)]


def ref_room_grid(shape, layout, rng, names):
    layout_height, layout_width = layout

    y_splits = np.linspace(0, shape.height - 1, num=layout_height + 1, dtype=int)
    if len(y_splits) != len(set(y_splits)):
        raise ValueError(
            f'insufficient {names[0]} ({shape.height}) for layout ({layout})'
        )

    x_splits = np.linspace(0, shape.width - 1, num=layout_width + 1, dtype=int)
    if len(x_splits) != len(set(x_splits)):
        raise ValueError(
            f'insufficient {names[1]} ({shape.width}) for layout ({layout})'
        )

    grid = Grid.from_shape((shape.height, shape.width))
    draw_room_grid(grid, y_splits, x_splits, Wall)

    # passages in horizontal walls
    for y in y_splits[1:-1]:
        for x_from, x_to in zip(x_splits, x_splits[1:]):
            x = rng.integers(x_from + 1, x_to)
            grid[y, x] = Floor()

    # passages in vertical walls
    for y_from, y_to in zip(y_splits, y_splits[1:]):
        for x in x_splits[1:-1]:
            y = rng.integers(y_from + 1, y_to)
            grid[y, x] = Floor()

    return grid


def ref_rooms(shape, layout, *, rng):
    grid = ref_room_grid(shape, layout, rng, ('height', 'width'))
    positions = [
        position
        for position in grid.area.positions()
        if isinstance(grid[position], Floor)
    ]
    agent_position, exit_position = ref_choices(
        rng, positions, size=2, replace=False
    )
    agent_orientation = ref_choice(rng, list(Orientation))
    grid[exit_position] = Exit()
    return State(grid, Agent(agent_position, agent_orientation))


def ref_memory_rooms(shape, layout, colors, num_beacons, num_exits, *, rng):
    if Color.NONE in colors:
        raise ValueError(f'colors ({colors}) must not include NONE')
    if len(colors) < 2:
        raise ValueError(f'colors ({colors}) must have at least 2 colors')
    if num_beacons < 1:
        raise ValueError(f'num_beacons ({num_beacons}) must be positive')
    if num_exits < 2:
        raise ValueError(f'num_exits ({num_exits}) must be >= 2')

    grid = ref_room_grid(shape, layout, rng, ('shape.height', 'shape.width'))
    positions = [
        position
        for position in grid.area.positions()
        if isinstance(grid[position], Floor)
    ]
    positions = ref_choices(
        rng, positions, size=1 + num_beacons + num_exits, replace=False
    )
    agent = Agent(positions[0], ref_choice(rng, list(Orientation)))

    sorted_colors = sorted(colors, key=lambda color: color.value)
    sample_colors = ref_choices(rng, sorted_colors, size=num_exits, replace=False)

    for beacon_position in positions[1 : 1 + num_beacons]:
        grid[beacon_position] = Beacon(sample_colors[0])
    for exit_position, exit_color in zip(
        positions[1 + num_beacons :], sample_colors
    ):
        grid[exit_position] = Exit(exit_color)

    return State(grid, agent)


def outcome(function, seed):
    """(state or exception description, generator state afterwards)"""
    rng = np.random.default_rng(seed)
    try:
        result = function(rng=rng)
    except Exception as error:  # pylint: disable=broad-except
        result = (type(error).__name__, str(error))
    return result, rng.bit_generator.state


def check_against_reference():
    shapes_layouts = [
        (Shape(7, 7), (2, 2)),
        (Shape(9, 9), (2, 2)),
        (Shape(10, 10), (3, 3)),
        (Shape(13, 13), (3, 3)),
        (Shape(5, 5), (2, 2)),  # rooms of a single cell
        (Shape(5, 9), (2, 4)),  # non-square, single-cell rooms
        (Shape(9, 13), (2, 3)),  # non-square
        (Shape(13, 7), (3, 1)),  # no vertical walls
        (Shape(6, 15), (1, 4)),  # no horizontal walls
        (Shape(3, 4), (1, 1)),  # single room, two floor cells
        (Shape(8, 8), (1, 1)),  # single room: no passage draws at all
        (Shape(3, 3), (1, 1)),  # single floor cell: sampling fails
        (Shape(4, 7), (2, 2)),  # empty room: integers(low == high) fails
        (Shape(7, 4), (2, 2)),
        (Shape(3, 7), (3, 2)),  # insufficient height
        (Shape(7, 3), (2, 3)),  # insufficient width
        (Shape(11, 6), (5, 1)),
    ]
    count = 0
    for shape, layout in shapes_layouts:
        for seed in range(12):
            got = outcome(
                lambda rng: reset_fs.rooms(shape, layout, rng=rng), seed
            )
            want = outcome(lambda rng: ref_rooms(shape, layout, rng=rng), seed)
            check(got == want, f'rooms {shape} {layout} seed {seed}')
            count += 1

            for colors, num_beacons, num_exits in [
                (RGBY, 1, 2),
                ({Color.BLUE, Color.RED}, 2, 2),
                (RGBY, 3, 4),
                (RGBY, 1, 5),  # more exits than colors: sampling fails
                ({Color.RED}, 1, 2),  # too few colors
                ({Color.NONE, Color.RED}, 1, 2),  # NONE is rejected
                (RGBY, 0, 2),
                (RGBY, 1, 1),
            ]:
                got = outcome(
                    lambda rng: reset_fs.memory_rooms(
                        shape, layout, colors, num_beacons, num_exits, rng=rng
                    ),
                    seed,
                )
                want = outcome(
                    lambda rng: ref_memory_rooms(
                        shape, layout, colors, num_beacons, num_exits, rng=rng
                    ),
                    seed,
                )
                check(
                    got == want,
                    f'memory_rooms {shape} {layout} {colors} {num_beacons} '
                    f'{num_exits} seed {seed}: {got[0]} != {want[0]}',
                )
                count += 1

    # through the factory (how configurations build them), repeated calls on
    # one generator: the second state continues the same stream
    function = reset_fs.factory('rooms', shape=Shape(9, 13), layout=(2, 3))
    rng_a, rng_b = np.random.default_rng(5), np.random.default_rng(5)
    for _ in range(4):
        check(
            function(rng=rng_a) == ref_rooms(Shape(9, 13), (2, 3), rng=rng_b),
            'repeated rooms resets on one generator',
        )
    check(
        rng_a.bit_generator.state == rng_b.bit_generator.state,
        'generator state after repeated resets',
    )
    return count


# --------------------------------------------------------------------------
# environments (python API only;  mirrors the shipped configurations)
# --------------------------------------------------------------------------

MOVES = [
    Action.MOVE_FORWARD,
    Action.MOVE_BACKWARD,
    Action.MOVE_LEFT,
    Action.MOVE_RIGHT,
    Action.TURN_LEFT,
    Action.TURN_RIGHT,
]


def make_env(
    shape,
    reset,
    transitions,
    rewards,
    terminatings,
    *,
    observation='partially_occluded',
    area=Area((-6, 0), (-3, 3)),
    actions=None,
):
    reset_name, reset_kwargs = reset
    reset_function = reset_fs.factory(reset_name, shape=shape, **reset_kwargs)
    transition_function = transition_fs.factory(
        'chain',
        transition_functions=[transition_fs.factory(n) for n in transitions],
    )
    reward_function = reward_fs.factory(
        'reduce_sum',
        reward_functions=[reward_fs.factory(n, **kw) for n, kw in rewards],
    )
    terminating_function = terminating_fs.factory(
        'reduce_any',
        terminating_functions=[terminating_fs.factory(n) for n in terminatings],
    )
    observation_function = observation_fs.factory(observation, area=area)
    return GridWorld(
        StateSpace(shape, ALL_OBJECTS, ALL_COLORS),
        ActionSpace(list(Action) if actions is None else actions),
        ObservationSpace(Shape(area.height, area.width), ALL_OBJECTS, ALL_COLORS),
        reset_function,
        transition_function,
        observation_function,
        reward_function,
        terminating_function,
    )


def closer():
    return (
        'getting_closer',
        dict(
            distance_function=distance_function_factory('manhattan'),
            object_type=Exit,
            reward_closer=0.2,
            reward_further=-0.2,
        ),
    )


REACH = ('reach_exit', dict(reward_on=5.0, reward_off=0.0))
LIVING = ('living_reward', dict(reward=-0.05))
MEMORY = ('reach_exit_memory', dict(reward_good=5.0, reward_bad=-5.0))

ENVS = {
    'four_rooms.7x7': lambda: make_env(
        Shape(7, 7),
        ('rooms', dict(layout=(2, 2))),
        ['move_agent', 'turn_agent'],
        [REACH, closer(), LIVING],
        ['reach_exit'],
        actions=MOVES,
    ),
    'nine_rooms.10x10': lambda: make_env(
        Shape(10, 10),
        ('rooms', dict(layout=(3, 3))),
        ['move_agent', 'turn_agent'],
        [REACH, closer(), LIVING],
        ['reach_exit'],
        actions=MOVES,
    ),
    'nine_rooms.13x13': lambda: make_env(
        Shape(13, 13),
        ('rooms', dict(layout=(3, 3))),
        ['move_agent', 'turn_agent'],
        [REACH, closer(), LIVING],
        ['reach_exit'],
        actions=MOVES,
    ),
    'rooms.9x13.raytracing': lambda: make_env(
        Shape(9, 13),
        ('rooms', dict(layout=(2, 3))),
        ['move_agent', 'turn_agent'],
        [REACH, closer(), LIVING],
        ['reach_exit'],
        observation='raytracing',
        area=Area((-4, 1), (-2, 2)),
    ),
    'rooms.5x9.stochastic': lambda: make_env(
        Shape(5, 9),
        ('rooms', dict(layout=(2, 4))),
        ['move_agent', 'turn_agent'],
        [REACH, LIVING],
        ['reach_exit'],
        observation='stochastic_raytracing',
        area=Area((-2, 2), (-1, 1)),
    ),
    'memory_four_rooms.7x7': lambda: make_env(
        Shape(7, 7),
        ('memory_rooms', dict(layout=(2, 2), colors=set(RGBY), num_beacons=1, num_exits=2)),
        ['move_agent', 'turn_agent'],
        [MEMORY, LIVING],
        ['reach_exit'],
        actions=MOVES,
    ),
    'memory_nine_rooms.13x13': lambda: make_env(
        Shape(13, 13),
        ('memory_rooms', dict(layout=(3, 3), colors=set(RGBY), num_beacons=1, num_exits=2)),
        ['move_agent', 'turn_agent'],
        [MEMORY, LIVING],
        ['reach_exit'],
        actions=MOVES,
    ),
    'memory_rooms.9x11.stochastic': lambda: make_env(
        Shape(9, 11),
        ('memory_rooms', dict(layout=(2, 3), colors=set(RGBY), num_beacons=2, num_exits=4)),
        ['move_agent', 'turn_agent'],
        [MEMORY, LIVING],
        ['reach_exit'],
        observation='stochastic_raytracing',
        area=Area((-3, 0), (-3, 3)),
    ),
    'dynamic_obstacles.7x7': lambda: make_env(
        Shape(7, 7),
        ('dynamic_obstacles', dict(num_obstacles=2, random_agent=False)),
        ['move_agent', 'turn_agent', 'move_obstacles'],
        [
            REACH,
            ('bump_moving_obstacle', dict(reward=-1.0)),
            ('bump_into_wall', dict(reward=-1.0)),
            closer(),
            LIVING,
        ],
        ['reach_exit', 'bump_moving_obstacle', 'bump_into_wall'],
        actions=MOVES,
    ),
    'teleport.7x7': lambda: make_env(
        Shape(7, 7),
        ('teleport', dict()),
        ['move_agent', 'turn_agent', 'teleport'],
        [REACH, closer(), LIVING],
        ['reach_exit'],
        actions=MOVES,
    ),
    'keydoor.7x7': lambda: make_env(
        Shape(7, 7),
        ('keydoor', dict()),
        ['move_agent', 'turn_agent', 'actuate_door', 'pickndrop'],
        [REACH, closer(), LIVING],
        ['reach_exit'],
    ),
    'crossing.7x9': lambda: make_env(
        Shape(7, 9),
        ('crossing', dict(num_rivers=3, object_type=Wall)),
        ['move_agent', 'turn_agent'],
        [REACH, closer(), LIVING],
        ['reach_exit'],
        actions=MOVES,
    ),
}


def canon_object(obj):
    return (type(obj).__name__, int(obj.state_index), obj.color.name)


def canon(thing):
    """hash-independent description of a state or observation"""
    grid = tuple(
        tuple(canon_object(thing.grid[y, x]) for x in range(thing.grid.shape.width))
        for y in range(thing.grid.shape.height)
    )
    agent = (
        thing.agent.position.yx,
        thing.agent.orientation.name,
        canon_object(thing.agent.grid_object),
    )
    return grid, agent


def action_sequence(env, key, length):
    actions = list(env.action_space.actions)
    source = random.Random(key)  # private to the demo
    return [actions[source.randrange(len(actions))] for _ in range(length)]


def trace_steps(env, seed, actions, *, reseed=True):
    """generator: yields one trace item per environment operation"""
    for _ in range(2 if reseed else 1):
        env.set_seed(seed)
        for _ in range(2):
            env.reset()
            yield ('reset', canon(env.state), canon(env.observation))
            for action in actions:
                state_before = canon(env.state)
                reward, done = env.step(action)
                # the functional interface must not have touched its input
                yield (
                    action.name,
                    state_before,
                    canon(env.state),
                    canon(env.observation),
                    canon(env.observation),  # memoised
                    repr(float(reward)),
                    bool(done),
                )
                if done:
                    env.reset()
                    yield ('reset', canon(env.state), canon(env.observation))


def trace(env, seed, actions):
    return list(trace_steps(env, seed, actions))


def all_traces(seeds, length):
    out = {}
    for name in sorted(ENVS):
        for seed in seeds:
            env = ENVS[name]()
            out[name, seed] = trace(env, seed, action_sequence(env, f'{name}/{seed}', length))
    return out


def digest(traces):
    return hashlib.sha256(repr(sorted(traces.items())).encode()).hexdigest()


class Poison:
    """stands in for the library-level generator: any use is an error"""

    def __getattr__(self, name):
        raise AssertionError(f'library-level generator used ({name})')


def global_snapshot():
    state = np.random.get_state()
    return (
        state[0],
        state[1].tobytes(),
        state[2:],
        random.getstate(),
    )


def check_property():
    seeds = [0, 1, 7, 2**32 + 5]
    length = 25

    # any draw from the library-level generator raises
    poison = Poison()
    gv_rng._gv_rng = poison
    np.random.seed(1234)
    random.seed(1234)
    before = global_snapshot()

    reset_gv_debug(True)
    traces = all_traces(seeds, length)

    # 1. same configuration, same seed, fresh environment => same trace;
    #    a re-seeded environment restarts the same trace
    for (name, seed), expected in traces.items():
        env = ENVS[name]()
        actions = action_sequence(env, f'{name}/{seed}', length)
        check(trace(env, seed, actions) == expected, f'repeat {name} {seed}')
        half = len(expected) // 2
        check(expected[:half] == expected[half:], f're-seeding {name} {seed}')
        # a used environment, seeded again, also restarts
        check(trace(env, seed, actions) == expected, f'reuse {name} {seed}')

    # different seeds do differ (the traces are not trivially constant)
    for name in ENVS:
        check(
            len({repr(traces[name, seed]) for seed in seeds}) > 1,
            f'seed has no effect on {name}',
        )

    # 2. debug flag off: same traces
    reset_gv_debug(False)
    check(all_traces(seeds, length) == traces, 'debug flag changes traces')
    reset_gv_debug(True)

    # 3. interleaving: several live environments advanced in arbitrary order
    for round_ in range(6):
        scheduler = random.Random(f'schedule-{round_}')
        runners = {}
        for index, name in enumerate(sorted(ENVS)):
            seed = seeds[(index + round_) % len(seeds)]
            env = ENVS[name]()
            actions = action_sequence(env, f'{name}/{seed}', length)
            runners[name, seed, 'a'] = (trace_steps(env, seed, actions), [])
            # a twin with the same seed alive at the same time
            twin = ENVS[name]()
            runners[name, seed, 'b'] = (trace_steps(twin, seed, actions), [])
        live = sorted(runners)
        while live:
            key = live[scheduler.randrange(len(live))]
            steps, collected = runners[key]
            try:
                collected.append(next(steps))
            except StopIteration:
                live.remove(key)
        for (name, seed, _), (_, collected) in runners.items():
            check(collected == traces[name, seed], f'interleaving {name} {seed}')

    # 4. no global generator was used or perturbed
    check(gv_rng._gv_rng is poison, 'library-level generator replaced')
    check(global_snapshot() == before, 'global generators perturbed')
    gv_rng._gv_rng = None

    return traces


def main():
    if sys.argv[1:] == ['--digest']:
        print(digest(all_traces([0, 3], 15)))
        return

    count = check_against_reference()
    print(f'reference: {count} reset outcomes identical (state + stream)')

    traces = check_property()
    print(f'property: {len(traces)} (environment, seed) traces reproducible')

    # 5. other interpreter processes, whatever the hash randomisation
    expected = digest(all_traces([0, 3], 15))
    for hashseed in ['0', '1', '4242', 'random']:
        result = subprocess.run(
            [sys.executable, os.path.abspath(__file__), '--digest'],
            env={**os.environ, 'PYTHONHASHSEED': hashseed},
            cwd=os.getcwd(),
            capture_output=True,
            text=True,
            check=False,
        )
        check(result.returncode == 0, f'subprocess failed: {result.stderr[-500:]}')
        got = result.stdout.strip().splitlines()[-1]
        check(got == expected, f'PYTHONHASHSEED={hashseed}: digest differs')
    print('processes: digests identical under 4 PYTHONHASHSEED values')
    print('OK')


if __name__ == '__main__':
    main()
