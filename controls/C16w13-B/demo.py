"""Demo for C16 (faithful numeric representations).

Runs both on the pristine tree and with the change applied.  All expectations
come from reference implementations embedded in this file (written from the
documented behaviour of the three encodings), never from the library functions
under test.

Run from the worktree root:  /venv/bin/python _seed/B/demo.py
"""
import copy
import itertools as itt
import os
import random
import sys

sys.path.insert(0, os.getcwd())

import numpy as np  # noqa: E402

from gym_gridverse.agent import Agent  # noqa: E402
from gym_gridverse.envs import observation_functions as obs_fs  # noqa: E402
from gym_gridverse.envs import reset_functions as reset_fs  # noqa: E402
from gym_gridverse.geometry import (  # noqa: E402
    Area,
    Orientation,
    Position,
    Shape,
)
from gym_gridverse.grid import Grid  # noqa: E402
from gym_gridverse.grid_object import (  # noqa: E402
    Beacon,
    Box,
    Color,
    Door,
    Exit,
    Floor,
    Hidden,
    Key,
    MovingObstacle,
    NoneGridObject,
    Telepod,
    Wall,
    grid_object_registry,
)
from gym_gridverse.observation import Observation  # noqa: E402
from gym_gridverse.representations import representation as R  # noqa: E402
from gym_gridverse.representations.observation_representations import (  # noqa: E402
    make_observation_representation,
)
from gym_gridverse.representations.spaces import SpaceType  # noqa: E402
from gym_gridverse.representations.state_representations import (  # noqa: E402
    make_state_representation,
)
from gym_gridverse.rng import make_rng, reset_gv_rng  # noqa: E402
from gym_gridverse.spaces import ObservationSpace, StateSpace  # noqa: E402
from gym_gridverse.state import State  # noqa: E402

NAMES = ['default', 'no-overlap', 'compact']
CHECKS = 0


def check(condition, message):
    global CHECKS
    CHECKS += 1
    if not condition:
        print('FAIL:', message)
        sys.exit(1)


# --------------------------------------------------------------------------
# enumeration of the objects of a space
# --------------------------------------------------------------------------

STATE_TYPES = [Floor, Wall, Exit, Door, Key, MovingObstacle, Telepod, Beacon]
OBS_ONLY_TYPES = [Box]
COLORS = [Color.RED, Color.GREEN, Color.BLUE, Color.YELLOW]  # NONE is implied


def tidx(object_type):
    """type index, read off the registry (a plain list) directly"""
    return list(grid_object_registry).index(object_type)


def instances(object_type, colors):
    """all instances of a type whose colour lies in `colors` (which has NONE)"""
    colors = sorted(colors, key=lambda c: c.value)
    if object_type in (Floor, Wall, MovingObstacle, NoneGridObject, Hidden):
        return [object_type()]
    if object_type in (Exit, Key, Telepod, Beacon):
        return [object_type(c) for c in colors]
    if object_type is Door:
        return [Door(s, c) for s in Door.Status for c in colors]
    if object_type is Box:
        return [Box(Floor()), Box(Key(Color.RED)), Box(Wall())]
    raise AssertionError(object_type)


def triple(obj):
    return (tidx(type(obj)), obj.state_index, obj.color.value)


# --------------------------------------------------------------------------
# reference encodings
# --------------------------------------------------------------------------


def ref_default(types, colors):
    mt = max(tidx(t) for t in types)
    ms = max(t.num_states() for t in types)
    mc = max(c.value for c in colors)
    return (lambda o: list(triple(o))), [mt, ms, mc]


def ref_no_overlap(types, colors):
    mt = max(tidx(t) for t in types)
    ms = max(t.num_states() for t in types)
    mc = max(c.value for c in colors)

    def convert(o):
        i, j, k = triple(o)
        return [i, mt + 1 + j, mt + ms + 2 + k]

    return convert, [mt, mt + ms + 1, mt + ms + mc + 2]


def ref_compact(types, colors):
    types = sorted(types, key=tidx)
    colors = sorted(colors, key=lambda c: c.value)
    counter = itt.count()
    tmap = {tidx(t): next(counter) for t in types}
    smap = {
        (tidx(t), j): next(counter)
        for t in types
        for j in range(t.num_states())
    }
    cmap = {c.value: next(counter) for c in colors}

    def convert(o):
        i, j, k = triple(o)
        return [tmap[i], smap[i, j], cmap[k]]

    upper = [max(tmap.values()), max(smap.values()), max(cmap.values())]
    return convert, upper, (tmap, smap, cmap)


REFS = {
    'default': ref_default,
    'no-overlap': ref_no_overlap,
    'compact': ref_compact,
}


# --------------------------------------------------------------------------
# 1. per-object encoding, exhaustively over spaces and objects
# --------------------------------------------------------------------------


def grid_object_representations(space, kind):
    """name -> grid-object representation of a state/observation space"""
    make = (
        make_state_representation
        if kind == 'state'
        else make_observation_representation
    )
    return {
        name: make(name, space).representations['grid'].grid_object_representation
        for name in NAMES
    }


def check_object_encodings(kind, object_types, colors, shape):
    if kind == 'state':
        space = StateSpace(shape, object_types, colors)
        extra = [NoneGridObject]
    else:
        space = ObservationSpace(shape, object_types, colors)
        extra = [NoneGridObject, Hidden]

    all_types = list(dict.fromkeys(list(object_types) + extra))
    all_colors = set(colors) | {Color.NONE}
    objects = [o for t in all_types for o in instances(t, all_colors)]
    reps = grid_object_representations(space, kind)
    label = f'{kind} {[t.__name__ for t in object_types]} {sorted(c.name for c in colors)}'

    for name in NAMES:
        rep = reps[name]
        ref = REFS[name](all_types, all_colors)
        ref_convert, ref_upper = ref[0], ref[1]

        sp = rep.space
        check(sp.space_type is SpaceType.CATEGORICAL, f'{label} {name} type')
        check(sp.lower_bound.tolist() == [0, 0, 0], f'{label} {name} lower')
        check(
            sp.upper_bound.tolist() == ref_upper,
            f'{label} {name} upper {sp.upper_bound.tolist()} != {ref_upper}',
        )
        check(
            np.issubdtype(sp.upper_bound.dtype, np.integer)
            and sp.upper_bound.shape == (3,),
            f'{label} {name} upper dtype/shape',
        )
        # repeated calls give equal, independent spaces
        sp2 = rep.space
        check(sp == sp2, f'{label} {name} space repeat')

        encodings = []
        for o in objects:
            array = rep.convert(o)
            check(
                isinstance(array, np.ndarray)
                and array.shape == (3,)
                and np.issubdtype(array.dtype, np.integer),
                f'{label} {name} {o!r} array kind',
            )
            check(
                array.tolist() == ref_convert(o),
                f'{label} {name} {o!r}: {array.tolist()} != {ref_convert(o)}',
            )
            check(sp.contains(array), f'{label} {name} {o!r} not in space')
            # repeated call: same value, fresh array (no aliasing of a cache)
            again = rep.convert(o)
            check(np.array_equal(array, again), f'{label} {name} repeat')
            array[0] += 100
            check(
                rep.convert(o).tolist() == ref_convert(o),
                f'{label} {name} {o!r}: result aliases internal storage',
            )
            array[0] -= 100
            encodings.append(array.tolist())

        # lossless on objects: equal encodings iff equal objects (and hashes)
        for (o1, e1), (o2, e2) in itt.combinations(zip(objects, encodings), 2):
            check((o1 == o2) == (e1 == e2), f'{label} {name} {o1!r} {o2!r}')
            if o1 == o2:
                check(hash(o1) == hash(o2), f'{label} hash {o1!r} {o2!r}')

        channels = [set(e[c] for e in encodings) for c in range(3)]
        if name == 'default':
            for o, e in zip(objects, encodings):
                check(tuple(e) == triple(o), f'{label} default triple {o!r}')
        else:
            # well separated: the *ranges* of the three channels are disjoint
            upper = sp.upper_bound.tolist()
            ranges = [
                set(range(0, upper[0] + 1)),
                set(range(upper[0] + 1, upper[1] + 1)),
                set(range(upper[1] + 1, upper[2] + 1)),
            ]
            for c in range(3):
                check(channels[c] <= ranges[c], f'{label} {name} channel {c}')
            check(
                not (channels[0] & channels[1])
                and not (channels[0] & channels[2])
                and not (channels[1] & channels[2]),
                f'{label} {name} overlap',
            )
        if name == 'compact':
            tmap, smap, cmap = ref[2]
            used = set(tmap.values()) | set(smap.values()) | set(cmap.values())
            check(
                used == set(range(len(used)))
                and max(used) == sp.upper_bound[2],
                f'{label} compact gaps',
            )
            # every value used by an object of the space is one of those
            check(set().union(*channels) <= used, f'{label} compact values')
            # tables held by the representation: -1 outside, consecutive inside
            tables = np.concatenate(
                [
                    rep._grid_object_type_map.ravel(),
                    rep._grid_object_status_map.ravel(),
                    rep._grid_object_color_map.ravel(),
                ]
            )
            inside = sorted(v for v in tables.tolist() if v >= 0)
            check(inside == list(range(len(used))), f'{label} compact tables')


def part_1():
    shape = Shape(3, 5)
    # all colour subsets x all type subsets of size <= 2, plus large subsets
    color_subsets = [
        list(cs) for n in range(len(COLORS) + 1) for cs in itt.combinations(COLORS, n)
    ]
    for kind, pool in [
        ('state', STATE_TYPES),
        ('observation', STATE_TYPES + OBS_ONLY_TYPES),
    ]:
        type_subsets = [
            list(ts) for n in (1, 2) for ts in itt.combinations(pool, n)
        ]
        type_subsets += [list(pool), list(reversed(pool)), pool[::2], pool[1::2]]
        type_subsets += [[Door, Door, Key]]  # repeated entries are legal
        if kind == 'observation':
            type_subsets += [[]]  # only Hidden / NoneGridObject
        for ts in type_subsets:
            for cs in color_subsets:
                check_object_encodings(kind, ts, cs, shape)
        # colours given with repetitions and with NONE spelled out
        check_object_encodings(
            kind, [Door, Key], [Color.NONE, Color.BLUE, Color.BLUE], shape
        )


# --------------------------------------------------------------------------
# 2. the module-level functions, called directly (sets, frozensets, lists)
# --------------------------------------------------------------------------


def part_2():
    cases = [
        ({NoneGridObject}, {Color.NONE}),
        ({NoneGridObject, Hidden}, {Color.NONE}),
        ({NoneGridObject, Floor, Wall, Door}, {Color.NONE, Color.YELLOW}),
        ({NoneGridObject, Hidden, Beacon, Box}, {Color.NONE, Color.RED}),
        (set(STATE_TYPES) | {NoneGridObject}, set(Color)),
        ({Door}, {Color.GREEN}),  # no NONE, single type with 3 states
    ]
    for types, colors in cases:
        for container in (set, frozenset, list, tuple):
            ts, cs = container(types), container(colors)
            objects = [o for t in types for o in instances(t, colors)]

            convert, upper = ref_default(types, colors)
            sp = R.default_grid_object_representation_space(ts, cs)
            check(sp.upper_bound.tolist() == upper, 'direct default space')
            check(sp.lower_bound.tolist() == [0, 0, 0], 'direct default lower')
            for o in objects:
                got = R.default_grid_object_representation_convert(o)
                check(got.tolist() == convert(o), 'direct default convert')

            convert, upper = ref_no_overlap(types, colors)
            sp = R.no_overlap_grid_object_representation_space(ts, cs)
            check(sp.space_type is SpaceType.CATEGORICAL, 'direct n-o type')
            check(sp.upper_bound.tolist() == upper, 'direct no-overlap space')
            check(sp.lower_bound.tolist() == [0, 0, 0], 'direct n-o lower')
            check(sp.upper_bound.dtype == np.array([1]).dtype, 'n-o dtype')
            for o in objects:
                got = R.no_overlap_grid_object_representation_convert(ts, cs, o)
                check(got.tolist() == convert(o), 'direct no-overlap convert')
                check(got.dtype == np.array([1]).dtype, 'n-o convert dtype')
                check(got.shape == (3,), 'n-o convert shape')
                check(sp.contains(got), 'direct n-o contained')

    # several representations of different spaces alive at once, converted in
    # an interleaved fashion (nothing may be shared between instances), also
    # when further grid-object types get registered in between
    spaces = [
        StateSpace(Shape(3, 4), [Floor], []),
        StateSpace(Shape(3, 4), [Floor, Door], [Color.RED]),
        StateSpace(Shape(3, 4), list(reversed(STATE_TYPES)), COLORS),
        ObservationSpace(Shape(3, 3), [Floor], []),
        ObservationSpace(Shape(3, 3), STATE_TYPES + OBS_ONLY_TYPES, COLORS),
    ]
    reps = [
        (
            sp,
            grid_object_representations(
                sp, 'state' if isinstance(sp, StateSpace) else 'observation'
            ),
        )
        for sp in spaces
    ]

    def sweep(tag):
        for _ in range(2):
            for sp, by_name in reversed(reps):
                extra = (
                    [NoneGridObject]
                    if isinstance(sp, StateSpace)
                    else [NoneGridObject, Hidden]
                )
                types = list(dict.fromkeys(sp.object_types + extra))
                for name in NAMES:
                    ref = REFS[name](types, sp.colors)
                    for o in [o for t in types for o in instances(t, sp.colors)]:
                        check(
                            by_name[name].convert(o).tolist() == ref[0](o),
                            f'interleaved {tag} {name} {o!r}',
                        )
                    check(
                        by_name[name].space.upper_bound.tolist() == ref[1],
                        f'interleaved {tag} {name} space',
                    )

    sweep('before')
    from gym_gridverse.grid_object import GridObject

    class DemoLamp(GridObject):  # registered at the end of the registry
        state_index = 0
        color = Color.NONE
        blocks_movement = False
        blocks_vision = False
        holdable = False

        @classmethod
        def can_be_represented_in_state(cls):
            return True

        @classmethod
        def num_states(cls):
            return 7

    check(tidx(DemoLamp) == len(grid_object_registry) - 1, 'appended')
    sweep('after registering a new type')
    # a fresh space which contains the new type (many states -> large offsets)
    check_object_like = StateSpace(Shape(2, 2), [DemoLamp, Door], [Color.BLUE])
    by_name = grid_object_representations(check_object_like, 'state')
    types = [DemoLamp, Door, NoneGridObject]
    for name in NAMES:
        ref = REFS[name](types, check_object_like.colors)
        for o in [DemoLamp(), NoneGridObject()] + instances(
            Door, check_object_like.colors
        ):
            check(
                by_name[name].convert(o).tolist() == ref[0](o),
                f'new type {name} {o!r}',
            )
        check(
            by_name[name].space.upper_bound.tolist() == ref[1],
            f'new type {name} space',
        )

    # optional keyword of the patched tree (skipped on a tree without it)
    offsets_f = getattr(R, 'no_overlap_grid_object_representation_offsets', None)
    if offsets_f is not None:
        for types, colors in cases:
            convert = ref_no_overlap(types, colors)[0]
            offsets = offsets_f(types)
            snapshot = offsets.tolist()
            for o in [o for t in types for o in instances(t, colors)]:
                got = R.no_overlap_grid_object_representation_convert(
                    types, colors, o, offsets=offsets
                )
                check(got.tolist() == convert(o), 'offsets keyword')
                check(got is not offsets, 'offsets keyword aliasing')
                none = R.no_overlap_grid_object_representation_convert(
                    types, colors, o, offsets=None
                )
                check(none.tolist() == convert(o), 'offsets=None')
            check(offsets.tolist() == snapshot, 'offsets untouched')

    # empty inputs keep raising ValueError
    for f in (
        R.default_grid_object_representation_space,
        R.no_overlap_grid_object_representation_space,
    ):
        for ts, cs in [(set(), {Color.NONE}), ({Floor}, set()), (set(), set())]:
            try:
                f(ts, cs)
            except ValueError:
                check(True, 'raises')
            else:
                check(False, f'{f.__name__} accepted empty input')
    try:
        R.no_overlap_grid_object_representation_convert(set(), set(), Floor())
    except ValueError:
        check(True, 'raises')
    else:
        check(False, 'no-overlap convert accepted empty types')


# --------------------------------------------------------------------------
# 3. whole states / observations
# --------------------------------------------------------------------------


def random_object(rnd, types, colors):
    return rnd.choice([o for t in types for o in instances(t, colors)])


def random_grid(rnd, shape, types, colors):
    return Grid(
        [
            [random_object(rnd, types, colors) for _ in range(shape.width)]
            for _ in range(shape.height)
        ]
    )


def special_positions(shape):
    h, w = shape.height, shape.width
    ps = {
        (0, 0),
        (0, w - 1),
        (h - 1, 0),
        (h - 1, w - 1),
        (0, w // 2),
        (h - 1, w // 2),
        (h // 2, 0),
        (h // 2, w - 1),
        (h // 2, w // 2),
    }
    return [Position(y, x) for y, x in sorted(ps)]


def flat(rep_dict):
    return {k: (v.dtype.kind, v.shape, v.tolist()) for k, v in rep_dict.items()}


def check_members(kind, space, members, types, colors, label):
    """`members`: list of states / observations of the space"""
    all_colors = set(colors) | {Color.NONE}
    extra = [NoneGridObject] if kind == 'state' else [NoneGridObject, Hidden]
    all_types = list(dict.fromkeys(list(types) + extra))
    make = (
        make_state_representation
        if kind == 'state'
        else make_observation_representation
    )

    for name in NAMES:
        rep = make(name, space)
        ref_convert = REFS[name](all_types, all_colors)[0]
        spaces = rep.space
        expected_keys = (
            ['grid', 'agent_id_grid', 'agent', 'item']
            if kind == 'state'
            else ['grid', 'agent_id_grid', 'item']
        )
        check(list(spaces) == expected_keys, f'{label} {name} keys')
        h, w = space.grid_shape.height, space.grid_shape.width
        check(spaces['grid'].shape == (h, w, 3), f'{label} {name} grid space')
        check(spaces['agent_id_grid'].shape == (h, w), f'{label} {name} id sp')
        ob_space = rep.representations['grid'].grid_object_representation.space
        check(
            np.array_equal(
                spaces['grid'].upper_bound,
                np.broadcast_to(ob_space.upper_bound, (h, w, 3)),
            )
            and not spaces['grid'].lower_bound.any(),
            f'{label} {name} grid space bounds',
        )
        check(spaces['item'] == ob_space, f'{label} {name} item space')

        flats = []
        for m in members:
            check(space.contains(m), f'{label} member not in space')
            arrays = rep.convert(m)
            check(list(arrays) == expected_keys, f'{label} {name} keys')
            for key in expected_keys:
                check(
                    spaces[key].contains(arrays[key]),
                    f'{label} {name} {key} outside its space',
                )
            grid = arrays['grid']
            check(grid.shape == (h, w, 3), f'{label} {name} grid shape')
            # positional: cell (y, x) is the encoding of the object at (y, x)
            for y in range(h):
                for x in range(w):
                    check(
                        grid[y, x].tolist() == ref_convert(m.grid[y, x]),
                        f'{label} {name} cell {(y, x)}',
                    )
            # agent marker exactly at the agent's cell
            marker = arrays['agent_id_grid']
            check(marker.shape == (h, w), f'{label} {name} marker shape')
            check(
                marker.sum() == 1
                and marker[m.agent.position.y, m.agent.position.x] == 1
                and set(np.unique(marker).tolist()) <= {0, 1},
                f'{label} {name} marker',
            )
            check(
                arrays['item'].tolist() == ref_convert(m.agent.grid_object),
                f'{label} {name} item',
            )
            if kind == 'state':
                agent = arrays['agent']
                onehot = [0.0] * 4
                onehot[m.agent.orientation.value] = 1.0
                check(agent[2:].tolist() == onehot, f'{label} {name} heading')
                check(
                    agent[0] == (2 * m.agent.position.y - h + 1) / (h - 1)
                    and agent[1] == (2 * m.agent.position.x - w + 1) / (w - 1),
                    f'{label} {name} agent yx',
                )
            # repeated conversion is stable
            check(flat(rep.convert(m)) == flat(arrays), f'{label} {name} repeat')
            flats.append(flat(arrays))

        # lossless: equal representations iff equal members; equal hash alike
        for (m1, f1), (m2, f2) in itt.combinations(zip(members, flats), 2):
            equal = m1 == m2
            check(equal == (f1 == f2), f'{label} {name} iff\n{m1}\n{m2}')
            if equal:
                check(hash(m1) == hash(m2), f'{label} {name} hash')


def variants(rnd, kind, member, types, colors, shape, positions):
    """near-duplicates of a member: one thing changed at a time, plus copies"""
    cls = State if kind == 'state' else Observation
    out = [copy.deepcopy(member)]
    # equal but independently built
    out.append(
        cls(
            Grid([list(row) for row in member.grid.objects]),
            Agent(
                Position(*member.agent.position.yx),
                member.agent.orientation,
                copy.deepcopy(member.agent.grid_object),
            ),
        )
    )
    # one cell changed (corners and a random cell)
    cells = [(0, 0), (shape.height - 1, shape.width - 1)]
    cells.append((rnd.randrange(shape.height), rnd.randrange(shape.width)))
    grid_types = list(types) + ([Hidden] if kind == 'observation' else [])
    for y, x in cells:
        changed = copy.deepcopy(member)
        for _ in range(20):
            candidate = random_object(rnd, grid_types, colors)
            if candidate != member.grid[y, x]:
                changed.grid[y, x] = candidate
                out.append(changed)
                break
    # two cells swapped
    swapped = copy.deepcopy(member)
    swapped.grid.swap(Position(0, 0), Position(shape.height - 1, shape.width - 1))
    out.append(swapped)
    # agent elsewhere
    for p in positions:
        if p != member.agent.position:
            out.append(
                cls(
                    copy.deepcopy(member.grid),
                    Agent(p, member.agent.orientation, member.agent.grid_object),
                )
            )
    if kind == 'state':
        for o in Orientation:
            if o != member.agent.orientation:
                out.append(
                    cls(
                        copy.deepcopy(member.grid),
                        Agent(member.agent.position, o, member.agent.grid_object),
                    )
                )
    # other held item
    for item in [None, Key(Color.NONE)] + [
        random_object(rnd, list(types) + [NoneGridObject], colors)
        for _ in range(2)
    ]:
        if item is None or type(item) in set(types) | {NoneGridObject}:
            out.append(
                cls(
                    copy.deepcopy(member.grid),
                    Agent(member.agent.position, member.agent.orientation, item),
                )
            )
    return out


def part_3():
    rnd = random.Random(16)
    state_cases = [
        (Shape(2, 2), [Floor, Wall], []),
        (Shape(2, 7), [Floor, Door, Key], [Color.RED, Color.YELLOW]),
        (Shape(6, 3), STATE_TYPES, COLORS),
        (Shape(4, 5), [Telepod, Beacon, Exit, MovingObstacle], [Color.BLUE]),
        (Shape(3, 3), [Key], [Color.GREEN]),
    ]
    for shape, types, colors in state_cases:
        space = StateSpace(shape, types, colors)
        all_colors = set(colors) | {Color.NONE}
        positions = special_positions(shape)
        members = []
        for n in range(3):
            grid = random_grid(rnd, shape, types, all_colors)
            position = positions[(5 * n) % len(positions)]
            orientation = list(Orientation)[n % 4]
            item = (
                None
                if n == 0
                else random_object(rnd, list(types) + [NoneGridObject], all_colors)
            )
            base = State(grid, Agent(position, orientation, item))
            members.append(base)
            members.extend(
                variants(rnd, 'state', base, types, all_colors, shape, positions[:4])
            )
        check_members(
            'state', space, members, types, colors, f'state {shape} {len(types)}t'
        )

    obs_cases = [
        (Shape(1, 1), [Floor], []),
        (Shape(1, 5), [Floor, Wall, Key], [Color.RED]),
        (Shape(7, 1), [Floor, Door], [Color.GREEN, Color.BLUE]),
        (Shape(2, 3), [], []),
        (Shape(4, 7), STATE_TYPES + OBS_ONLY_TYPES, COLORS),
        (Shape(5, 3), [Box, Beacon, Telepod], [Color.YELLOW]),
    ]
    for shape, types, colors in obs_cases:
        space = ObservationSpace(shape, types, colors)
        all_colors = set(colors) | {Color.NONE}
        positions = special_positions(shape)
        members = []
        for n in range(3):
            grid = random_grid(rnd, shape, list(types) + [Hidden], all_colors)
            # canonical agent of an observation: fixed cell, facing forward
            position = space.agent_position if n < 2 else positions[n % len(positions)]
            item = (
                None
                if n == 0
                else random_object(rnd, list(types) + [NoneGridObject], all_colors)
            )
            base = Observation(grid, Agent(position, Orientation.F, item))
            members.append(base)
            members.extend(
                variants(
                    rnd, 'observation', base, types, all_colors, shape, positions[:4]
                )
            )
        check_members(
            'observation',
            space,
            members,
            types,
            colors,
            f'observation {shape} {len(types)}t',
        )


# --------------------------------------------------------------------------
# 4. states and observations produced by the library, several environments in
#    one process, re-seeding
# --------------------------------------------------------------------------


def part_4():
    env_cases = [
        (
            'keydoor',
            lambda rng: reset_fs.keydoor(Shape(6, 9), rng=rng),
            [Floor, Wall, Exit, Door, Key],
            [Color.YELLOW],
            Shape(6, 9),
        ),
        (
            'dynamic_obstacles',
            lambda rng: reset_fs.dynamic_obstacles(
                Shape(5, 8), 3, random_agent=True, rng=rng
            ),
            [Floor, Wall, Exit, MovingObstacle],
            [],
            Shape(5, 8),
        ),
        (
            'empty',
            lambda rng: reset_fs.empty(
                Shape(4, 7), random_agent=True, random_exit=True, rng=rng
            ),
            [Floor, Wall, Exit],
            [],
            Shape(4, 7),
        ),
    ]
    # asymmetric view areas (agent not in the middle row; wide / tall / 1-wide)
    obs_shapes = [Shape(7, 7), Shape(2, 5), Shape(5, 1), Shape(3, 9)]
    observe = [obs_fs.fully_transparent, obs_fs.partially_occluded, obs_fs.raytracing]

    for label, reset, types, colors, shape in env_cases:
        state_space = StateSpace(shape, types, colors)
        states = []
        for seed in (0, 1, 2, 0):  # re-seeding: seed 0 twice -> equal states
            reset_gv_rng(seed)
            states.append(reset(make_rng(seed)))
        check(states[0] == states[3], f'{label} reseed')
        # all four headings, corners of the walkable interior
        turned = []
        for s in states[:2]:
            for o in Orientation:
                for p in (
                    Position(1, 1),
                    Position(shape.height - 2, shape.width - 2),
                    Position(1, shape.width - 2),
                ):
                    turned.append(
                        State(
                            copy.deepcopy(s.grid),
                            Agent(p, o, s.agent.grid_object),
                        )
                    )
        check_members(
            'state', state_space, states + turned, types, colors, f'env {label}'
        )

        for obs_shape in obs_shapes:
            obs_space = ObservationSpace(obs_shape, types, colors)
            observations = []
            for s in (states + turned)[:: 3]:
                for f in observe:
                    observations.append(
                        f(s, area=obs_space.area, rng=make_rng(3))
                    )
            check_members(
                'observation',
                obs_space,
                observations,
                types,
                colors,
                f'env {label} obs {obs_shape}',
            )


# --------------------------------------------------------------------------
# 5. equality and hashing of grid-objects (what every "iff" above rests on)
# --------------------------------------------------------------------------


def part_5():
    from gym_gridverse.grid_object import GridObject

    class DemoSwitch(GridObject):
        """custom registered type: state through a property, colour per instance"""

        color = Color.NONE
        blocks_movement = False
        blocks_vision = False
        holdable = True

        def __init__(self, on, color):
            self.on = on
            self.color = color

        @property
        def state_index(self):
            return int(self.on)

        @classmethod
        def can_be_represented_in_state(cls):
            return True

        @classmethod
        def num_states(cls):
            return 2

    class DemoGhost(GridObject, register=False):
        """custom type which is NOT in the registry: no type index"""

        state_index = 0
        color = Color.NONE
        blocks_movement = False
        blocks_vision = False
        holdable = False

        @classmethod
        def can_be_represented_in_state(cls):
            return True

        @classmethod
        def num_states(cls):
            return 1

    all_colors = set(Color)
    pool = [
        o
        for t in STATE_TYPES + OBS_ONLY_TYPES + [NoneGridObject, Hidden]
        for o in instances(t, all_colors)
    ]
    pool += [DemoSwitch(on, c) for on in (False, True) for c in Color]
    pool += [copy.deepcopy(o) for o in pool[::3]]
    # instance attributes which shadow class attributes
    odd = Wall()
    odd.color = Color.RED
    pool.append(odd)
    door = Door(Door.Status.OPEN, Color.RED)
    door.state = Door.Status.LOCKED  # mutated after construction
    pool.append(door)

    def key(o):
        return (tidx(type(o)), o.state_index, o.color)

    for o1 in pool:
        check(o1 == o1 and not (o1 != o1), f'reflexive {o1!r}')
        check(hash(o1) == hash(key(o1)), f'hash value {o1!r}')
        check(hash(o1) == hash(o1), f'hash stable {o1!r}')
        for o2 in pool:
            expected = key(o1) == key(o2)
            result = o1 == o2
            check(result is expected, f'eq {o1!r} {o2!r} -> {result!r}')
            check((o1 != o2) is (not expected), f'ne {o1!r} {o2!r}')
            check(GridObject.__eq__(o1, o2) is expected, 'dunder eq')
            if expected:
                check(hash(o1) == hash(o2), f'hash {o1!r} {o2!r}')
                check((o2 == o1) is True, f'symmetric {o1!r} {o2!r}')

    # hash-based containers agree with the reference key
    groups = {}
    for o in pool:
        groups.setdefault(o, []).append(o)
    ref_groups = {}
    for o in pool:
        ref_groups.setdefault(key(o), []).append(o)
    check(len(groups) == len(ref_groups) == len(set(pool)), 'set size')
    for o, members in groups.items():
        check(
            [id(m) for m in members] == [id(m) for m in ref_groups[key(o)]],
            f'dict grouping {o!r}',
        )

    # mutation of an object changes its identity accordingly
    d1, d2 = Door(Door.Status.OPEN, Color.BLUE), Door(Door.Status.OPEN, Color.BLUE)
    check(d1 == d2 and hash(d1) == hash(d2), 'doors equal')
    d2.state = Door.Status.CLOSED
    check(d1 != d2, 'doors differ after closing')
    d2.state = Door.Status.OPEN
    d2.color = Color.GREEN
    check(d1 != d2, 'doors differ after repainting')
    d2.color = Color.BLUE
    check(d1 == d2 and hash(d1) == hash(d2), 'doors equal again')

    # foreign operands:  NotImplemented, hence python falls back to identity
    for foreign in [None, 0, (0, 0, Color.NONE), 'Floor()', Floor, object()]:
        for o in (Floor(), Door(Door.Status.OPEN, Color.RED), NoneGridObject()):
            check(GridObject.__eq__(o, foreign) is NotImplemented, 'foreign')
            check((o == foreign) is False, f'{o!r} == {foreign!r}')
            check((foreign == o) is False, f'{foreign!r} == {o!r}')
            check((o != foreign) is True, f'{o!r} != {foreign!r}')

    class Anything:
        def __eq__(self, other):
            return True

        __hash__ = None

    check((Floor() == Anything()) is True, 'reflected __eq__ is consulted')

    # unregistered types have no type index: comparing / hashing keeps raising
    ghost = DemoGhost()
    for f in (
        lambda: ghost == ghost,
        lambda: ghost == Floor(),
        lambda: Floor() == ghost,
        lambda: hash(ghost),
        lambda: {ghost},
    ):
        try:
            f()
        except ValueError:
            check(True, 'raises')
        else:
            check(False, 'unregistered type got compared / hashed')
    check((ghost == 3) is False, 'unregistered type vs foreign operand')

    # grids, agents, states built from equal objects
    g1 = Grid([[Floor(), Key(Color.RED), Wall()], [Hidden(), Exit(), Floor()]])
    g2 = Grid([[Floor(), Key(Color.RED), Wall()], [Hidden(), Exit(), Floor()]])
    g3 = Grid([[Floor(), Key(Color.BLUE), Wall()], [Hidden(), Exit(), Floor()]])
    check(g1 == g2 and hash(g1) == hash(g2) and g1 != g3, 'grids')
    a1 = Agent(Position(1, 2), Orientation.L, Key(Color.RED))
    a2 = Agent(Position(1, 2), Orientation.L, Key(Color.RED))
    a3 = Agent(Position(1, 2), Orientation.L, Key(Color.GREEN))
    a4 = Agent(Position(1, 2), Orientation.L)
    check(a1 == a2 and hash(a1) == hash(a2), 'agents equal')
    check(a1 != a3 and a1 != a4 and a3 != a4, 'agents differ')
    check(State(g1, a1) == State(g2, a2), 'states equal')
    check(hash(State(g1, a1)) == hash(State(g2, a2)), 'states hash alike')
    check(State(g1, a1) != State(g3, a1), 'states differ by a cell')
    check(State(g1, a1) != State(g1, a3), 'states differ by the item')


if __name__ == '__main__':
    part_1()
    part_2()
    part_3()
    part_4()
    part_5()
    print(f'OK ({CHECKS} checks)')
