"""Demo / regression check for refactoring B (ray fans and ray-traced counts).

Run as:  cd /tmp/wt5-C19 && /venv/bin/python -W ignore _seed/B/demo.py

Refactoring B touches `compute_rays`, `compute_rays_fancy` (shared helper,
`arange` instead of `linspace`) and the `raytracing` / `stochastic_raytracing`
visibility functions (shared counting helper, restructured control flow).

The reference results are computed by an independent re-implementation which
lives in this file (plain tuples and python loops), not by the library.  The
program exits 0 iff every comparison and every property check succeeds.
"""
import math
import os
import random
import sys

sys.path.insert(0, os.getcwd())

import numpy as np  # noqa: E402

from gym_gridverse.agent import Agent  # noqa: E402
from gym_gridverse.envs import observation_functions as of  # noqa: E402
from gym_gridverse.envs import visibility_functions as vf  # noqa: E402
from gym_gridverse.geometry import Area, Orientation, Position  # noqa: E402
from gym_gridverse.grid import Grid  # noqa: E402
from gym_gridverse.grid_object import (  # noqa: E402
    Color,
    Door,
    Exit,
    Floor,
    Hidden,
    Key,
    Wall,
)
from gym_gridverse.rng import reset_gv_rng  # noqa: E402
from gym_gridverse.state import State  # noqa: E402
from gym_gridverse.utils import raytracing as rt  # noqa: E402

CHECKS = 0


def check(condition, *info):
    global CHECKS
    CHECKS += 1
    if not condition:
        print('FAILED', *info)
        sys.exit(1)


# --------------------------------------------------------------------------
# independent reference implementation
# --------------------------------------------------------------------------


def ref_inside(y, x, box):
    ymin, ymax, xmin, xmax = box
    return ymin <= y <= ymax and xmin <= x <= xmax


def ref_ray(origin, box, radians):
    """distinct cells (y, x) hit by the sampled line until it leaves the box"""
    oy, ox = origin
    assert ref_inside(oy, ox, box)
    fy, fx = float(oy), float(ox)
    sy = 0.01 * math.sin(radians)
    sx = 0.01 * math.cos(radians)
    cells = []
    last = None
    k = 0
    while True:
        cell = (round(fy + k * sy), round(fx + k * sx))
        k += 1
        if not ref_inside(*cell, box):
            return cells
        if cell != last and cell not in cells:
            cells.append(cell)
        last = cell


def ref_fancy_angles(origin, box):
    """sorted directions towards all cell corners of the box"""
    oy, ox = origin
    ymin, ymax, xmin, xmax = box
    num, den = [], []
    for cx in range(xmin, xmax + 2):
        for cy in range(ymin, ymax + 2):
            num.append((cy - 0.5) - oy)
            den.append((cx - 0.5) - ox)
    angles = np.arctan2(np.array(num), np.array(den))
    return sorted(angles.tolist())


DEGREE_ANGLES = [deg * (math.pi / 180.0) for deg in range(360)]

_ref_fan_memo = {}


def ref_fancy_fan(origin, box):
    key = (origin, box)
    if key not in _ref_fan_memo:
        _ref_fan_memo[key] = [
            ref_ray(origin, box, a) for a in ref_fancy_angles(origin, box)
        ]
    return _ref_fan_memo[key]


def as_tuples(ray):
    return [(p.y, p.x) for p in ray]


def box_of(area):
    return (area.ymin, area.ymax, area.xmin, area.xmax)


def border(y, x, box):
    ymin, ymax, xmin, xmax = box
    return y in (ymin, ymax) or x in (xmin, xmax)


def check_fan_properties(fan, origin, box, info):
    ymin, ymax, xmin, xmax = box
    for cells in fan:
        check(cells[0] == origin, 'starts at origin', info)
        check(all(ref_inside(y, x, box) for y, x in cells), 'inside', info)
        check(len(set(cells)) == len(cells), 'unique', info)
        check(
            all(
                max(abs(y1 - y0), abs(x1 - x0)) == 1
                for (y0, x0), (y1, x1) in zip(cells, cells[1:])
            ),
            'adjacent',
            info,
        )
        check(border(*cells[-1], box), 'ends on border', info)
    swept = {cell for cells in fan for cell in cells}
    everything = {
        (y, x) for y in range(ymin, ymax + 1) for x in range(xmin, xmax + 1)
    }
    check(swept == everything, 'fan sweeps the whole area', info)


pyrandom = random.Random(1919)


def origins_of(area, limit=None):
    origins = [(p.y, p.x) for p in area.positions()]
    if limit is not None and len(origins) > limit:
        corners = [
            (area.ymin, area.xmin),
            (area.ymin, area.xmax),
            (area.ymax, area.xmin),
            (area.ymax, area.xmax),
        ]
        rest = [o for o in origins if o not in corners]
        origins = corners + pyrandom.sample(rest, limit - 4)
    return origins


# --------------------------------------------------------------------------
# 1. compute_rays_fancy: all origins of many areas (incl. the 7x7 view size
#    and beyond, and areas which do not start at (0, 0))
# --------------------------------------------------------------------------

FANCY_AREAS = (
    [Area((0, h - 1), (0, w - 1)) for h in range(1, 6) for w in range(1, 6)]
    + [
        Area((0, 6), (0, 6)),
        Area((0, 0), (0, 8)),
        Area((0, 9), (0, 0)),
        Area((-6, 0), (-3, 3)),
        Area((-3, 3), (-3, 3)),
        Area((-2, 1), (-4, -1)),
        Area((2, 5), (4, 9)),
        Area((10, 12), (-12, -10)),
    ]
)
LARGE_FANCY_AREAS = [
    (Area((0, 8), (0, 10)), 6),
    (Area((0, 12), (0, 12)), 5),
    (Area((-8, 0), (-5, 5)), 5),
]

queries = []
n_fans = 0
for area, limit in [(a, None) for a in FANCY_AREAS] + LARGE_FANCY_AREAS:
    box = box_of(area)
    for origin in origins_of(area, limit):
        position = Position(*origin)
        info = (area, origin)
        if area.height * area.width <= 16:
            queries.append((position, area))

        fancy = rt.compute_rays_fancy(position, area)
        n_fans += 1
        check(type(fancy) is list, 'type', info)
        check(all(type(ray) is list for ray in fancy), 'ray type', info)
        check(
            all(type(p) is Position for ray in fancy for p in ray),
            'cell type',
            info,
        )
        check(
            len(fancy) == (area.height + 1) * (area.width + 1), 'count', info
        )
        fan = [as_tuples(ray) for ray in fancy]
        check(fan == ref_fancy_fan(origin, box), 'fancy vs reference', info)
        check_fan_properties(fan, origin, box, info)

        # deterministic, fresh result objects
        again = rt.compute_rays_fancy(position, area)
        check(again == fancy, 'determinism', info)
        check(again is not fancy, 'fresh list', info)

print(f'compute_rays_fancy: {n_fans} fans compared with the reference')

# --------------------------------------------------------------------------
# 2. compute_rays (1 degree granularity)
# --------------------------------------------------------------------------

n_fans = 0
for area, limit in [
    (Area((0, 0), (0, 0)), None),
    (Area((0, 1), (0, 1)), None),
    (Area((0, 2), (0, 2)), None),
    (Area((0, 1), (0, 4)), 6),
    (Area((0, 6), (0, 6)), 6),
    (Area((-3, 1), (-2, 2)), 5),
    (Area((4, 6), (7, 12)), 5),
]:
    box = box_of(area)
    for origin in origins_of(area, limit):
        position = Position(*origin)
        info = (area, origin)
        if area.height * area.width <= 9:
            queries.append((position, area))

        rays = rt.compute_rays(position, area)
        n_fans += 1
        check(type(rays) is list and len(rays) == 360, 'count', info)
        fan = [as_tuples(ray) for ray in rays]
        check(
            fan == [ref_ray(origin, box, a) for a in DEGREE_ANGLES],
            'degrees vs reference',
            info,
        )
        check_fan_properties(fan, origin, box, info)
        check(rt.compute_rays(position, area) == rays, 'determinism', info)

print(f'compute_rays: {n_fans} fans compared with the reference')

# --------------------------------------------------------------------------
# 3. errors
# --------------------------------------------------------------------------

for area, outside in [
    (Area((0, 2), (0, 2)), (3, 0)),
    (Area((0, 2), (0, 2)), (0, -1)),
    (Area((-2, 2), (4, 6)), (0, 0)),
    (Area((-2, 2), (4, 6)), (3, 7)),
]:
    position = Position(*outside)
    for function in (
        rt.compute_rays,
        rt.compute_rays_fancy,
        rt.cached_compute_rays,
        rt.cached_compute_rays_fancy,
    ):
        try:
            function(position, area)
        except ValueError as error:
            check(
                str(error)
                == f'Position {position} is not inside area {area}',
                'message',
                str(error),
            )
        else:
            check(False, 'no ValueError', function, area, outside)

# --------------------------------------------------------------------------
# 4. caching: any order of earlier queries gives the same rays
# --------------------------------------------------------------------------

# (at most 100 distinct queries, the caches hold 128 entries)
queries = list(dict.fromkeys(queries))
queries = random.Random(4).sample(queries, min(len(queries), 100))
uncached_fancy = {q: rt.compute_rays_fancy(*q) for q in queries}
degree_queries = [q for q in queries if q[1].height * q[1].width <= 4]
uncached_degrees = {q: rt.compute_rays(*q) for q in degree_queries}

check(rt.cached_compute_rays.__wrapped__ is rt.compute_rays, 'wrapped')
check(
    rt.cached_compute_rays_fancy.__wrapped__ is rt.compute_rays_fancy,
    'wrapped',
)

for order_seed in range(4):
    rt.cached_compute_rays.cache_clear()
    rt.cached_compute_rays_fancy.cache_clear()
    order = [('f', q) for q in queries] * 2 + [
        ('d', q) for q in degree_queries
    ] * 2
    random.Random(order_seed).shuffle(order)
    first = {}
    for kind, query in order:
        if kind == 'f':
            rays = rt.cached_compute_rays_fancy(*query)
            check(rays == uncached_fancy[query], 'cached fancy', query)
        else:
            rays = rt.cached_compute_rays(*query)
            check(rays == uncached_degrees[query], 'cached degrees', query)
        check(first.setdefault((kind, query), rays) is rays, 'memoized')
    info = rt.cached_compute_rays_fancy.cache_info()
    check(info.misses == len(queries) and info.hits == len(queries), info)
    info = rt.cached_compute_rays.cache_info()
    check(
        info.misses == len(degree_queries)
        and info.hits == len(degree_queries),
        info,
    )

print(f'caching: {len(queries)} queries in 4 shuffled orders')

# --------------------------------------------------------------------------
# 5. ray-traced visibility functions
# --------------------------------------------------------------------------


def ref_counts(blocks, height, width, origin):
    """number of lit rays / of all rays through each cell

    A ray is lit up to and including the first vision-blocking cell.
    """
    box = (0, height - 1, 0, width - 1)
    num = [[0] * width for _ in range(height)]
    den = [[0] * width for _ in range(height)]
    for cells in ref_fancy_fan(origin, box):
        blocked = False
        for y, x in cells:
            den[y][x] += 1
            if not blocked:
                num[y][x] += 1
            blocked = blocked or blocks[y][x]
    return np.array(num), np.array(den)


OBJECT_MAKERS = [
    lambda: Wall(),
    lambda: Door(Door.Status.CLOSED, Color.RED),
    lambda: Door(Door.Status.LOCKED, Color.BLUE),
    lambda: Door(Door.Status.OPEN, Color.GREEN),
    lambda: Key(Color.YELLOW),
    lambda: Exit(),
    lambda: Hidden(),
]


def random_grid(height, width, density, rng):
    objects = [
        [
            rng.choice(OBJECT_MAKERS)() if rng.random() < density else Floor()
            for _ in range(width)
        ]
        for _ in range(height)
    ]
    return Grid(objects)


def blocks_of(grid):
    return [
        [bool(grid[Position(y, x)].blocks_vision) for x in range(grid.shape.width)]
        for y in range(grid.shape.height)
    ]


raytracing = vf.visibility_function_registry['raytracing']
stochastic_raytracing = vf.visibility_function_registry['stochastic_raytracing']
check(raytracing is vf.raytracing, 'registered function')
check(stochastic_raytracing is vf.stochastic_raytracing, 'registered function')
check(
    sorted(vf.visibility_function_registry.keys())
    == [
        'fully_transparent',
        'partially_occluded',
        'raytracing',
        'stochastic_raytracing',
    ],
    'registered names',
    sorted(vf.visibility_function_registry.keys()),
)


def check_visibility(grid, origin, info):
    height, width = grid.shape.height, grid.shape.width
    position = Position(*origin)
    num, den = ref_counts(blocks_of(grid), height, width, origin)
    check((den > 0).all(), 'every cell is on some ray', info)

    visibility = raytracing(grid, position)
    check(type(visibility) is np.ndarray, 'type', info)
    check(visibility.dtype == bool, 'dtype', info)
    check(visibility.shape == (height, width), 'shape', info)
    check(np.array_equal(visibility, num >= 1), 'raytracing', info)
    check(visibility[origin], 'origin is visible', info)

    check(
        np.array_equal(
            raytracing(grid, position, rng=np.random.default_rng(3)), num >= 1
        ),
        'rng is irrelevant',
        info,
    )
    check(
        np.array_equal(
            vf.factory('raytracing')(grid, position), num >= 1
        ),
        'factory default',
        info,
    )
    for threshold in (0, 1, 2, 3, 7, 2.5):
        check(
            np.array_equal(
                raytracing(grid, position, threshold=threshold),
                num >= threshold,
            ),
            'absolute threshold',
            threshold,
            info,
        )
        check(
            np.array_equal(
                vf.factory(
                    'raytracing', absolute_counts=True, threshold=threshold
                )(grid, position),
                num >= threshold,
            ),
            'factory absolute threshold',
            threshold,
            info,
        )
    for threshold in (0.0, 0.1, 1 / 3, 0.5, 0.9, 1, 1.0):
        check(
            np.array_equal(
                raytracing(
                    grid, position, absolute_counts=False, threshold=threshold
                ),
                (num / den) >= threshold,
            ),
            'relative threshold',
            threshold,
            info,
        )

    for seed in (0, 11):
        expected = np.random.default_rng(seed).random((height, width)) < (
            num / den
        )
        rng = np.random.default_rng(seed)
        visibility = stochastic_raytracing(grid, position, rng=rng)
        check(visibility.dtype == bool, 'dtype', info)
        check(np.array_equal(visibility, expected), 'stochastic', info)
        # exactly height * width draws were consumed
        check(
            rng.random()
            == np.random.default_rng(seed).random(height * width + 1)[-1],
            'random stream position',
            info,
        )
        check(not (visibility & (num == 0)).any(), 'dark cells stay dark')

    # library-level generator is used when no generator is given
    reset_gv_rng(5)
    visibility = stochastic_raytracing(grid, position)
    expected = np.random.default_rng(5).random((height, width)) < (num / den)
    check(np.array_equal(visibility, expected), 'stochastic, gv rng', info)
    reset_gv_rng(5)
    visibility = vf.factory('stochastic_raytracing')(grid, position)
    check(np.array_equal(visibility, expected), 'stochastic, factory', info)


SHAPES = [(1, 1), (1, 5), (4, 1), (2, 2), (3, 3), (3, 5), (5, 4), (7, 7), (6, 9)]
n_grids = 0
for shape_index, (height, width) in enumerate(SHAPES):
    # unobstructed view shows everything, from every origin
    empty = Grid.from_shape((height, width))
    for y in range(height):
        for x in range(width):
            for kwargs in (
                {},
                {'threshold': 1},
                {'absolute_counts': False, 'threshold': 1.0},
            ):
                visibility = raytracing(empty, Position(y, x), **kwargs)
                check(
                    visibility.all(), 'unobstructed view', height, width, y, x
                )
            visibility = stochastic_raytracing(
                empty, Position(y, x), rng=np.random.default_rng(y * 31 + x)
            )
            check(visibility.all(), 'unobstructed stochastic view')

    for grid_seed in range(4):
        grid_rng = random.Random(1000 * shape_index + grid_seed)
        grid = random_grid(
            height, width, (0.15, 0.3, 0.5, 1.0)[grid_seed], grid_rng
        )
        origins = [(y, x) for y in range(height) for x in range(width)]
        if len(origins) > 8:
            origins = grid_rng.sample(origins, 8)
        for origin in origins:
            check_visibility(grid, origin, (height, width, grid_seed, origin))
            n_grids += 1

# the grid from the test-suite
grid = Grid(
    [
        [Floor(), Floor(), Floor(), Floor(), Floor()],
        [Floor(), Wall(), Wall(), Wall(), Floor()],
        [Floor(), Floor(), Floor(), Wall(), Floor()],
    ]
)
check(
    np.array_equal(
        raytracing(grid, Position(2, 2)),
        np.array(
            [[0, 0, 0, 0, 0], [1, 1, 1, 1, 0], [1, 1, 1, 1, 0]], dtype=bool
        ),
    ),
    'test-suite example',
)

print(f'visibility: {n_grids} (grid, origin) cases compared with the reference')

# --------------------------------------------------------------------------
# 6. observation functions built on the ray-traced visibility
# --------------------------------------------------------------------------

n_observations = 0
for view_area in [
    Area((-6, 0), (-3, 3)),
    Area((-3, 3), (-3, 3)),
    Area((-2, 0), (-1, 1)),
    Area((-4, 1), (-2, 3)),
]:
    pov_origin = (-view_area.ymin, -view_area.xmin)
    for grid_seed in range(3):
        grid_rng = random.Random(77 + grid_seed)
        height, width = grid_rng.choice([(5, 6), (7, 7), (4, 9)])
        grid = random_grid(height, width, (0.0, 0.2, 0.4)[grid_seed], grid_rng)
        for _ in range(4):
            agent_position = Position(
                grid_rng.randrange(height), grid_rng.randrange(width)
            )
            orientation = grid_rng.choice(
                [Orientation.F, Orientation.B, Orientation.L, Orientation.R]
            )
            state = State(grid, Agent(agent_position, orientation))

            # agent point of view, before anything gets hidden
            pov_grid = grid.subgrid(state.agent.transform * view_area) * orientation
            num, den = ref_counts(
                blocks_of(pov_grid),
                view_area.height,
                view_area.width,
                pov_origin,
            )

            for observe in (
                lambda s: of.observation_function_registry['raytracing'](
                    s, area=view_area
                ),
                of.factory('raytracing', area=view_area),
            ):
                observation = observe(state)
                n_observations += 1
                check(observation.grid.shape == pov_grid.shape, 'shape')
                check(observation.agent.position == Position(*pov_origin))
                for y in range(view_area.height):
                    for x in range(view_area.width):
                        position = Position(y, x)
                        expected = (
                            pov_grid[position] if num[y][x] >= 1 else Hidden()
                        )
                        check(
                            observation.grid[position] == expected,
                            'observed cell',
                            view_area,
                            grid_seed,
                            agent_position,
                            orientation,
                            position,
                        )
                if grid_seed == 0:
                    # nothing in the way: everything inside the grid is shown
                    for y in range(view_area.height):
                        for x in range(view_area.width):
                            position = Position(y, x)
                            if not isinstance(pov_grid[position], Hidden):
                                check(
                                    not isinstance(
                                        observation.grid[position], Hidden
                                    ),
                                    'unobstructed observation',
                                )

            seed = grid_rng.randrange(1000)
            observation = of.stochastic_raytracing(
                state, area=view_area, rng=np.random.default_rng(seed)
            )
            n_observations += 1
            shown = np.random.default_rng(seed).random(
                (view_area.height, view_area.width)
            ) < (num / den)
            for y in range(view_area.height):
                for x in range(view_area.width):
                    position = Position(y, x)
                    expected = pov_grid[position] if shown[y, x] else Hidden()
                    check(
                        observation.grid[position] == expected,
                        'stochastically observed cell',
                    )

print(f'observations: {n_observations} observations compared with the reference')
print(f'OK ({CHECKS} checks)')
