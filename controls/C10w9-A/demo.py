"""Demo for change A (Door.is_unlocked_by + flattened actuate_door).

Checks property C10 -- doors, keys and boxes respond only to a faced ACTUATE,
and only as documented -- against a reference model embedded in this file.
Runs (and must exit 0) both on the pristine tree and with the patch applied.

Run from the worktree root:  /venv/bin/python _seed/A/demo.py
"""
import itertools as itt
import os
import random
import sys
from functools import partial

# the script lives in _seed/X/ but is run from the worktree root
sys.path.insert(0, os.getcwd())

from gym_gridverse.action import Action
from gym_gridverse.agent import Agent
from gym_gridverse.envs import reward_functions as reward_fs
from gym_gridverse.envs.gridworld import GridWorld
from gym_gridverse.envs.reset_functions import keydoor
from gym_gridverse.envs.transition_functions import (
    actuate_box,
    actuate_door,
    factory,
    transition_with_copy,
)
from gym_gridverse.geometry import Orientation, Position, Shape
from gym_gridverse.grid import Grid
from gym_gridverse.grid_object import (
    Box,
    Color,
    Door,
    Exit,
    Floor,
    Key,
    MovingObstacle,
    NoneGridObject,
    Telepod,
    Wall,
)
from gym_gridverse.spaces import ActionSpace, ObservationSpace, StateSpace
from gym_gridverse.state import State

CHECKS = 0


def check(condition, *info):
    global CHECKS
    CHECKS += 1
    if not condition:
        print('FAILED:', *info)
        sys.exit(1)


# --------------------------------------------------------------------------
# reference model, on plain tuples
# --------------------------------------------------------------------------

# displacement of the faced cell, hard-coded (y grows downward)
FRONT = {
    Orientation.FORWARD: (-1, 0),
    Orientation.BACKWARD: (1, 0),
    Orientation.LEFT: (0, -1),
    Orientation.RIGHT: (0, 1),
}


def describe(obj):
    """plain-data description of a grid-object (recursive for boxes)"""
    if isinstance(obj, Door):
        return ('Door', obj.state.name, obj.color.name)
    if isinstance(obj, Box):
        return ('Box', describe(obj.content))
    if isinstance(obj, (Key, Telepod)):
        return (type(obj).__name__, obj.color.name)
    return (type(obj).__name__,)


def describe_state(state):
    grid = tuple(
        tuple(describe(obj) for obj in row) for row in state.grid.objects
    )
    return (
        grid,
        state.agent.position.yx,
        state.agent.orientation.name,
        describe(state.agent.grid_object),
    )


def reference(description, orientation, action, *, order):
    """expected description after the given sequence of dynamics

    `order` is a sequence of 'door' / 'box', the dynamics applied in a row
    (a box may release a door, which dynamics later in the row do see).
    """
    grid, (y, x), orientation_name, held = description
    if action is not Action.ACTUATE:
        return description

    dy, dx = FRONT[orientation]
    fy, fx = y + dy, x + dx
    if not (0 <= fy < len(grid) and 0 <= fx < len(grid[0])):
        return description

    cell = grid[fy][fx]

    for kind in order:
        if kind == 'door' and cell[0] == 'Door':
            _, status, color = cell
            if status == 'CLOSED':
                cell = ('Door', 'OPEN', color)
            elif status == 'LOCKED' and held == ('Key', color):
                cell = ('Door', 'OPEN', color)

        elif kind == 'box' and cell[0] == 'Box':
            cell = cell[1]

    rows = [list(row) for row in grid]
    rows[fy][fx] = cell
    return (tuple(map(tuple, rows)), (y, x), orientation_name, held)


# --------------------------------------------------------------------------
# scenario generation
# --------------------------------------------------------------------------

COLORS = list(Color)

OBJECT_FACTORIES = (
    [Floor, Wall, Exit, MovingObstacle]
    + [
        partial(Door, status, color)
        for status in Door.Status
        for color in COLORS
    ]
    + [partial(Key, color) for color in COLORS]
    + [partial(Telepod, color) for color in (Color.RED, Color.NONE)]
    + [
        lambda: Box(Floor()),
        lambda: Box(Key(Color.YELLOW)),
        lambda: Box(Key(Color.NONE)),
        lambda: Box(Door(Door.Status.LOCKED, Color.RED)),
        lambda: Box(Door(Door.Status.OPEN, Color.NONE)),
        lambda: Box(Box(Key(Color.BLUE))),
        lambda: Box(Wall()),
    ]
)

HELD_FACTORIES = (
    [None, NoneGridObject]
    + [partial(Key, color) for color in COLORS]
    + [
        MovingObstacle,
        Floor,
        lambda: Door(Door.Status.LOCKED, Color.RED),
        lambda: Door(Door.Status.OPEN, Color.YELLOW),
        lambda: Box(Key(Color.RED)),
        lambda: Telepod(Color.RED),
    ]
)

SHAPES = [(1, 1), (1, 2), (2, 1), (1, 5), (4, 1), (2, 3), (3, 2), (3, 5), (5, 4)]


def make_grid(shape, offset, stride):
    """deterministic filling which cycles through all the object factories"""
    height, width = shape
    n = len(OBJECT_FACTORIES)
    return Grid(
        [
            [
                OBJECT_FACTORIES[(offset + stride * (y * width + x)) % n]()
                for x in range(width)
            ]
            for y in range(height)
        ]
    )


def make_random_grid(shape, rng):
    height, width = shape
    return Grid(
        [
            [rng.choice(OBJECT_FACTORIES)() for _ in range(width)]
            for _ in range(height)
        ]
    )


def all_cells(shape):
    return [Position(y, x) for y in range(shape[0]) for x in range(shape[1])]


# --------------------------------------------------------------------------
# checks
# --------------------------------------------------------------------------

chain = factory('chain', transition_functions=[actuate_door, actuate_box])
chain_reversed = factory(
    'chain', transition_functions=[actuate_box, actuate_door]
)

FUNCTIONS = [
    (actuate_door, ('door',)),
    (actuate_box, ('box',)),
    (chain, ('door', 'box')),
    (chain_reversed, ('box', 'door')),
]


def check_step(grid_factory, position, orientation, held_factory, action):
    for function, order in FUNCTIONS:
        grid = grid_factory()
        held = None if held_factory is None else held_factory()
        state = State(grid, Agent(position, orientation, held))

        before = describe_state(state)
        objects_before = [list(row) for row in grid.objects]
        held_before = state.agent.grid_object
        front = state.agent.front()
        faced_box = (
            grid[front]
            if grid.area.contains(front) and isinstance(grid[front], Box)
            else None
        )

        result = function(state, action)
        check(result is None, 'transition functions return None')

        after = describe_state(state)
        expected = reference(before, orientation, action, order=order)
        check(
            after == expected,
            function,
            action,
            '\nbefore  ',
            before,
            '\nafter   ',
            after,
            '\nexpected',
            expected,
        )

        # the held item is the very same object (keys are not consumed)
        check(state.agent.grid_object is held_before, 'held object replaced')
        check(state.grid is grid, 'grid replaced')

        # in-place dynamics:  every cell holds the very same object as before,
        # except for an actuated box, which is replaced by its very content
        for y, row in enumerate(grid.objects):
            for x, obj in enumerate(row):
                if (
                    'box' in order
                    and faced_box is not None
                    and action is Action.ACTUATE
                    and (y, x) == front.yx
                ):
                    check(obj is faced_box.content, 'box content identity')
                else:
                    check(obj is objects_before[y][x], 'cell replaced', y, x)

        # repeated call:  idempotent for doors, one more layer for boxes
        again = describe_state(state)
        function(state, action)
        check(
            describe_state(state)
            == reference(again, orientation, action, order=order),
            'repeated call',
        )


def exhaustive_small():
    """every pose x held item x action on deterministic fillings"""
    n = len(OBJECT_FACTORIES)
    for shape in SHAPES:
        cells = all_cells(shape)
        # enough offsets for every object kind to visit every cell of the
        # small shapes;  larger shapes cover them by their own size
        offsets = range(0, n, max(1, (shape[0] * shape[1]) // 2))
        for offset in offsets:
            grid_factory = partial(make_grid, shape, offset, 1)
            for position, orientation, held_factory, action in itt.product(
                cells, Orientation, HELD_FACTORIES, Action
            ):
                if action is not Action.ACTUATE and (
                    held_factory not in HELD_FACTORIES[:4]
                    or offset != 0
                ):
                    # non-actuate actions:  a thinner (still broad) sample
                    continue
                check_step(
                    grid_factory, position, orientation, held_factory, action
                )


def door_matrix():
    """statuses x door colours x held items x relative poses x actions"""
    shape = (3, 4)  # non-square;  the door sits on border / corner / inside
    for door_position in [Position(0, 0), Position(1, 2), Position(2, 3)]:
        for status, color in itt.product(Door.Status, COLORS):

            def grid_factory():
                grid = Grid.from_shape(shape)
                grid[door_position] = Door(status, color)
                return grid

            for position, orientation, held_factory, action in itt.product(
                all_cells(shape), Orientation, HELD_FACTORIES, Action
            ):
                if action is Action.ACTUATE:
                    check_step(
                        grid_factory,
                        position,
                        orientation,
                        held_factory,
                        action,
                    )

                # explicit, hard-coded expectation (not via the reference)
                held = None if held_factory is None else held_factory()
                state = State(
                    grid_factory(), Agent(position, orientation, held)
                )
                dy, dx = FRONT[orientation]
                faced = (position.y + dy, position.x + dx) == door_position.yx
                actuate_door(state, action)
                door = state.grid[door_position]
                opens = (
                    faced
                    and action is Action.ACTUATE
                    and (
                        status is Door.Status.CLOSED
                        or (
                            status is Door.Status.LOCKED
                            and type(held) is Key
                            and held.color is color
                        )
                    )
                )
                check(
                    door.state is (Door.Status.OPEN if opens else status),
                    'door matrix',
                    status,
                    color,
                    held,
                    position,
                    orientation,
                    action,
                )
                check(door.color is color, 'door colour changed')


def randomised(seed, n):
    rng = random.Random(seed)
    for _ in range(n):
        shape = (rng.randint(1, 6), rng.randint(1, 6))
        snapshot_rng_state = rng.getstate()

        def grid_factory():
            local = random.Random()
            local.setstate(snapshot_rng_state)
            return make_random_grid(shape, local)

        make_random_grid(shape, rng)  # advance the stream
        position = Position(
            rng.randrange(shape[0]), rng.randrange(shape[1])
        )
        orientation = rng.choice(list(Orientation))
        held_factory = rng.choice(HELD_FACTORIES)
        action = rng.choice([Action.ACTUATE, rng.choice(list(Action))])
        check_step(grid_factory, position, orientation, held_factory, action)


def unlocking_helper():
    """`Door.is_unlocked_by`, when available, agrees with the documentation"""
    if not hasattr(Door, 'is_unlocked_by'):
        return

    for status, color in itt.product(Door.Status, COLORS):
        door = Door(status, color)
        for held_factory in HELD_FACTORIES[1:]:
            held = held_factory()
            expected = type(held) is Key and held.color is color
            check(door.is_unlocked_by(held) is expected, door, held)
            check(door.state is status and door.color is color, 'pure')


def make_env(shape, seed):
    transition_function = factory(
        'chain',
        transition_functions=[
            factory('move_agent'),
            factory('turn_agent'),
            factory('actuate_door'),
            factory('actuate_box'),
            factory('pickndrop'),
        ],
    )
    object_types = [Floor, Wall, Exit, Door, Key, NoneGridObject]
    env = GridWorld(
        StateSpace(shape, object_types, [Color.YELLOW]),
        ActionSpace(list(Action)),
        ObservationSpace(Shape(3, 3), object_types, [Color.YELLOW]),
        partial(keydoor, shape),
        transition_function,
        lambda state, *, rng=None: None,
        reward_fs.factory('actuate_door'),
        lambda state, action, next_state, *, rng=None: False,
    )
    env.set_seed(seed)
    return env


def find_door(state):
    (position,) = [
        position
        for position in state.grid.area.positions()
        if isinstance(state.grid[position], Door)
    ]
    return position


def rollout(env, seed, steps):
    """random + goal-directed walk;  the locked door opens only via its key"""
    rng = random.Random(seed)
    state = env.functional_reset()
    door_position = find_door(state)
    trace = [describe_state(state)]
    opened = False

    for _ in range(steps):
        action = rng.choice(
            list(Action) + [Action.ACTUATE, Action.PICK_N_DROP] * 2
        )
        next_state, reward, _ = env.functional_step(state, action)

        door = state.grid[door_position]
        next_door = next_state.grid[door_position]
        check(isinstance(next_door, Door), 'door vanished')
        check(next_door.color is Color.YELLOW, 'door colour')

        if door.state is not next_door.state:
            check(door.state is Door.Status.LOCKED, 'only towards open')
            check(next_door.state is Door.Status.OPEN, 'only towards open')
            check(action is Action.ACTUATE, 'only by actuate')
            check(state.agent.front() == door_position, 'only when faced')
            held = state.agent.grid_object
            check(
                isinstance(held, Key) and held.color is Color.YELLOW,
                'only with the matching key',
            )
            check(
                describe(next_state.agent.grid_object)
                == ('Key', 'YELLOW'),
                'key consumed',
            )
            check(reward == 1.0, 'opening reward')
            opened = True
        else:
            check(reward == 0.0, 'no door change, no door reward')

        # the number of keys in the world (grid + hand) never changes
        n_keys = sum(
            isinstance(next_state.grid[position], Key)
            for position in next_state.grid.area.positions()
        ) + isinstance(next_state.agent.grid_object, Key)
        check(n_keys == 1, 'number of keys changed')

        state = next_state
        trace.append(describe_state(state))

    return trace, opened


def scripted_keydoor():
    """fetch the key, walk to the door, open it -- deterministic script"""
    grid = Grid.from_shape((3, 5), factory=Floor)
    grid[1, 3] = Door(Door.Status.LOCKED, Color.YELLOW)
    grid[0, 3] = Wall()
    grid[2, 3] = Wall()
    grid[1, 0] = Key(Color.YELLOW)
    grid[2, 0] = Key(Color.BLUE)
    state = State(grid, Agent(Position(1, 1), Orientation.RIGHT))
    transition_function = factory(
        'chain',
        transition_functions=[
            factory('move_agent'),
            factory('turn_agent'),
            factory('actuate_door'),
            factory('actuate_box'),
            factory('pickndrop'),
        ],
    )

    def step(state, action):
        return transition_with_copy(transition_function, state, action)

    def door_status(state):
        return state.grid[1, 3].state

    # walk to the door without key:  locked stays locked
    state = step(state, Action.MOVE_FORWARD)
    check(state.agent.position == Position(1, 2), 'walk')
    for _ in range(3):
        state = step(state, Action.ACTUATE)
        check(door_status(state) is Door.Status.LOCKED, 'no key, no entry')
    state = step(state, Action.MOVE_FORWARD)
    check(state.agent.position == Position(1, 2), 'locked door blocks')

    # wrong key
    for action in [
        Action.TURN_LEFT,
        Action.TURN_LEFT,
        Action.MOVE_FORWARD,
        Action.TURN_LEFT,
    ]:
        state = step(state, action)
    check(state.agent.position == Position(1, 1), 'walk back')
    check(state.agent.front() == Position(2, 1), 'face down')
    state = step(state, Action.MOVE_RIGHT)
    check(state.agent.position == Position(1, 0), 'onto the yellow key cell')
    state = step(state, Action.PICK_N_DROP)
    check(describe(state.agent.grid_object) == ('Key', 'BLUE'), 'blue key')
    for action in [
        Action.MOVE_LEFT,
        Action.MOVE_LEFT,
        Action.TURN_LEFT,
    ]:
        state = step(state, action)
    check(state.agent.front() == Position(1, 3), 'facing the door')
    state = step(state, Action.ACTUATE)
    check(door_status(state) is Door.Status.LOCKED, 'wrong key, no entry')

    # every non-actuate action with the right key in hand, facing the door
    state.agent.grid_object = Key(Color.YELLOW)
    for action in Action:
        if action is not Action.ACTUATE:
            next_state = step(state, action)
            check(
                door_status(next_state) is Door.Status.LOCKED,
                'only actuate opens',
                action,
            )

    state = step(state, Action.ACTUATE)
    check(door_status(state) is Door.Status.OPEN, 'right key opens')
    check(
        describe(state.agent.grid_object) == ('Key', 'YELLOW'), 'key kept'
    )
    state = step(state, Action.ACTUATE)
    check(door_status(state) is Door.Status.OPEN, 'open stays open')
    state = step(state, Action.MOVE_FORWARD)
    check(state.agent.position == Position(1, 3), 'through the open door')


def environments():
    """several environments in one process, interleaved, and re-seeding"""
    shapes = [Shape(4, 6), Shape(5, 7), Shape(6, 5), Shape(4, 9)]
    envs = [make_env(shape, seed) for seed, shape in enumerate(shapes)]
    traces = [rollout(env, 100 + i, 300) for i, env in enumerate(envs)]

    # re-seeding reproduces the very same trajectories, also interleaved in
    # another order and with fresh environment instances in between
    for i in reversed(range(len(envs))):
        make_env(shapes[i], 999).functional_reset()
        envs[i].set_seed(i)
        check(rollout(envs[i], 100 + i, 300) == traces[i], 're-seeding', i)

    # goal-directed:  in every reachable state which faces the door, actuation
    # opens it iff the (only, yellow) key is held
    faced = 0
    for seed in range(40):
        env = make_env(Shape(4, 6), seed)
        rng = random.Random(seed)
        state = env.functional_reset()
        door_position = find_door(state)
        for _ in range(150):
            action = rng.choice(
                list(Action) + [Action.PICK_N_DROP, Action.ACTUATE]
            )
            if state.agent.front() == door_position:
                faced += 1
                probe, _, _ = env.functional_step(state, Action.ACTUATE)
                was = state.grid[door_position].state
                holds = isinstance(state.agent.grid_object, Key)
                expected = (
                    Door.Status.OPEN
                    if holds or was is Door.Status.OPEN
                    else Door.Status.LOCKED
                )
                check(probe.grid[door_position].state is expected, 'probe')
            state, _, _ = env.functional_step(state, action)
    check(faced > 0, 'the door was never faced')


def main():
    check(
        all(
            (Agent(Position(3, 3), orientation).front().yx)
            == (3 + FRONT[orientation][0], 3 + FRONT[orientation][1])
            for orientation in Orientation
        ),
        'hard-coded front table',
    )
    import time

    for part in [
        unlocking_helper,
        exhaustive_small,
        door_matrix,
        partial(randomised, seed=20260926, n=4000),
        scripted_keydoor,
        environments,
    ]:
        start = time.time()
        part()
        print(getattr(part, '__name__', 'randomised'), f'{time.time() - start:.1f}s', CHECKS)
    print(f'OK ({CHECKS} checks)')


if __name__ == '__main__':
    main()
