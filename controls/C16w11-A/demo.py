"""Demo for change A (grid.py: one shared position-unpacking helper for Grid indexing).

Run from the worktree root:  /venv/bin/python _seed/A/demo.py

Exits 0 on the pristine tree and with the patch applied.  It checks property
C16 (faithful numeric representations) against a reference implementation that
is embedded in this file and which never uses ``Grid.__getitem__``: it reads
``grid.objects[y][x]`` directly and recomputes every encoding from first
principles.  It also pins the indexing behaviour of ``Grid`` itself (Position vs
tuple, negative indices, out-of-range, malformed positions) with hard-coded
expectations.
"""
import itertools as itt
import os
import random
import sys

import numpy as np

sys.path.insert(0, os.getcwd())  # the worktree root: import *this* tree

from gym_gridverse.agent import Agent
from gym_gridverse.debugging import reset_gv_debug
from gym_gridverse.envs import observation_functions, reset_functions
from gym_gridverse.geometry import Area, Orientation, Position, Shape
from gym_gridverse.grid import Grid
from gym_gridverse.grid_object import (
    Beacon,
    Color,
    Door,
    Exit,
    Floor,
    GridObject,
    Hidden,
    Key,
    MovingObstacle,
    NoneGridObject,
    Telepod,
    Wall,
    grid_object_registry,
)
from gym_gridverse.observation import Observation
from gym_gridverse.representations.observation_representations import (
    make_observation_representation,
)
from gym_gridverse.representations.state_representations import (
    make_state_representation,
)
from gym_gridverse.rng import make_rng
from gym_gridverse.spaces import ObservationSpace, StateSpace
from gym_gridverse.state import State

reset_gv_debug(True)  # convert() then also runs space.contains()

NAMES = ['default', 'no-overlap', 'compact']
CHECKS = 0


def check(condition, *message):
    global CHECKS
    CHECKS += 1
    if not condition:
        print('FAILED:', *message)
        sys.exit(1)


# ---------------------------------------------------------------- reference


def all_objects(object_type, colors):
    """exhaustively all instances of a type with colours from `colors`"""
    colors = sorted(set(colors) | {Color.NONE}, key=lambda c: c.value)
    if object_type in (Floor, Wall, MovingObstacle, NoneGridObject, Hidden):
        return [object_type()]
    if object_type in (Exit, Key, Telepod, Beacon):
        return [object_type(color) for color in colors]
    if object_type is Door:
        return [
            Door(status, color) for status in Door.Status for color in colors
        ]
    raise AssertionError(object_type)


def raw_triple(obj):
    """(type, status, colour) read without GridObject helpers"""
    return (
        list(grid_object_registry.data).index(type(obj)),
        obj.state_index,
        obj.color.value,
    )


class Reference:
    """reference per-object encodings for a set of types and colours"""

    def __init__(self, name, types, colors):
        self.name = name
        self.types = sorted(
            set(types), key=lambda t: list(grid_object_registry.data).index(t)
        )
        self.colors = sorted(set(colors) | {Color.NONE}, key=lambda c: c.value)
        indices = [list(grid_object_registry.data).index(t) for t in self.types]
        self.max_type = max(indices)
        self.max_num_states = max(t.num_states() for t in self.types)
        self.max_color = max(c.value for c in self.colors)

        # compact tables: consecutive integers, types, then statuses, then colours
        counter = itt.count()
        self.compact_type = {t: next(counter) for t in self.types}
        self.compact_status = {
            (t, j): next(counter)
            for t in self.types
            for j in range(t.num_states())
        }
        self.compact_color = {c: next(counter) for c in self.colors}
        self.compact_size = next(counter)

    def encode(self, obj):
        i, j, k = raw_triple(obj)
        if self.name == 'default':
            return (i, j, k)
        if self.name == 'no-overlap':
            return (
                i,
                self.max_type + 1 + j,
                self.max_type + 1 + self.max_num_states + 1 + k,
            )
        if self.name == 'compact':
            return (
                self.compact_type[type(obj)],
                self.compact_status[type(obj), j],
                self.compact_color[obj.color],
            )
        raise AssertionError(self.name)

    def upper_bound(self):
        if self.name == 'default':
            return (self.max_type, self.max_num_states, self.max_color)
        if self.name == 'no-overlap':
            return (
                self.max_type,
                self.max_type + 1 + self.max_num_states,
                self.max_type + 1 + self.max_num_states + 1 + self.max_color,
            )
        return (
            max(self.compact_type.values()),
            max(self.compact_status.values()),
            max(self.compact_color.values()),
        )


def reference_grid(ref, grid):
    """(H, W, 3) array read from the raw nested list, never through Grid[...]"""
    height, width = len(grid.objects), len(grid.objects[0])
    out = np.zeros((height, width, 3), int)
    for y in range(height):
        for x in range(width):
            out[y, x] = ref.encode(grid.objects[y][x])
    return out


def reference_marker(grid, agent):
    out = np.zeros((len(grid.objects), len(grid.objects[0])), int)
    out[agent.position.y, agent.position.x] = 1
    return out


def reference_agent(grid, agent):
    height, width = len(grid.objects), len(grid.objects[0])
    out = np.zeros(6)
    out[0] = (2 * agent.position.y - height + 1) / (height - 1)
    out[1] = (2 * agent.position.x - width + 1) / (width - 1)
    out[2 + agent.orientation.value] = 1
    return out


def rep_key(rep):
    """hashable stand-in for a representation: equal keys iff equal arrays"""
    return tuple(
        (key, rep[key].shape, (rep[key] + 0.0).tobytes()) for key in sorted(rep)
    )


def reps_equal(r1, r2):
    return r1.keys() == r2.keys() and all(
        np.array_equal(r1[key], r2[key]) for key in r1
    )


def raw_equal(a, b, *, with_orientation):
    """equality of states/observations decided on raw data only"""
    if len(a.grid.objects) != len(b.grid.objects):
        return False
    if len(a.grid.objects[0]) != len(b.grid.objects[0]):
        return False
    for row_a, row_b in zip(a.grid.objects, b.grid.objects):
        for obj_a, obj_b in zip(row_a, row_b):
            if type(obj_a) is not type(obj_b) or raw_triple(
                obj_a
            ) != raw_triple(obj_b):
                return False
    if (a.agent.position.y, a.agent.position.x) != (
        b.agent.position.y,
        b.agent.position.x,
    ):
        return False
    if with_orientation and a.agent.orientation is not b.agent.orientation:
        return False
    return raw_triple(a.agent.grid_object) == raw_triple(b.agent.grid_object)


# ------------------------------------------------------ per-object encodings


def check_object_encodings(name, ref, grid_object_rep, pool):
    codes = {}
    for obj in pool:
        code = tuple(int(v) for v in grid_object_rep.convert(obj))
        check(code == ref.encode(obj), name, obj, code, ref.encode(obj))
        # repeated calls and a freshly built equal object agree
        again = tuple(int(v) for v in grid_object_rep.convert(obj))
        check(code == again, 'repeated convert', name, obj)
        codes.setdefault(code, []).append(obj)
    # lossless: different objects get different codes
    for code, objs in codes.items():
        check(
            all(raw_triple(o) == raw_triple(objs[0]) for o in objs),
            'collision',
            name,
            code,
            objs,
        )
    space = grid_object_rep.space
    check(
        tuple(int(v) for v in space.upper_bound) == ref.upper_bound(),
        'upper bound',
        name,
        space.upper_bound,
        ref.upper_bound(),
    )
    check(tuple(int(v) for v in space.lower_bound) == (0, 0, 0), 'lower bound')
    for code in codes:
        check(space.contains(np.array(code)), 'code outside space', name, code)

    channels = [set(code[c] for code in codes) for c in range(3)]
    # every colour of the space, also those no object of the pool can take
    # (the colour channel does not depend on the type of the probe)
    for color in ref.colors:
        probe = NoneGridObject()  # always a type of the representation
        probe.color = color
        value = int(grid_object_rep.convert(probe)[2])
        check(value == ref.encode(probe)[2], 'colour probe', name, color)
        channels[2].add(value)
    check(len(channels[2]) == len(ref.colors), 'colour channel is injective')
    if name in ('no-overlap', 'compact'):
        for c1, c2 in itt.combinations(range(3), 2):
            check(
                max(channels[c1]) < min(channels[c2]),
                'channels overlap',
                name,
                channels,
            )
    if name == 'compact':
        used = set().union(*channels)
        check(
            used == set(range(ref.compact_size)),
            'compact values not consecutive from zero',
            sorted(used),
            ref.compact_size,
        )


# ---------------------------------------------------------- random members


def agent_positions(height, width):
    """corners, border midpoints, centre"""
    ys = sorted({0, height // 2, height - 1})
    xs = sorted({0, width // 2, width - 1})
    return [Position(y, x) for y in ys for x in xs]


def random_grid(rnd, height, width, pool):
    return Grid(
        [[rnd.choice(pool) for _ in range(width)] for _ in range(height)]
    )


def clone_grid(grid):
    """an equal grid made of freshly built, distinct objects"""

    def clone(obj):
        if isinstance(obj, Door):
            return Door(obj.state, obj.color)
        if isinstance(obj, (Exit, Key, Telepod, Beacon)):
            return type(obj)(obj.color)
        return type(obj)()

    return Grid([[clone(obj) for obj in row] for row in grid.objects])


def state_scenarios(rnd, shape, grid_pool, item_pool):
    height, width = shape.height, shape.width
    states = []
    base_grids = [random_grid(rnd, height, width, grid_pool) for _ in range(3)]
    # a grid filled with one single object: every cell must get the same entry
    base_grids.append(
        Grid([[grid_pool[-1] for _ in range(width)] for _ in range(height)])
    )
    for grid in base_grids:
        for position in agent_positions(height, width):
            orientation = rnd.choice(list(Orientation))
            item = rnd.choice(item_pool)
            states.append(State(grid, Agent(position, orientation, item)))
    grid = base_grids[0]
    corner = Position(height - 1, width - 1)
    # all four headings in a corner
    for orientation in Orientation:
        states.append(State(grid, Agent(corner, orientation)))
    # every held item in a corner
    for item in item_pool:
        states.append(State(grid, Agent(corner, Orientation.L, item)))
    # equal copy built from fresh objects; single-cell variations
    states.append(State(clone_grid(grid), Agent(corner, Orientation.F)))
    for y, x in [(0, 0), (height - 1, 0), (0, width - 1), (height - 1, width - 1)]:
        for obj in rnd.sample(grid_pool, min(3, len(grid_pool))):
            variant = clone_grid(grid)
            variant.objects[y][x] = obj
            states.append(State(variant, Agent(corner, Orientation.F)))
    # two cells swapped
    swapped = clone_grid(grid)
    swapped.swap(Position(0, 0), Position(height - 1, width - 1))
    states.append(State(swapped, Agent(corner, Orientation.F)))
    return states


def check_members(
    name, kind, space, representation, ref, members, *, with_orientation
):
    converted = []
    spaces = representation.space
    for member in members:
        check(space.contains(member), 'member not contained', kind, member)
        rep = representation.convert(member)
        again = representation.convert(member)
        check(reps_equal(rep, again), 'convert is not repeatable')
        expected_keys = {'grid', 'agent_id_grid', 'item'}
        if kind == 'state':
            expected_keys.add('agent')
        check(set(rep) == expected_keys, 'keys', rep.keys())

        # positional: entry (y, x) is the encoding of the object in (y, x)
        check(
            np.array_equal(rep['grid'], reference_grid(ref, member.grid)),
            'grid representation',
            name,
            kind,
            member,
        )
        check(rep['grid'].shape == member.grid.shape.as_tuple + (3,), 'shape')
        # agent marker exactly at the agent's cell
        check(
            np.array_equal(
                rep['agent_id_grid'], reference_marker(member.grid, member.agent)
            ),
            'agent marker',
            name,
            kind,
            member,
        )
        check(rep['agent_id_grid'].sum() == 1, 'one marker')
        check(
            tuple(rep['item']) == ref.encode(member.agent.grid_object), 'item'
        )
        if kind == 'state':
            check(
                np.array_equal(
                    rep['agent'], reference_agent(member.grid, member.agent)
                ),
                'agent array',
                member,
            )
        for key, array in rep.items():
            check(
                spaces[key].contains(array),
                'representation outside of its space',
                name,
                kind,
                key,
            )
        converted.append(rep)

    # lossless on all pairs; equal ones hash alike
    equalities = pair_equalities(members, with_orientation)
    keys = [rep_key(rep) for rep in converted]
    check(reps_equal(converted[0], converted[0]), 'reflexive')
    for i, j in itt.combinations(range(len(members)), 2):
        if (i + j) % 7 == 0:  # the fast comparison agrees with numpy's
            check(
                (keys[i] == keys[j]) == reps_equal(converted[i], converted[j]),
                'rep_key',
            )
        check(
            equalities[i, j] == (keys[i] == keys[j]),
            'faithfulness',
            name,
            kind,
            members[i],
            members[j],
        )


_PAIR_EQUALITIES = {}


def pair_equalities(members, with_orientation):
    """library equality of all pairs (checked against raw equality and hashes),
    computed once per list of members and shared by the three encodings"""
    try:
        return _PAIR_EQUALITIES[id(members)][1]
    except KeyError:
        pass
    equalities = {}
    for (i, m1), (j, m2) in itt.combinations(enumerate(members), 2):
        equal = m1 == m2
        if (i + j) % 5 == 0:
            check(equal == (m2 == m1) and equal != (m1 != m2), 'symmetry')
        check(
            equal == raw_equal(m1, m2, with_orientation=with_orientation),
            'library equality differs from raw equality',
            m1,
            m2,
        )
        if equal:
            check(hash(m1) == hash(m2), 'hash of equal members', m1, m2)
            check(hash(m1.grid) == hash(m2.grid), 'hash of equal grids')
            check(hash(m1.agent) == hash(m2.agent), 'hash of equal agents')
        equalities[i, j] = equal
    _PAIR_EQUALITIES[id(members)] = (members, equalities)  # keeps the id alive
    return equalities


def observation_scenarios(rnd, shape, grid_pool, item_pool):
    height, width = shape.height, shape.width
    position = Position(height - 1, width // 2)
    observations = []
    grids = [random_grid(rnd, height, width, grid_pool) for _ in range(4)]
    grids.append(
        Grid([[Hidden() for _ in range(width)] for _ in range(height)])
    )
    for grid in grids:
        item = rnd.choice(item_pool)
        observations.append(
            Observation(grid, Agent(position, Orientation.F, item))
        )
    grid = grids[0]
    for item in item_pool:
        observations.append(
            Observation(grid, Agent(position, Orientation.F, item))
        )
    observations.append(
        Observation(clone_grid(grid), Agent(position, Orientation.F))
    )
    for y, x in {(0, 0), (height - 1, 0), (0, width - 1), (height - 1, width - 1)}:
        for obj in rnd.sample(grid_pool, min(3, len(grid_pool))):
            variant = clone_grid(grid)
            variant.objects[y][x] = obj
            observations.append(
                Observation(variant, Agent(position, Orientation.F))
            )
    # agent markers elsewhere (legal members of the space as well)
    for other in agent_positions(height, width)[:4]:
        observations.append(Observation(grid, Agent(other, Orientation.F)))
    return observations


TYPE_SUBSETS = [
    [Floor, Wall],
    [Floor, Door],
    [Wall, Floor, Exit, Door, Key],
    [Key, Telepod, Beacon, MovingObstacle, Floor],
    [Floor, Wall, Exit, Door, Key, MovingObstacle, Telepod, Beacon],
]
COLOR_SUBSETS = [
    [],
    [Color.RED],
    [Color.GREEN, Color.YELLOW],
    list(Color),
]
STATE_SHAPES = [Shape(2, 2), Shape(2, 5), Shape(4, 3), Shape(3, 7)]
OBSERVATION_SHAPES = [Shape(1, 1), Shape(1, 3), Shape(3, 1), Shape(2, 3), Shape(5, 3), Shape(3, 5)]


def main_spaces():
    rnd = random.Random(16)
    for types, colors in itt.product(TYPE_SUBSETS, COLOR_SUBSETS):
        grid_pool = [o for t in types for o in all_objects(t, colors)]
        item_pool = grid_pool + [NoneGridObject()]
        observation_pool = grid_pool + [Hidden()]

        for shape in STATE_SHAPES:
            space = StateSpace(shape, types, colors)
            members = state_scenarios(rnd, shape, grid_pool, item_pool)
            for name in NAMES:
                ref = Reference(name, types + [NoneGridObject], colors)
                representation = make_state_representation(name, space)
                if shape == STATE_SHAPES[0]:
                    check_object_encodings(
                        name,
                        ref,
                        representation.representations[
                            'grid'
                        ].grid_object_representation,
                        item_pool,
                    )
                check_members(
                    name,
                    'state',
                    space,
                    representation,
                    ref,
                    members,
                    with_orientation=True,
                )

        for shape in OBSERVATION_SHAPES:
            space = ObservationSpace(shape, types, colors)
            members = observation_scenarios(
                rnd, shape, observation_pool, item_pool
            )
            for name in NAMES:
                ref = Reference(name, types + [NoneGridObject, Hidden], colors)
                representation = make_observation_representation(name, space)
                if shape == OBSERVATION_SHAPES[0]:
                    check_object_encodings(
                        name,
                        ref,
                        representation.representations[
                            'grid'
                        ].grid_object_representation,
                        observation_pool + [NoneGridObject()],
                    )
                check_members(
                    name,
                    'observation',
                    space,
                    representation,
                    ref,
                    members,
                    with_orientation=False,
                )


# ----------------------------------------------------- environments in use


def main_environments():
    """states from reset functions, observations from observation functions"""
    types = [Floor, Wall, Exit, Door, Key]
    colors = [Color.YELLOW]
    for state_shape, observation_shape in [
        (Shape(5, 7), Shape(3, 5)),
        (Shape(8, 5), Shape(4, 3)),
        (Shape(6, 6), Shape(7, 7)),  # view larger than the grid
    ]:
        state_space = StateSpace(state_shape, types, colors)
        observation_space = ObservationSpace(observation_shape, types, colors)

        states, observations = [], []
        for seed in [0, 1, 0, 2, 1]:  # re-seeding repeats states
            state = reset_functions.keydoor(state_shape, rng=make_rng(seed))
            positions = agent_positions(state_shape.height, state_shape.width)
            for position, orientation in itt.product(positions, Orientation):
                moved = State(
                    state.grid, Agent(position, orientation, Key(Color.YELLOW))
                )
                states.append(moved)
                for function in [
                    observation_functions.fully_transparent,
                    observation_functions.partially_occluded,
                    observation_functions.raytracing,
                ]:
                    observations.append(
                        function(
                            moved, area=observation_space.area, rng=make_rng(3)
                        )
                    )
            states.append(state)

        rnd = random.Random(5)
        states = rnd.sample(states, 60)
        observations = rnd.sample(observations, 80)
        for name in NAMES:
            check_members(
                name,
                'state',
                state_space,
                make_state_representation(name, state_space),
                Reference(name, types + [NoneGridObject], colors),
                states,
                with_orientation=True,
            )
            check_members(
                name,
                'observation',
                observation_space,
                make_observation_representation(name, observation_space),
                Reference(name, types + [NoneGridObject, Hidden], colors),
                observations,
                with_orientation=False,
            )


# -------------------------------------------------- Grid indexing, pinned


def raises(exception_type, function):
    try:
        function()
    except exception_type:
        return True
    except Exception as error:  # pylint: disable=broad-except
        print('unexpected exception', type(error), error)
        return False
    return False


def main_grid_indexing():
    a, b, c, d, e, f = Floor(), Wall(), Key(Color.RED), Exit(), Beacon(Color.BLUE), Door(Door.Status.LOCKED, Color.GREEN)
    grid = Grid([[a, b, c], [d, e, f]])  # 2 x 3, non-square
    rows = [[a, b, c], [d, e, f]]

    for y, x in itt.product(range(2), range(3)):
        check(grid[y, x] is rows[y][x], 'tuple index')
        check(grid[Position(y, x)] is rows[y][x], 'Position index')
        check(grid[[y, x]] is rows[y][x], 'list index')
        check(grid[np.array([y, x])] is rows[y][x], 'array index')
        check(grid[np.int64(y), np.int64(x)] is rows[y][x], 'numpy ints')
        check(
            grid.get(Position(y, x), factory=Hidden) is rows[y][x], 'get inside'
        )
        check(grid.get((y, x), factory=Hidden) is rows[y][x], 'get inside')

    # python-list semantics for negative indices are part of the behaviour
    check(grid[-1, -1] is f, 'negative indices')
    check(grid[Position(-2, -3)] is a, 'negative Position')
    check(grid[0, -1] is c, 'mixed')

    # out of range
    for position in [(2, 0), (0, 3), Position(2, 0), Position(0, 3), (-3, 0), (0, -4)]:
        check(raises(IndexError, lambda p=position: grid[p]), 'IndexError', position)
        check(
            isinstance(grid.get(position, factory=Hidden), Hidden),
            'get outside',
            position,
        )

    # malformed positions: same exception types as ever
    check(raises(TypeError, lambda: grid[1]), 'int position')
    check(raises(TypeError, lambda: grid[None]), 'None position')
    check(raises(ValueError, lambda: grid[(0, 1, 2)]), 'triple')
    check(raises(ValueError, lambda: grid[(0,)]), 'singleton')
    check(raises(TypeError, lambda: grid['ab']), 'string position')
    check(raises(TypeError, lambda: grid[0.0, 1.0]), 'float indices')

    # __setitem__: position is unpacked first, then the object is validated
    target = Grid.from_shape((2, 3))
    target[Position(1, 2)] = c
    target[0, 0] = b
    target[-1, 0] = e
    check(target.objects[1][2] is c and target.objects[0][0] is b, 'setitem')
    check(target.objects[1][0] is e, 'setitem negative')
    check(raises(TypeError, lambda: target.__setitem__((0, 0), 'wall')), 'non object')
    check(raises(TypeError, lambda: target.__setitem__((0, 0), Wall)), 'class')
    check(raises(ValueError, lambda: target.__setitem__((0, 0, 0), 'wall')), 'position first')
    check(raises(IndexError, lambda: target.__setitem__((2, 0), Wall())), 'setitem outside')
    check(target.objects[0][0] is b, 'failed setitem leaves the grid alone')
    check(
        sum(isinstance(o, Floor) for row in target.objects for o in row) == 3,
        'only three cells were written',
    )

    # swap, equality, hashing, rotation, subgrid still agree with raw data
    other = Grid([[a, b, c], [d, e, f]])
    check(grid == other and hash(grid) == hash(other), 'equal grids')
    other.swap(Position(0, 0), Position(1, 2))
    check(other.objects[0][0] is f and other.objects[1][2] is a, 'swap')
    check(grid != other, 'swap changes the grid')
    other.swap(Position(1, 2), Position(0, 0))
    check(grid == other and hash(grid) == hash(other), 'swap back')
    check(grid != Grid([[a, b], [d, e]]), 'different shapes')
    check(grid != Grid([[a, d], [b, e], [c, f]]), 'transposed shape')
    check(not (grid == 'grid'), 'foreign types')
    check(grid.object_types() == {Floor, Wall, Key, Exit, Beacon, Door}, 'types')

    sub = grid.subgrid(Area((-1, 1), (1, 3)))
    expected = [[Hidden(), Hidden(), Hidden()], [b, c, Hidden()], [e, f, Hidden()]]
    for y, x in itt.product(range(3), range(3)):
        check(sub[y, x] == expected[y][x], 'subgrid', y, x)
        check(sub[Position(y, x)] == expected[y][x], 'subgrid', y, x)

    rotated = grid * Orientation.R
    check(rotated.shape == Shape(3, 2), 'rotated shape')
    for position in rotated.area.positions():
        check(rotated[position] is rotated.objects[position.y][position.x], 'rotated')


def main_new_type_registered_later():
    """types registered by another environment later do not disturb encodings"""
    types, colors = [Floor, Wall, Door, Key], [Color.RED, Color.BLUE]
    space = StateSpace(Shape(3, 4), types, colors)
    rnd = random.Random(1)
    pool = [o for t in types for o in all_objects(t, colors)]
    members = state_scenarios(rnd, Shape(3, 4), pool, pool + [NoneGridObject()])
    representations = {
        name: make_state_representation(name, space) for name in NAMES
    }
    before = {
        name: [representations[name].convert(m) for m in members]
        for name in NAMES
    }

    class DemoLateObject(GridObject):  # registers itself
        state_index = 0
        color = Color.NONE
        blocks_movement = False
        blocks_vision = False
        holdable = False

        @classmethod
        def can_be_represented_in_state(cls):
            return True

        @classmethod
        def num_states(cls):
            return 1

    check(DemoLateObject in grid_object_registry, 'registered')
    for name in NAMES:
        fresh = make_state_representation(name, space)
        for member, old in zip(members, before[name]):
            check(reps_equal(representations[name].convert(member), old), 'same instance')
            check(reps_equal(fresh.convert(member), old), 'fresh instance')

    # a space which includes the late type works too
    late_types = types + [DemoLateObject]
    late_space = StateSpace(Shape(3, 4), late_types, colors)
    late_pool = pool + [DemoLateObject()]
    late_members = state_scenarios(
        rnd, Shape(3, 4), late_pool, late_pool + [NoneGridObject()]
    )
    for name in NAMES:
        check_members(
            name,
            'state',
            late_space,
            make_state_representation(name, late_space),
            Reference(name, late_types + [NoneGridObject], colors),
            late_members,
            with_orientation=True,
        )


if __name__ == '__main__':
    main_grid_indexing()
    main_spaces()
    main_environments()
    main_new_type_registered_later()
    print(f'demo A: all {CHECKS} checks passed')
