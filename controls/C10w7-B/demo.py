"""Check program for commit B (Door.open / Door.is_unlocked_by / Door.is_closed
helpers, actuate_door switched to them).

Run as:  cd /tmp/wt7-C10 && /venv/bin/python -W ignore _seed/B/demo.py

The helper methods are only exercised directly when they exist (they do not on
the clean tree);  everything which goes through the transition functions is
checked in both cases.

Everything is asserted against an independent re-implementation written in
this file (plain tuples and dictionaries, no library geometry), so the program
gives the same verdict on the clean tree and with the commit applied.
"""
import os
import sys

sys.path.insert(0, os.getcwd())

import itertools as itt  # noqa: E402

import numpy as np  # noqa: E402
import numpy.random as rnd  # noqa: E402

from gym_gridverse.action import Action  # noqa: E402
from gym_gridverse.agent import Agent  # noqa: E402
from gym_gridverse.envs import transition_functions as tfs  # noqa: E402
from gym_gridverse.envs.reward_functions import (  # noqa: E402
    actuate_door as reward_actuate_door,
)
from gym_gridverse.envs.yaml.factory import (  # noqa: E402
    factory_env_from_data,
)
from gym_gridverse.geometry import (  # noqa: E402
    Orientation,
    Position,
    Shape,
)
from gym_gridverse.grid import Grid  # noqa: E402
from gym_gridverse.grid_object import (  # noqa: E402
    Beacon,
    Box,
    Color,
    Door,
    Exit,
    Floor,
    Key,
    MovingObstacle,
    NoneGridObject,
    Telepod,
    Wall,
)
from gym_gridverse.state import State  # noqa: E402

# ---------------------------------------------------------------------------
# independent reference model
# ---------------------------------------------------------------------------

# (dy, dx) of the faced cell, written out by hand
DELTAS = {
    Orientation.FORWARD: (-1, 0),
    Orientation.BACKWARD: (1, 0),
    Orientation.LEFT: (0, -1),
    Orientation.RIGHT: (0, 1),
}
TURN_LEFT = {
    Orientation.FORWARD: Orientation.LEFT,
    Orientation.LEFT: Orientation.BACKWARD,
    Orientation.BACKWARD: Orientation.RIGHT,
    Orientation.RIGHT: Orientation.FORWARD,
}
TURN_RIGHT = {v: k for k, v in TURN_LEFT.items()}
MOVES = {
    Action.MOVE_FORWARD: lambda o: o,
    Action.MOVE_LEFT: lambda o: TURN_LEFT[o],
    Action.MOVE_RIGHT: lambda o: TURN_RIGHT[o],
    Action.MOVE_BACKWARD: lambda o: TURN_LEFT[TURN_LEFT[o]],
}
ORIENTATIONS = list(DELTAS)
ACTIONS = list(Action)
assert len(ACTIONS) == 8 and len(ORIENTATIONS) == 4


def snap_obj(obj):
    """plain-data description of a grid object"""
    if isinstance(obj, Door):
        return ('Door', obj.state.name, obj.color.name)
    if isinstance(obj, Box):
        return ('Box', snap_obj(obj.content))
    return (type(obj).__name__, obj.color.name)


def snap(state):
    """plain-data description of a state"""
    cells = tuple(
        tuple(snap_obj(obj) for obj in row) for row in state.grid.objects
    )
    agent = (
        int(state.agent.position.y),
        int(state.agent.position.x),
        state.agent.orientation,
        snap_obj(state.agent.grid_object),
    )
    return cells, agent


def ids(state):
    """identities of everything a caller could hold on to"""
    return (
        id(state.grid),
        id(state.grid.objects),
        tuple(id(row) for row in state.grid.objects),
        tuple(tuple(id(obj) for obj in row) for row in state.grid.objects),
        id(state.agent),
        id(state.agent.grid_object),
    )


def model_front(agent, height, width):
    y, x, orientation, _ = agent
    dy, dx = DELTAS[orientation]
    fy, fx = y + dy, x + dx
    return (fy, fx) if 0 <= fy < height and 0 <= fx < width else None


def model_actuate_door(cells, agent, action):
    """cells: list of lists of snapshots (mutated in place)"""
    if action is not Action.ACTUATE:
        return
    front = model_front(agent, len(cells), len(cells[0]))
    if front is None:
        return
    fy, fx = front
    obj = cells[fy][fx]
    if obj[0] != 'Door':
        return
    _, status, color = obj
    held = agent[3]
    if status == 'CLOSED':
        cells[fy][fx] = ('Door', 'OPEN', color)
    elif status == 'LOCKED' and held == ('Key', color):
        cells[fy][fx] = ('Door', 'OPEN', color)


def model_actuate_box(cells, agent, action):
    if action is not Action.ACTUATE:
        return
    front = model_front(agent, len(cells), len(cells[0]))
    if front is None:
        return
    fy, fx = front
    obj = cells[fy][fx]
    if obj[0] == 'Box':
        cells[fy][fx] = obj[1]


def blocks_movement(obj):
    if obj[0] == 'Door':
        return obj[1] != 'OPEN'
    return obj[0] in ('Wall', 'Box')


def model_step_keydoor(cells, agent, action):
    """move_agent, turn_agent, actuate_door, pickndrop in a row"""
    cells = [list(row) for row in cells]
    y, x, orientation, held = agent
    height, width = len(cells), len(cells[0])
    # move_agent
    if action in MOVES:
        dy, dx = DELTAS[MOVES[action](orientation)]
        ny, nx = y + dy, x + dx
        if 0 <= ny < height and 0 <= nx < width:
            if not blocks_movement(cells[ny][nx]):
                y, x = ny, nx
    # turn_agent
    if action is Action.TURN_LEFT:
        orientation = TURN_LEFT[orientation]
    if action is Action.TURN_RIGHT:
        orientation = TURN_RIGHT[orientation]
    agent = (y, x, orientation, held)
    # actuate_door
    model_actuate_door(cells, agent, action)
    # pickndrop
    if action is Action.PICK_N_DROP:
        front = model_front(agent, height, width)
        if front is not None:
            fy, fx = front
            obj = cells[fy][fx]
            holdable = obj[0] == 'Key'
            if obj[0] == 'Floor' or holdable:
                cells[fy][fx] = (
                    held if held[0] != 'NoneGridObject' else ('Floor', 'NONE')
                )
                held = obj if holdable else ('NoneGridObject', 'NONE')
    return tuple(tuple(row) for row in cells), (y, x, orientation, held)


def rng_state(rng):
    return repr(rng.bit_generator.state)


counts = {}


def count(name, n=1):
    counts[name] = counts.get(name, 0) + n


# ---------------------------------------------------------------------------
# 1. Agent.front
# ---------------------------------------------------------------------------


def check_front():
    coordinates = [-7, -1, 0, 1, 2, 5, 11, np.int64(3), np.int64(-2), np.int64(0)]
    for y, x, orientation in itt.product(
        coordinates, coordinates, ORIENTATIONS
    ):
        agent = Agent(Position(y, x), orientation)
        front = agent.front()
        dy, dx = DELTAS[orientation]
        assert type(front) is Position
        assert front.yx == (y + dy, x + dx), (y, x, orientation, front)
        # agrees with the generic rigid body product
        generic = agent.transform * Position.from_orientation(Orientation.F)
        assert front == generic and type(front.y) is type(generic.y)
        assert type(front.x) is type(generic.x)
        # a new position on every call, the agent is not touched
        assert agent.front() is not front
        assert agent.position.yx == (y, x) and agent.orientation is orientation
        count('front')

    # aliases of the orientation members
    for alias, member in [
        (Orientation.F, Orientation.FORWARD),
        (Orientation.B, Orientation.BACKWARD),
        (Orientation.L, Orientation.LEFT),
        (Orientation.R, Orientation.RIGHT),
    ]:
        assert alias is member
        assert Agent(Position(4, 4), alias).front().yx == (
            4 + DELTAS[member][0],
            4 + DELTAS[member][1],
        )

    # front follows the setters and in-place pose changes
    agent = Agent(Position(2, 3), Orientation.F)
    assert agent.front().yx == (1, 3)
    agent.orientation = Orientation.R
    assert agent.front().yx == (2, 4)
    agent.orientation *= Orientation.R
    assert agent.orientation is Orientation.B and agent.front().yx == (3, 3)
    agent.position = Position(0, 0)
    assert agent.front().yx == (1, 0)
    agent.orientation = Orientation.L
    assert agent.front().yx == (0, -1)
    agent.transform.orientation = Orientation.F
    agent.transform.position = Position(9, 1)
    assert agent.front().yx == (8, 1)
    # ... and copies
    import pickle

    clone = pickle.loads(pickle.dumps(agent))
    assert clone.front().yx == (8, 1)

    # malformed poses fail exactly like the generic product does
    malformed = [
        (Position(1, 1), 'north'),
        (Position(1, 1), 3),
        (Position(1, 1), None),
        (Position(1, 1), []),
        (Position(1, 1), Position(0, 1)),
        ((1, 1), Orientation.F),
        (None, Orientation.L),
        ([1, 1], Orientation.B),
    ]
    for position, orientation in malformed:
        agent = Agent(position, orientation)
        try:
            agent.transform * Position.from_orientation(Orientation.F)
        except Exception as error:  # pylint: disable=broad-except
            expected = (type(error), str(error))
        else:
            raise AssertionError('generic product accepted a malformed pose')
        try:
            agent.front()
        except Exception as error:  # pylint: disable=broad-except
            assert (type(error), str(error)) == expected, (
                position,
                orientation,
                error,
                expected,
            )
        else:
            raise AssertionError('front accepted a malformed pose')
        count('front-malformed')


# ---------------------------------------------------------------------------
# 2. actuate_door / actuate_box, exhaustively on small grids
# ---------------------------------------------------------------------------

HELD_FACTORIES = (
    [lambda: None, NoneGridObject]
    + [lambda color=color: Key(color) for color in Color]
    + [
        Floor,
        Wall,
        lambda: Box(Key(Color.RED)),
        lambda: Telepod(Color.RED),
        lambda: Beacon(Color.BLUE),
        lambda: Door(Door.Status.OPEN, Color.RED),
        lambda: Exit(Color.GREEN),
        MovingObstacle,
    ]
)


def run_transition(function, state, action, rng_mode):
    """runs a transition function, checks no random number is drawn"""
    if rng_mode == 'none':
        result = function(state, action)
    elif rng_mode == 'None':
        result = function(state, action, rng=None)
    else:
        rng = rnd.default_rng(12345)
        before = rng_state(rng)
        result = function(state, action, rng=rng)
        assert rng_state(rng) == before
    assert result is None


def check_one(function, model, state, action, rng_mode):
    before, before_ids = snap(state), ids(state)
    cells = [list(row) for row in before[0]]
    model(cells, before[1], action)
    expected = tuple(tuple(row) for row in cells)

    door_objects = [
        (obj, obj.color)
        for row in state.grid.objects
        for obj in row
        if isinstance(obj, Door)
    ]
    box_contents = {
        (y, x): obj.content
        for y, row in enumerate(state.grid.objects)
        for x, obj in enumerate(row)
        if isinstance(obj, Box)
    }

    run_transition(function, state, action, rng_mode)

    after, after_ids = snap(state), ids(state)
    assert after[0] == expected, (function, before, action, after)
    # agent (pose and held item, hence keys) untouched
    assert after[1] == before[1]
    # containers are the same objects
    assert after_ids[:3] == before_ids[:3] and after_ids[4:] == before_ids[4:]
    # cells are the same objects, apart from an opened box
    for y, row in enumerate(state.grid.objects):
        for x, obj in enumerate(row):
            if before[0][y][x] == after[0][y][x] or before[0][y][x][0] != 'Box':
                assert id(obj) == before_ids[3][y][x]
            else:
                # replaced by the very object it contained
                assert obj is box_contents[y, x]
    # doors keep their colours
    for door, color in door_objects:
        assert door.color is color
    return before[0] != after[0]


def exhaustive_small_grids():
    shapes = [(1, 1), (1, 2), (2, 1), (1, 4), (4, 1), (2, 2), (2, 3), (3, 2)]
    door_colors = [Color.NONE, Color.RED]
    held_factories = [
        lambda: None,
        lambda: Key(Color.NONE),
        lambda: Key(Color.RED),
        lambda: Key(Color.BLUE),
        lambda: Telepod(Color.RED),
    ]
    rng_modes = itt.cycle(['none', 'None', 'rng'])
    for height, width in shapes:
        positions = list(itt.product(range(height), range(width)))
        for (oy, ox), (ay, ax), orientation in itt.product(
            positions, positions, ORIENTATIONS
        ):
            for status, color, held_factory, action in itt.product(
                Door.Status, door_colors, held_factories, ACTIONS
            ):
                grid = Grid.from_shape((height, width))
                grid[oy, ox] = Door(status, color)
                agent = Agent(Position(ay, ax), orientation, held_factory())
                state = State(grid, agent)
                changed = check_one(
                    tfs.actuate_door,
                    model_actuate_door,
                    state,
                    action,
                    next(rng_modes),
                )
                count('door')
                count('door-changed', changed)
                if changed:
                    # in the terms of the property
                    dy, dx = DELTAS[orientation]
                    assert action is Action.ACTUATE
                    assert (ay + dy, ax + dx) == (oy, ox)
                    assert status is not Door.Status.OPEN
                    assert grid[oy, ox].state is Door.Status.OPEN
                    if status is Door.Status.LOCKED:
                        assert isinstance(agent.grid_object, Key)
                        assert agent.grid_object.color is color
                # a box does not care about doors, and vice versa
                check_one(
                    tfs.actuate_box, model_actuate_box, state, action, 'none'
                )

            contents = [
                Floor,
                lambda: Key(Color.GREEN),
                lambda: Door(Door.Status.LOCKED, Color.RED),
                lambda: Box(Box(Key(Color.BLUE))),
                lambda: Exit(),
            ]
            for content_factory, held_factory, action in itt.product(
                contents, held_factories[:3], ACTIONS
            ):
                grid = Grid.from_shape((height, width))
                grid[oy, ox] = Box(content_factory())
                agent = Agent(Position(ay, ax), orientation, held_factory())
                state = State(grid, agent)
                # door function leaves boxes (and doors inside boxes) alone
                assert not check_one(
                    tfs.actuate_door, model_actuate_door, state, action, 'rng'
                )
                changed = check_one(
                    tfs.actuate_box,
                    model_actuate_box,
                    state,
                    action,
                    next(rng_modes),
                )
                count('box')
                count('box-changed', changed)
                if changed:
                    dy, dx = DELTAS[orientation]
                    assert action is Action.ACTUATE
                    assert (ay + dy, ax + dx) == (oy, ox)


def full_colour_table():
    """all statuses x all door colours x all held items x all actions"""
    poses = [
        # (shape, door cell, agent cell, orientation)
        ((3, 5), (1, 2), (2, 2), Orientation.F),  # faced
        ((3, 5), (1, 2), (1, 1), Orientation.R),  # faced
        ((3, 5), (1, 2), (0, 2), Orientation.B),  # faced, agent on border
        ((3, 5), (0, 0), (0, 1), Orientation.L),  # faced, door in corner
        ((3, 5), (1, 2), (2, 2), Orientation.R),  # next to it, looking away
        ((3, 5), (1, 2), (2, 2), Orientation.B),  # back turned, facing border
        ((3, 5), (1, 2), (1, 2), Orientation.F),  # standing on it
        ((3, 5), (1, 2), (2, 3), Orientation.F),  # diagonal
        ((3, 5), (0, 2), (2, 2), Orientation.F),  # two cells ahead
        # facing out of the grid: python's negative indices must not wrap
        ((3, 5), (2, 2), (0, 2), Orientation.F),
        ((3, 5), (1, 4), (1, 0), Orientation.L),
        ((3, 5), (0, 2), (2, 2), Orientation.B),
        ((3, 5), (1, 0), (1, 4), Orientation.R),
        ((5, 2), (4, 1), (0, 1), Orientation.F),
        ((5, 2), (0, 0), (4, 0), Orientation.B),
        ((1, 1), (0, 0), (0, 0), Orientation.F),
    ]
    rng_modes = itt.cycle(['rng', 'none', 'None'])
    for (shape, door_cell, agent_cell, orientation) in poses:
        for status, color, held_factory, action in itt.product(
            Door.Status, Color, HELD_FACTORIES, ACTIONS
        ):
            grid = Grid.from_shape(shape, factory=Wall)
            grid[door_cell] = Door(status, color)
            agent = Agent(Position(*agent_cell), orientation, held_factory())
            state = State(grid, agent)
            held = agent.grid_object
            changed = check_one(
                tfs.actuate_door,
                model_actuate_door,
                state,
                action,
                next(rng_modes),
            )
            dy, dx = DELTAS[orientation]
            faced = (agent_cell[0] + dy, agent_cell[1] + dx) == door_cell
            opens = (
                action is Action.ACTUATE
                and faced
                and (
                    status is Door.Status.CLOSED
                    or (
                        status is Door.Status.LOCKED
                        and type(held) is Key
                        and held.color is color
                    )
                )
            )
            assert changed == opens
            assert grid[door_cell].state is (
                Door.Status.OPEN if opens else status
            )
            assert agent.grid_object is held
            count('door-table')

            # the same door inside a box: only the box responds
            grid = Grid.from_shape(shape, factory=Wall)
            door = Door(status, color)
            grid[door_cell] = Box(door)
            agent = Agent(Position(*agent_cell), orientation, held_factory())
            state = State(grid, agent)
            tfs.chain(
                state,
                action,
                transition_functions=[tfs.actuate_door, tfs.actuate_box],
            )
            assert door.state is status
            if action is Action.ACTUATE and faced:
                assert grid[door_cell] is door
            else:
                assert isinstance(grid[door_cell], Box)
                assert grid[door_cell].content is door
            count('box-table')


# ---------------------------------------------------------------------------
# 3. key-door environments, whole trajectories
# ---------------------------------------------------------------------------


def keydoor_env(shape):
    objects = ['Wall', 'Floor', 'Exit', 'Door', 'Key']
    return factory_env_from_data(
        {
            'state_space': {'objects': objects, 'colors': ['NONE', 'YELLOW']},
            'observation_space': {
                'objects': objects,
                'colors': ['NONE', 'YELLOW'],
            },
            'reset_function': {'name': 'keydoor', 'shape': list(shape)},
            'transition_functions': [
                {'name': 'move_agent'},
                {'name': 'turn_agent'},
                {'name': 'actuate_door'},
                {'name': 'pickndrop'},
            ],
            'reward_functions': [
                {
                    'name': 'actuate_door',
                    'reward_open': 1.0,
                    'reward_close': -1.0,
                },
            ],
            'observation_function': {
                'name': 'partially_occluded',
                'area': [[-6, 0], [-3, 3]],
            },
            'terminating_function': {'name': 'reach_exit'},
        }
    )


def biased_actions(seed, length):
    """action sequence from an rng which is *not* the environment's"""
    rng = rnd.default_rng(1000 + seed)
    weights = np.array([3, 1, 1, 1, 2, 2, 4, 3], dtype=float)
    indices = rng.choice(len(ACTIONS), size=length, p=weights / weights.sum())
    return [ACTIONS[i] for i in indices]


def keydoor_trajectories():
    shapes = [(4, 5), (4, 6), (5, 5), (5, 9), (9, 5), (7, 7), (6, 11), (4, 12)]
    for shape in shapes:
        env = keydoor_env(shape)
        twin = keydoor_env(shape)  # second environment in the same process
        for seed in range(12):
            env.set_seed(seed)
            twin.set_seed(seed)
            env.reset()
            twin.reset()
            assert snap(env.state) == snap(twin.state)
            assert env.state.grid.shape == Shape(*shape)

            (door_cell,) = [
                (y, x)
                for y, row in enumerate(env.state.grid.objects)
                for x, obj in enumerate(row)
                if isinstance(obj, Door)
            ]
            assert env.state.grid[door_cell].state is Door.Status.LOCKED
            matching_key_used = False

            for action in biased_actions(seed, 150):
                state = env.state
                before = snap(state)
                expected = model_step_keydoor(before[0], before[1], action)

                reward, _ = env.step(action)
                twin.step(action)
                after = snap(env.state)

                assert after == expected, (shape, seed, action, before, after)
                assert after == snap(twin.state)
                # the previous state object is left as it was
                assert snap(state) == before and env.state is not state

                # the door, in the terms of the property
                status_before = before[0][door_cell[0]][door_cell[1]][1]
                status_after = after[0][door_cell[0]][door_cell[1]][1]
                front = model_front(before[1], *shape)
                opened = status_before != status_after
                if opened:
                    assert action is Action.ACTUATE and front == door_cell
                    assert (status_before, status_after) == ('LOCKED', 'OPEN')
                    assert before[1][3] == ('Key', 'YELLOW')
                    matching_key_used = True
                if status_after == 'OPEN':
                    assert matching_key_used
                # key not consumed: exactly one key, held or lying around
                keys = sum(
                    obj == ('Key', 'YELLOW') for row in after[0] for obj in row
                ) + (after[1][3] == ('Key', 'YELLOW'))
                assert keys == 1
                # reward function looks at the same faced cell
                assert reward == (1.0 if opened else 0.0)
                assert reward == reward_actuate_door(state, action, env.state)
                count('env-steps')
                count('env-opened', opened)


def scripted_episode():
    """a hand-written episode, with the expected door status after each step"""
    # #######
    # #K.D.E#     agent starts at (1, 2) looking right, i.e. at the door
    # #######
    def build():
        grid = Grid.from_shape((3, 7), factory=Wall)
        grid[1, 1] = Key(Color.YELLOW)
        grid[1, 2] = Floor()
        grid[1, 3] = Door(Door.Status.LOCKED, Color.YELLOW)
        grid[1, 4] = Floor()
        grid[1, 5] = Exit()
        return State(grid, Agent(Position(1, 2), Orientation.R))

    function = tfs.factory(
        'chain',
        transition_functions=[
            tfs.factory('move_agent'),
            tfs.factory('turn_agent'),
            tfs.factory('actuate_door'),
            tfs.factory('actuate_box'),
            tfs.factory('pickndrop'),
        ],
    )
    script = [
        (Action.ACTUATE, 'LOCKED', (1, 2)),  # no key
        (Action.MOVE_FORWARD, 'LOCKED', (1, 2)),  # blocked by the door
        (Action.TURN_LEFT, 'LOCKED', (1, 2)),
        (Action.TURN_LEFT, 'LOCKED', (1, 2)),  # looks at the key
        (Action.ACTUATE, 'LOCKED', (1, 2)),  # actuating a key does nothing
        (Action.PICK_N_DROP, 'LOCKED', (1, 2)),  # holds the key
        (Action.ACTUATE, 'LOCKED', (1, 2)),  # key held, door behind
        (Action.MOVE_BACKWARD, 'LOCKED', (1, 2)),  # door blocks
        (Action.TURN_RIGHT, 'LOCKED', (1, 2)),  # looks at the top wall
        (Action.ACTUATE, 'LOCKED', (1, 2)),  # door on the right hand side
        (Action.TURN_RIGHT, 'LOCKED', (1, 2)),  # looks at the door
        (Action.PICK_N_DROP, 'LOCKED', (1, 2)),  # cannot drop on a door
        (Action.ACTUATE, 'OPEN', (1, 2)),  # opens
        (Action.ACTUATE, 'OPEN', (1, 2)),  # stays open
        (Action.MOVE_FORWARD, 'OPEN', (1, 3)),  # walks in
        (Action.ACTUATE, 'OPEN', (1, 3)),
        (Action.MOVE_FORWARD, 'OPEN', (1, 4)),
        (Action.TURN_LEFT, 'OPEN', (1, 4)),
        (Action.TURN_LEFT, 'OPEN', (1, 4)),  # looks back at the door
        (Action.ACTUATE, 'OPEN', (1, 4)),  # cannot be closed again
    ]
    for copy in [False, True]:
        state = build()
        door = state.grid[1, 3]
        for i, (action, status, cell) in enumerate(script):
            if copy:
                state = tfs.transition_with_copy(function, state, action)
                door = state.grid[1, 3]
            else:
                function(state, action)
                assert state.grid[1, 3] is door
            assert door.state.name == status, (i, action, door)
            assert state.agent.position.yx == cell, (i, action, state.agent)
            assert door.color is Color.YELLOW
            held_key = isinstance(state.agent.grid_object, Key)
            assert held_key == (i >= 5)
            count('scripted')


# ---------------------------------------------------------------------------
# 4. the new Door helpers (only with the commit applied)
# ---------------------------------------------------------------------------


def check_helpers():
    has_helpers = [
        hasattr(Door, name) for name in ['open', 'is_unlocked_by', 'is_closed']
    ]
    assert all(has_helpers) or not any(has_helpers)
    if not all(has_helpers):
        count('helpers-skipped')
        return

    others = [
        NoneGridObject,
        Floor,
        Wall,
        Exit,
        MovingObstacle,
        lambda: Box(Key(Color.RED)),
        lambda: Exit(Color.RED),
        lambda: Telepod(Color.RED),
        lambda: Beacon(Color.RED),
        lambda: Door(Door.Status.OPEN, Color.RED),
    ]
    for status, color in itt.product(Door.Status, Color):
        door = Door(status, color)
        assert door.is_closed == (status.name == 'CLOSED')
        assert [door.is_open, door.is_closed, door.is_locked].count(True) == 1

        # only a key of the door's colour fits, whatever the status
        for key_color in Color:
            key = Key(key_color)
            assert door.is_unlocked_by(key) is (key_color is color)
            assert key.color is key_color and door.state is status
        for factory in others:
            assert door.is_unlocked_by(factory()) is False
        assert door.state is status and door.color is color

        # open: status becomes OPEN, nothing else changes, returns nothing
        index_before = (door.type_index(), door.color)
        assert door.open() is None
        assert door.state is Door.Status.OPEN and door.is_open
        assert (door.type_index(), door.color) == index_before
        assert not door.blocks_movement and not door.blocks_vision
        assert door.open() is None and door.state is Door.Status.OPEN
        assert door == Door(Door.Status.OPEN, color)
        count('helpers')

        # actuate_door does what the helpers say
        for held_factory in HELD_FACTORIES:
            door = Door(status, color)
            grid = Grid.from_shape((2, 3), factory=Wall)
            grid[0, 1] = door
            agent = Agent(Position(1, 1), Orientation.F, held_factory())
            should_open = door.is_closed or (
                door.is_locked and door.is_unlocked_by(agent.grid_object)
            )
            tfs.actuate_door(State(grid, agent), Action.ACTUATE)
            assert door.is_open == (should_open or status.name == 'OPEN')
            count('helpers-actuate')

    # the helpers survive the copies made by the environment
    import pickle

    door = pickle.loads(pickle.dumps(Door(Door.Status.LOCKED, Color.BLUE)))
    assert door.is_locked and door.is_unlocked_by(Key(Color.BLUE))
    door.open()
    assert door.is_open


def check_module_surface():
    """registered names and object registry are what they were"""
    assert set(tfs.transition_function_registry.keys()) >= {
        'chain',
        'move_agent',
        'turn_agent',
        'pickndrop',
        'move_obstacles',
        'actuate_door',
        'actuate_box',
        'teleport',
    }
    from gym_gridverse.grid_object import grid_object_registry

    assert grid_object_registry.names() == [
        'NoneGridObject',
        'Hidden',
        'Floor',
        'Wall',
        'Exit',
        'Door',
        'Key',
        'MovingObstacle',
        'Box',
        'Telepod',
        'Beacon',
    ]
    assert [status.name for status in Door.Status] == ['OPEN', 'CLOSED', 'LOCKED']
    assert Door.num_states() == 3


def main():
    check_module_surface()
    check_helpers()
    check_front()
    exhaustive_small_grids()
    full_colour_table()
    scripted_episode()
    keydoor_trajectories()
    # sanity of the check program itself: the interesting cases did occur
    assert counts['door-changed'] > 0 and counts['box-changed'] > 0
    assert counts['env-opened'] > 0
    print('OK', ' '.join(f'{k}={v}' for k, v in sorted(counts.items())))


if __name__ == '__main__':
    main()
