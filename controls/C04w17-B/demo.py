#!/usr/bin/env python
"""Demo for change B (numeric outer layer: OuterEnv reads + gym adapter spaces).

Checks the outer-environment part of property C04 -- the numeric outer
environment exposes exactly the representations of the inner state and
observation, which are never stale, computed at most once per state, and whose
repeated reads consume no randomness -- and checks that `OuterEnv` (and
`GymEnvironment`, when `gym` can be imported) behave exactly like reference
implementations embedded below (the pristine code, verbatim): same arrays,
same errors in the same order, same calls on the same objects, same rng use.

Run from the worktree root:  /venv/bin/python _seed/B/demo.py
Exits 0 on the pristine tree and with the patch applied.
"""
import itertools
import os
import random
import sys
import warnings
from typing import Dict, Optional, Tuple

# the worktree root (two levels up) holds the package under test
sys.path.insert(
    0, os.path.dirname(os.path.dirname(os.path.dirname(os.path.abspath(__file__))))
)

import numpy as np

from gym_gridverse.action import Action
from gym_gridverse.debugging import reset_gv_debug
from gym_gridverse.envs import observation_functions as observation_fs
from gym_gridverse.envs import reset_functions as reset_fs
from gym_gridverse.envs import reward_functions as reward_fs
from gym_gridverse.envs import terminating_functions as terminating_fs
from gym_gridverse.envs import transition_functions as transition_fs
from gym_gridverse.envs.gridworld import GridWorld
from gym_gridverse.envs.inner_env import InnerEnv
from gym_gridverse.geometry import Area, Position, Shape
from gym_gridverse.grid_object import (
    Beacon,
    Color,
    Door,
    Exit,
    Floor,
    Key,
    MovingObstacle,
    Telepod,
    Wall,
)
from gym_gridverse.outer_env import OuterEnv
from gym_gridverse.representations.observation_representations import (
    make_observation_representation,
)
from gym_gridverse.representations.representation import (
    ObservationRepresentation,
    StateRepresentation,
)
from gym_gridverse.representations.spaces import Space, SpaceType
from gym_gridverse.representations.state_representations import (
    make_state_representation,
)
from gym_gridverse.rng import make_rng
from gym_gridverse.spaces import ActionSpace, ObservationSpace, StateSpace

# --------------------------------------------------------------------------
# reference implementation: the pristine OuterEnv, verbatim
# --------------------------------------------------------------------------


class RefOuterEnv:
    def __init__(
        self,
        env: InnerEnv,
        *,
        state_representation: Optional[StateRepresentation] = None,
        observation_representation: Optional[ObservationRepresentation] = None,
    ):
        self.inner_env = env
        self.state_representation = state_representation
        self.observation_representation = observation_representation

    @property
    def action_space(self) -> ActionSpace:
        return self.inner_env.action_space

    def reset(self) -> None:
        self.inner_env.reset()

    def step(self, action: Action) -> Tuple[float, bool]:
        return self.inner_env.step(action)

    @property
    def state(self) -> Dict[str, np.ndarray]:
        if self.state_representation is None:
            raise RuntimeError('State representation not available')

        return self.state_representation.convert(self.inner_env.state)

    @property
    def observation(self) -> Dict[str, np.ndarray]:
        if self.observation_representation is None:
            raise RuntimeError('Observation representation not available')

        return self.observation_representation.convert(
            self.inner_env.observation
        )


# --------------------------------------------------------------------------
# configurations (the shipped YAML files, rebuilt through the python API, plus
# awkward ones: non-square grids, asymmetric / degenerate view areas,
# stochastic transitions and observations, restricted action spaces)
# --------------------------------------------------------------------------

MOVE_ACTIONS = [
    Action.MOVE_FORWARD,
    Action.MOVE_BACKWARD,
    Action.MOVE_LEFT,
    Action.MOVE_RIGHT,
    Action.TURN_LEFT,
    Action.TURN_RIGHT,
]
ALL_ACTIONS = list(Action)
DEFAULT_AREA = Area((-6, 0), (-3, 3))

EXIT_REWARDS = [
    ('reach_exit', dict(reward_on=5.0, reward_off=0.0)),
    (
        'getting_closer',
        dict(
            distance_function='manhattan',
            object_type=Exit,
            reward_closer=0.2,
            reward_further=-0.2,
        ),
    ),
    ('living_reward', dict(reward=-0.05)),
]

CONFIGS = {
    'keydoor.7x7': dict(
        objects=[Wall, Floor, Exit, Door, Key],
        colors=[Color.NONE, Color.YELLOW],
        actions=ALL_ACTIONS,
        reset=('keydoor', dict(shape=Shape(7, 7))),
        transitions=['move_agent', 'turn_agent', 'actuate_door', 'pickndrop'],
        rewards=[
            ('reach_exit', dict(reward_on=5.0, reward_off=0.0)),
            (
                'pickndrop',
                dict(object_type=Key, reward_pick=1.0, reward_drop=-1.0),
            ),
            ('actuate_door', dict(reward_open=1.0, reward_close=-1.0)),
            ('living_reward', dict(reward=-0.05)),
        ],
        observation=('partially_occluded', dict(area=DEFAULT_AREA)),
        termination=('reach_exit', {}),
    ),
    'dynamic_obstacles.7x7': dict(
        objects=[Wall, Floor, Exit, MovingObstacle],
        colors=[Color.NONE],
        actions=MOVE_ACTIONS,
        reset=(
            'dynamic_obstacles',
            dict(shape=Shape(7, 7), num_obstacles=2, random_agent=False),
        ),
        transitions=['move_agent', 'turn_agent', 'move_obstacles'],
        rewards=[
            ('reach_exit', dict(reward_on=5.0, reward_off=0.0)),
            ('bump_moving_obstacle', dict(reward=-1.0)),
            ('bump_into_wall', dict(reward=-1.0)),
            ('living_reward', dict(reward=-0.05)),
        ],
        observation=('partially_occluded', dict(area=DEFAULT_AREA)),
        termination=(
            'reduce_any',
            dict(
                terminating_functions=[
                    ('reach_exit', {}),
                    ('bump_moving_obstacle', {}),
                    ('bump_into_wall', {}),
                ]
            ),
        ),
    ),
    # non-square, random agent, stochastic observation, asymmetric view area
    'dynamic_obstacles.5x8.stochastic_obs': dict(
        objects=[Wall, Floor, Exit, MovingObstacle],
        colors=[Color.NONE],
        actions=MOVE_ACTIONS,
        reset=(
            'dynamic_obstacles',
            dict(shape=Shape(5, 8), num_obstacles=3, random_agent=True),
        ),
        transitions=['move_agent', 'turn_agent', 'move_obstacles'],
        rewards=[('living_reward', dict(reward=-0.05))],
        observation=(
            'stochastic_raytracing',
            dict(area=Area((-4, 1), (-1, 3))),
        ),
        termination=('reach_exit', {}),
    ),
    'teleport.7x7': dict(
        objects=[Wall, Floor, Exit, Telepod],
        colors=[Color.NONE, Color.RED],
        actions=MOVE_ACTIONS,
        reset=('teleport', dict(shape=Shape(7, 7))),
        transitions=['move_agent', 'turn_agent', 'teleport'],
        rewards=EXIT_REWARDS,
        observation=('raytracing', dict(area=DEFAULT_AREA)),
        termination=('reach_exit', {}),
    ),
    'memory.5x5': dict(
        objects=[Wall, Floor, Exit, Beacon],
        colors=[Color.NONE, Color.RED, Color.GREEN, Color.BLUE, Color.YELLOW],
        actions=MOVE_ACTIONS,
        reset=(
            'memory',
            dict(
                shape=Shape(5, 5),
                colors={Color.RED, Color.GREEN, Color.BLUE, Color.YELLOW},
            ),
        ),
        transitions=['move_agent', 'turn_agent'],
        rewards=[
            ('reach_exit_memory', dict(reward_good=5.0, reward_bad=-5.0)),
            ('living_reward', dict(reward=-0.05)),
        ],
        observation=('partially_occluded', dict(area=DEFAULT_AREA)),
        termination=('reach_exit', {}),
    ),
    'memory_four_rooms.7x7': dict(
        objects=[Wall, Floor, Exit, Beacon],
        colors=[Color.NONE, Color.RED, Color.GREEN, Color.BLUE, Color.YELLOW],
        actions=MOVE_ACTIONS,
        reset=(
            'memory_rooms',
            dict(
                shape=Shape(7, 7),
                layout=(2, 2),
                colors={Color.RED, Color.GREEN, Color.BLUE, Color.YELLOW},
                num_beacons=1,
                num_exits=2,
            ),
        ),
        transitions=['move_agent', 'turn_agent'],
        rewards=[
            ('reach_exit_memory', dict(reward_good=5.0, reward_bad=-5.0)),
            ('living_reward', dict(reward=-0.05)),
        ],
        observation=('partially_occluded', dict(area=DEFAULT_AREA)),
        termination=('reach_exit', {}),
    ),
    # non-square crossing, view area behind and beside the agent only
    'crossing.7x9': dict(
        objects=[Wall, Floor, Exit],
        colors=[Color.NONE],
        actions=MOVE_ACTIONS,
        reset=(
            'crossing',
            dict(shape=Shape(7, 9), num_rivers=2, object_type=Wall),
        ),
        transitions=['move_agent', 'turn_agent'],
        rewards=EXIT_REWARDS,
        observation=('fully_transparent', dict(area=Area((0, 2), (-2, 0)))),
        termination=('reach_exit', {}),
    ),
    # random agent / exit (corners and borders of the room), 1x1 view area
    'empty.4x7.random': dict(
        objects=[Wall, Floor, Exit],
        colors=[Color.NONE],
        actions=ALL_ACTIONS,
        reset=(
            'empty',
            dict(shape=Shape(4, 7), random_agent=True, random_exit=True),
        ),
        transitions=['move_agent', 'turn_agent'],
        rewards=EXIT_REWARDS,
        observation=('partially_occluded', dict(area=Area((0, 0), (0, 0)))),
        termination=('reach_exit', {}),
    ),
    # no reward parts at all (empty list), termination over an empty list
    'nine_rooms.10x10.empty_lists': dict(
        objects=[Wall, Floor, Exit],
        colors=[Color.NONE],
        actions=[Action.MOVE_FORWARD, Action.TURN_LEFT],
        reset=('rooms', dict(shape=Shape(10, 10), layout=(3, 3))),
        transitions=['move_agent', 'turn_agent'],
        rewards=[],
        observation=('raytracing', dict(area=Area((-2, 0), (-1, 1)))),
        termination=('reduce_all', dict(terminating_functions=[])),
    ),
}


def _termination(spec):
    name, kwargs = spec
    kwargs = dict(kwargs)
    if 'terminating_functions' in kwargs:
        kwargs['terminating_functions'] = [
            _termination(s) for s in kwargs['terminating_functions']
        ]
    return terminating_fs.factory(name, **kwargs)


def _reward(spec):
    name, kwargs = spec
    kwargs = dict(kwargs)
    if 'distance_function' in kwargs:
        from gym_gridverse.geometry import distance_function_factory

        kwargs['distance_function'] = distance_function_factory(
            kwargs['distance_function']
        )
    return reward_fs.factory(name, **kwargs)


def build_components(cfg):
    """mirrors envs/yaml/factory.py::factory_env_from_data"""
    reset_function = reset_fs.factory(cfg['reset'][0], **cfg['reset'][1])
    transition_function = transition_fs.factory(
        'chain',
        transition_functions=[
            transition_fs.factory(name) for name in cfg['transitions']
        ],
    )
    reward_function = reward_fs.factory(
        'reduce_sum',
        reward_functions=[_reward(spec) for spec in cfg['rewards']],
    )
    observation_function = observation_fs.factory(
        cfg['observation'][0], **cfg['observation'][1]
    )
    termination_function = _termination(cfg['termination'])

    state = reset_function(rng=make_rng(0))
    state_space = StateSpace(state.grid.shape, cfg['objects'], cfg['colors'])
    observation = observation_function(state, rng=make_rng(0))
    observation_space = ObservationSpace(
        observation.grid.shape, cfg['objects'], cfg['colors']
    )
    return dict(
        state_space=state_space,
        action_space=ActionSpace(list(cfg['actions'])),
        observation_space=observation_space,
        reset_function=reset_function,
        transition_function=transition_function,
        observation_function=observation_function,
        reward_function=reward_function,
        termination_function=termination_function,
    )


def make_env(cls, components):
    return cls(
        components['state_space'],
        components['action_space'],
        components['observation_space'],
        components['reset_function'],
        components['transition_function'],
        components['observation_function'],
        components['reward_function'],
        components['termination_function'],
    )


# --------------------------------------------------------------------------
# helpers
# --------------------------------------------------------------------------

CHECKS = 0


def check(condition, message):
    global CHECKS
    CHECKS += 1
    if not condition:
        print(f'FAIL: {message}')
        sys.exit(1)


def fp_object(obj):
    return (type(obj).__name__, obj.state_index, obj.color.name)


def fp_grid(grid):
    return tuple(
        tuple(fp_object(grid[Position(y, x)]) for x in range(grid.shape.width))
        for y in range(grid.shape.height)
    )


def fp(x):
    """structural fingerprint of a State / Observation"""
    return (
        fp_grid(x.grid),
        (x.agent.position.y, x.agent.position.x),
        x.agent.orientation.name,
        fp_object(x.agent.grid_object),
    )


def rng_state(env):
    rng = env._rng  # pylint: disable=protected-access
    return None if rng is None else repr(rng.bit_generator.state)


def expect_raises(f, error_type, message=None):
    try:
        f()
    except error_type as error:  # pylint: disable=broad-except
        if message is not None:
            check(str(error) == message, f'message {str(error)!r} != {message!r}')
        else:
            check(True, '')
        return error
    check(False, f'{error_type.__name__} not raised')


# reading patterns between steps:  sequence of reads after each reset / step
READ_PATTERNS = {
    'none': [],
    'obs': ['o'],
    'state': ['s'],
    'obs-obs-obs': ['o', 'o', 'o'],
    'state-obs-state-obs': ['s', 'o', 's', 'o'],
}


def read_pattern_for(name, rnd_py):
    if name == 'random':
        return [rnd_py.choice('os') for _ in range(rnd_py.randrange(4))]
    return READ_PATTERNS[name]


# --------------------------------------------------------------------------
# spies
# --------------------------------------------------------------------------


class SpyRepresentation:
    """delegates to a real representation, records calls to `convert`"""

    def __init__(self, representation, log, label):
        self._representation = representation
        self._log = log
        self._label = label

    @property
    def space(self):
        self._log.append((self._label + '.space',))
        return self._representation.space

    def convert(self, x):
        self._log.append((self._label + '.convert', x))
        return self._representation.convert(x)


def spy_observation_function(components, log):
    components = dict(components)
    inner = components['observation_function']

    def observation_function(state, **kwargs):
        log.append(('observation_function', state))
        return inner(state, **kwargs)

    components['observation_function'] = observation_function
    return components


def arrays_equal(got, want):
    return (
        isinstance(got, dict)
        and list(got) == list(want)
        and all(
            type(got[k]) is type(want[k])
            and got[k].dtype == want[k].dtype
            and got[k].shape == want[k].shape
            and np.array_equal(got[k], want[k])
            for k in got
        )
    )


REPRESENTATION_NAMES = ['default', 'no-overlap', 'compact']
INNER_NOT_RESET = 'The state was not set properly;  was the environment reset?'
NO_STATE = 'State representation not available'
NO_OBSERVATION = 'Observation representation not available'


def make_representations(components, name):
    return (
        make_state_representation(name, components['state_space']),
        make_observation_representation(name, components['observation_space']),
    )


# --------------------------------------------------------------------------
# 1. OuterEnv: exactly the representations of the inner state / observation,
#    fresh after every reset / step, memoized, repeated reads free of rng use
# --------------------------------------------------------------------------


def run_outer_property(config_name, components, name, seed, pattern_name):
    reset_gv_debug(True)
    rnd_py = random.Random(f'{config_name}/{name}/{seed}/{pattern_name}')
    actions = components['action_space'].actions
    state_repr, observation_repr = make_representations(components, name)

    log = []
    inner = make_env(GridWorld, spy_observation_function(components, log))
    outer = OuterEnv(
        inner,
        state_representation=SpyRepresentation(state_repr, log, 'state'),
        observation_representation=SpyRepresentation(
            observation_repr, log, 'observation'
        ),
    )
    ref_inner = make_env(GridWorld, components)
    ref = RefOuterEnv(
        ref_inner,
        state_representation=state_repr,
        observation_representation=observation_repr,
    )
    # functional threading of the same seed
    fun = make_env(GridWorld, components)

    check(outer.inner_env is inner, 'inner_env attribute')
    check(outer.action_space is inner.action_space, 'action space pass-through')

    # before the first reset: the inner error comes through, nothing is
    # converted, no randomness is consumed
    for e in (inner, ref_inner, fun):
        e.set_seed(seed)
    expect_raises(lambda: outer.state, RuntimeError, INNER_NOT_RESET)
    expect_raises(lambda: outer.observation, RuntimeError, INNER_NOT_RESET)
    check(log == [], f'calls before reset: {log}')
    check(rng_state(inner) == rng_state(ref_inner), 'rng used before reset')

    fun_state = None
    for t in range(16):
        if t == 0 or rnd_py.random() < 0.15:
            if t > 0 and rnd_py.random() < 0.5:
                seed += 1000  # re-seeding mid-way
                for e in (inner, ref_inner, fun):
                    e.set_seed(seed)
            check(outer.reset() is None, 'reset return value')
            ref.reset()
            fun_state = fun.functional_reset()
            label = f'{config_name}/{name} seed={seed} {pattern_name} reset@{t}'
        else:
            action = rnd_py.choice(actions)
            got = outer.step(action)
            want = ref.step(action)
            fun_state, fun_reward, fun_done = fun.functional_step(
                fun_state, action
            )
            label = f'{config_name}/{name} seed={seed} {pattern_name} step@{t}'
            check(
                got == want
                and got == (fun_reward, fun_done)
                and type(got) is tuple
                and type(got[0]) is type(want[0])
                and type(got[1]) is type(want[1]),
                f'{label}: step result {got} != {want}',
            )
        check(log == [], f'{label}: eager calls {log}')
        check(fp(inner.state) == fp(fun_state), f'{label}: state != functional')
        check(rng_state(inner) == rng_state(ref_inner), f'{label}: rng')
        check(rng_state(inner) == rng_state(fun), f'{label}: rng functional')

        fun_observation = None
        for read in read_pattern_for(pattern_name, rnd_py):
            log.clear()
            before = rng_state(inner)
            if read == 's':
                got = outer.state
                check(
                    len(log) == 1
                    and log[0][0] == 'state.convert'
                    and log[0][1] is inner.state,
                    f'{label}: calls for a state read {log}',
                )
                check(rng_state(inner) == before, f'{label}: state read rng')
                check(
                    arrays_equal(got, state_repr.convert(fun_state)),
                    f'{label}: state representation != functional',
                )
                check(arrays_equal(got, ref.state), f'{label}: state != ref')
            else:
                first = fun_observation is None
                got = outer.observation
                if first:
                    fun_observation = fun.functional_observation(fun_state)
                    check(
                        len(log) == 2
                        and log[0][0] == 'observation_function'
                        and log[0][1] is inner.state
                        and log[1][0] == 'observation.convert'
                        and log[1][1] is inner.observation,
                        f'{label}: calls for the first observation read {log}',
                    )
                else:
                    check(
                        len(log) == 1
                        and log[0][0] == 'observation.convert'
                        and log[0][1] is inner.observation,
                        f'{label}: calls for a repeated observation read {log}',
                    )
                    check(
                        rng_state(inner) == before,
                        f'{label}: repeated read consumed randomness',
                    )
                check(
                    arrays_equal(got, observation_repr.convert(fun_observation)),
                    f'{label}: stale / wrong observation representation',
                )
                check(
                    arrays_equal(got, ref.observation),
                    f'{label}: observation != reference',
                )
            check(rng_state(inner) == rng_state(ref_inner), f'{label}: rng ref')
            check(rng_state(inner) == rng_state(fun), f'{label}: rng fun')
        log.clear()


# --------------------------------------------------------------------------
# 2. missing representations: which error, in which order, and what is *not*
#    computed;  representations swapped at run time
# --------------------------------------------------------------------------


def run_outer_missing(config_name, components):
    reset_gv_debug(True)
    action = components['action_space'].actions[-1]
    state_repr, observation_repr = make_representations(components, 'default')

    for cls in (OuterEnv, RefOuterEnv):
        for with_state, with_observation in itertools.product(
            [False, True], repeat=2
        ):
            log = []
            inner = make_env(
                GridWorld, spy_observation_function(components, log)
            )
            kwargs = {}
            if with_state:
                kwargs['state_representation'] = state_repr
            if with_observation:
                kwargs['observation_representation'] = observation_repr
            outer = cls(inner, **kwargs)
            check(
                (outer.state_representation is state_repr) == with_state
                and (outer.state_representation is None) != with_state,
                'state_representation attribute',
            )
            check(
                (outer.observation_representation is observation_repr)
                == with_observation
                and (outer.observation_representation is None)
                != with_observation,
                'observation_representation attribute',
            )
            inner.set_seed(11)

            # before reset: a missing representation is reported first
            expect_raises(
                lambda: outer.state,
                RuntimeError,
                INNER_NOT_RESET if with_state else NO_STATE,
            )
            expect_raises(
                lambda: outer.observation,
                RuntimeError,
                INNER_NOT_RESET if with_observation else NO_OBSERVATION,
            )

            outer.reset()
            for _ in range(3):
                before = rng_state(inner)
                if with_state:
                    check(
                        arrays_equal(
                            outer.state, state_repr.convert(inner.state)
                        ),
                        'state',
                    )
                else:
                    expect_raises(lambda: outer.state, RuntimeError, NO_STATE)

                if with_observation:
                    check(
                        arrays_equal(
                            outer.observation,
                            observation_repr.convert(inner.observation),
                        ),
                        'observation',
                    )
                else:
                    log.clear()
                    expect_raises(
                        lambda: outer.observation, RuntimeError, NO_OBSERVATION
                    )
                    # the refused read did not generate (and memoize) an inner
                    # observation, and did not consume randomness
                    check(log == [], f'{config_name}: refused read ran {log}')
                    check(
                        inner._observation is None,  # pylint: disable=W0212
                        f'{config_name}: refused read memoized an observation',
                    )
                    check(
                        rng_state(inner) == before,
                        f'{config_name}: refused read consumed randomness',
                    )
                outer.step(action)

        # positional representations are not accepted
        inner = make_env(GridWorld, components)
        expect_raises(lambda: cls(inner, state_repr), TypeError)

        # representations can be (re)assigned:  the next read uses the new one
        inner = make_env(GridWorld, components)
        inner.set_seed(2)
        outer = cls(inner)
        outer.reset()
        expect_raises(lambda: outer.state, RuntimeError, NO_STATE)
        for name in REPRESENTATION_NAMES + ['default']:
            s_repr, o_repr = make_representations(components, name)
            outer.state_representation = s_repr
            outer.observation_representation = o_repr
            check(arrays_equal(outer.state, s_repr.convert(inner.state)), name)
            check(
                arrays_equal(
                    outer.observation, o_repr.convert(inner.observation)
                ),
                name,
            )
        outer.observation_representation = None
        expect_raises(lambda: outer.observation, RuntimeError, NO_OBSERVATION)
        outer.state_representation = None
        expect_raises(lambda: outer.state, RuntimeError, NO_STATE)

    # two outer environments over distinct inner environments do not interact
    inners = [make_env(GridWorld, components) for _ in range(2)]
    outers = [
        OuterEnv(
            inner,
            state_representation=state_repr,
            observation_representation=observation_repr,
        )
        for inner in inners
    ]
    for inner, outer in zip(inners, outers):
        inner.set_seed(21)
        outer.reset()
    for _ in range(5):
        outers[0].step(action)
        outers[1].step(action)
        check(arrays_equal(outers[0].state, outers[1].state), 'twins state')
        check(
            arrays_equal(outers[0].observation, outers[1].observation),
            'twins observation',
        )


# --------------------------------------------------------------------------
# 3. gym adapter (only if `gym` and the adapter can be imported)
# --------------------------------------------------------------------------


def import_gym_adapter():
    try:
        with warnings.catch_warnings():
            warnings.simplefilter('ignore')
            import gym  # pylint: disable=import-outside-toplevel

            import gym_gridverse.gym as adapter  # pylint: disable=C0415
    except Exception as error:  # pylint: disable=broad-except
        print(f'(gym adapter not importable here: {type(error).__name__})')
        return None, None
    return gym, adapter


def ref_outer_space_to_gym_space(gym, space):
    """pristine `outer_space_to_gym_space`, verbatim"""
    return gym.spaces.Dict(
        {
            k: gym.spaces.Box(
                low=v.lower_bound,
                high=v.upper_bound,
                dtype=float if v.space_type is SpaceType.CONTINUOUS else int,
            )
            for k, v in space.items()
        }
    )


def ref_gym_space(gym, representation):
    """pristine expressions of `GymEnvironment.__init__`, verbatim"""
    return (
        ref_outer_space_to_gym_space(gym, representation.space)
        if representation is not None
        else None
    )


def gym_spaces_equal(got, want):
    if want is None or got is None:
        return got is None and want is None
    return (
        type(got) is type(want)
        and list(got.spaces) == list(want.spaces)
        and all(
            type(got.spaces[k]) is type(want.spaces[k])
            and got.spaces[k].dtype == want.spaces[k].dtype
            and got.spaces[k].shape == want.spaces[k].shape
            and np.array_equal(got.spaces[k].low, want.spaces[k].low)
            and np.array_equal(got.spaces[k].high, want.spaces[k].high)
            for k in got.spaces
        )
    )


def run_gym(gym, adapter, config_name, components):
    reset_gv_debug(True)
    int_actions = list(range(len(components['action_space'].actions)))

    # a space of every type goes through the conversion as before
    mixed = {
        'categorical': Space.make_categorical_space(np.array([[2, 3], [4, 5]])),
        'discrete': Space.make_discrete_space(
            np.array([-3, 0]), np.array([3, 0])
        ),
        'continuous': Space.make_continuous_space(
            np.array([-1.5, 0.0, 0.0]), np.array([1.5, 0.0, 7.0])
        ),
    }
    check(
        gym_spaces_equal(
            adapter.outer_space_to_gym_space(mixed),
            ref_outer_space_to_gym_space(gym, mixed),
        ),
        'mixed space conversion',
    )
    check(
        len(adapter.outer_space_to_gym_space({}).spaces) == 0,
        'empty space conversion',
    )

    for name, with_state, with_observation in itertools.product(
        REPRESENTATION_NAMES, [False, True], [False, True]
    ):
        state_repr, observation_repr = make_representations(components, name)
        log = []
        inner = make_env(GridWorld, spy_observation_function(components, log))
        twin = make_env(GridWorld, components)
        outer = OuterEnv(
            inner,
            state_representation=state_repr if with_state else None,
            observation_representation=(
                observation_repr if with_observation else None
            ),
        )
        genv = adapter.GymEnvironment(outer)
        label = f'{config_name}/{name}/{with_state}/{with_observation}'
        check(genv.outer_env is outer, f'{label}: outer_env attribute')
        check(log == [], f'{label}: construction computed an observation')
        check(
            gym_spaces_equal(
                genv.state_space,
                ref_gym_space(gym, state_repr if with_state else None),
            ),
            f'{label}: state_space',
        )
        check(
            gym_spaces_equal(
                genv.observation_space,
                ref_gym_space(
                    gym, observation_repr if with_observation else None
                ),
            ),
            f'{label}: observation_space',
        )
        check(
            isinstance(genv.action_space, gym.spaces.Discrete)
            and genv.action_space.n == len(int_actions),
            f'{label}: action_space',
        )

        inner.set_seed(31)
        twin.set_seed(31)
        if not with_observation:
            expect_raises(genv.reset, RuntimeError, NO_OBSERVATION)
            # the state was nevertheless reset (as before)
            twin.reset()
            check(fp(inner.state) == fp(twin.state), f'{label}: reset state')
            expect_raises(lambda: genv.observation, RuntimeError, NO_OBSERVATION)
            check(log == [], f'{label}: observation computed')
        else:
            got = genv.reset()
            twin.reset()
            check(
                arrays_equal(got, observation_repr.convert(twin.observation)),
                f'{label}: reset observation',
            )
            rnd_py = random.Random(label)
            for _ in range(6):
                a = rnd_py.choice(int_actions)
                got, reward, done, info = genv.step(a)
                want = twin.step(components['action_space'].actions[a])
                check((reward, done) == want, f'{label}: step result')
                check(info == {}, f'{label}: info')
                check(
                    arrays_equal(
                        got, observation_repr.convert(twin.observation)
                    ),
                    f'{label}: step observation',
                )
                check(
                    arrays_equal(genv.observation, got),
                    f'{label}: repeated observation',
                )
                check(
                    all(
                        genv.observation_space.spaces[k].contains(v)
                        for k, v in got.items()
                    ),
                    f'{label}: observation outside its gym space',
                )
                check(rng_state(inner) == rng_state(twin), f'{label}: rng')
        if with_state:
            check(
                arrays_equal(genv.state, state_repr.convert(twin.state)),
                f'{label}: state',
            )
            check(
                all(
                    genv.state_space.spaces[k].contains(v)
                    for k, v in genv.state.items()
                ),
                f'{label}: state outside its gym space',
            )
        else:
            expect_raises(lambda: genv.state, RuntimeError, NO_STATE)

        # switching representations: both the outer environment and the gym
        # spaces follow;  an invalid name changes nothing
        for new_name in REPRESENTATION_NAMES:
            new_state_repr, new_observation_repr = make_representations(
                components, new_name
            )
            genv.set_state_representation(new_name)
            check(
                type(outer.state_representation) is type(new_state_repr),
                f'{label}: state representation type',
            )
            check(
                gym_spaces_equal(
                    genv.state_space, ref_gym_space(gym, new_state_repr)
                )
                and gym_spaces_equal(
                    genv.state_space,
                    ref_gym_space(gym, outer.state_representation),
                ),
                f'{label}: state_space after switch to {new_name}',
            )
            check(
                arrays_equal(genv.state, new_state_repr.convert(inner.state)),
                f'{label}: state after switch to {new_name}',
            )
            rng_before = rng_state(inner)
            observation_before = inner._observation  # pylint: disable=W0212
            genv.set_observation_representation(new_name)
            check(
                type(outer.observation_representation)
                is type(new_observation_repr),
                f'{label}: observation representation type',
            )
            check(
                gym_spaces_equal(
                    genv.observation_space,
                    ref_gym_space(gym, new_observation_repr),
                )
                and gym_spaces_equal(
                    genv.observation_space,
                    ref_gym_space(gym, outer.observation_representation),
                ),
                f'{label}: observation_space after switch to {new_name}',
            )
            check(
                inner._observation is observation_before  # pylint: disable=W0212
                and rng_state(inner) == rng_before,
                f'{label}: switching touched the inner observation',
            )
            check(
                arrays_equal(
                    genv.observation,
                    new_observation_repr.convert(inner.observation),
                ),
                f'{label}: observation after switch to {new_name}',
            )

            kept = (
                outer.state_representation,
                outer.observation_representation,
                genv.state_space,
                genv.observation_space,
            )
            expect_raises(
                lambda: genv.set_state_representation('no-such-name'),
                ValueError,
            )
            expect_raises(
                lambda: genv.set_observation_representation('no-such-name'),
                ValueError,
            )
            check(
                kept
                == (
                    outer.state_representation,
                    outer.observation_representation,
                    genv.state_space,
                    genv.observation_space,
                )
                and all(
                    x is y
                    for x, y in zip(
                        kept,
                        (
                            outer.state_representation,
                            outer.observation_representation,
                            genv.state_space,
                            genv.observation_space,
                        ),
                    )
                ),
                f'{label}: failed switch changed something',
            )

        # state wrapper on top
        wrapped = adapter.GymStateWrapper(genv)
        got = wrapped.reset()
        check(arrays_equal(got, genv.state), f'{label}: wrapper reset')
        got, _, _, info = wrapped.step(0)
        check(arrays_equal(got, genv.state), f'{label}: wrapper step')
        check(
            arrays_equal(info['observation'], genv.observation),
            f'{label}: wrapper info',
        )


# --------------------------------------------------------------------------
# 4. hard-coded expectations (computed on the pristine tree)
# --------------------------------------------------------------------------

EXPECTED = [
    ('default', 'state', 'grid', (7, 7, 3), 'int64', 145, 10929),
    ('default', 'state', 'agent_id_grid', (7, 7), 'int64', 1, 24),
    ('default', 'state', 'agent', (6,), 'float64', 1, 3),
    ('default', 'state', 'item', (3,), 'int64', 0, 0),
    ('default', 'observation', 'grid', (7, 7, 3), 'int64', 96, 8553),
    ('default', 'observation', 'agent_id_grid', (7, 7), 'int64', 1, 45),
    ('default', 'observation', 'item', (3,), 'int64', 0, 0),
    ('default', 'state_space', 'agent', (6,), 'float64', -2, 6),
    ('default', 'state_space', 'agent_id_grid', (7, 7), 'int64', 0, 49),
    ('default', 'state_space', 'grid', (7, 7, 3), 'int64', 0, 637),
    ('default', 'state_space', 'item', (3,), 'int64', 0, 13),
    ('default', 'observation_space', 'agent_id_grid', (7, 7), 'int64', 0, 49),
    ('default', 'observation_space', 'grid', (7, 7, 3), 'int64', 0, 637),
    ('default', 'observation_space', 'item', (3,), 'int64', 0, 13),
    ('no-overlap', 'state', 'grid', (7, 7, 3), 'int64', 1027, 75854),
    ('no-overlap', 'state', 'agent_id_grid', (7, 7), 'int64', 1, 24),
    ('no-overlap', 'state', 'agent', (6,), 'float64', 1, 3),
    ('no-overlap', 'state', 'item', (3,), 'int64', 18, 29),
    ('no-overlap', 'observation', 'grid', (7, 7, 3), 'int64', 978, 73478),
    ('no-overlap', 'observation', 'agent_id_grid', (7, 7), 'int64', 1, 45),
    ('no-overlap', 'observation', 'item', (3,), 'int64', 18, 29),
    ('no-overlap', 'state_space', 'agent', (6,), 'float64', -2, 6),
    ('no-overlap', 'state_space', 'agent_id_grid', (7, 7), 'int64', 0, 49),
    ('no-overlap', 'state_space', 'grid', (7, 7, 3), 'int64', 0, 1519),
    ('no-overlap', 'state_space', 'item', (3,), 'int64', 0, 31),
    ('no-overlap', 'observation_space', 'agent_id_grid', (7, 7), 'int64', 0, 49),
    ('no-overlap', 'observation_space', 'grid', (7, 7, 3), 'int64', 0, 1519),
    ('no-overlap', 'observation_space', 'item', (3,), 'int64', 0, 31),
    ('compact', 'state', 'grid', (7, 7, 3), 'int64', 1158, 85757),
    ('compact', 'state', 'agent_id_grid', (7, 7), 'int64', 1, 24),
    ('compact', 'state', 'agent', (6,), 'float64', 1, 3),
    ('compact', 'state', 'item', (3,), 'int64', 20, 34),
    ('compact', 'observation', 'grid', (7, 7, 3), 'int64', 1305, 98650),
    ('compact', 'observation', 'agent_id_grid', (7, 7), 'int64', 1, 45),
    ('compact', 'observation', 'item', (3,), 'int64', 23, 39),
    ('compact', 'state_space', 'agent', (6,), 'float64', -2, 6),
    ('compact', 'state_space', 'agent_id_grid', (7, 7), 'int64', 0, 49),
    ('compact', 'state_space', 'grid', (7, 7, 3), 'int64', 0, 1617),
    ('compact', 'state_space', 'item', (3,), 'int64', 0, 33),
    ('compact', 'observation_space', 'agent_id_grid', (7, 7), 'int64', 0, 49),
    ('compact', 'observation_space', 'grid', (7, 7, 3), 'int64', 0, 1862),
    ('compact', 'observation_space', 'item', (3,), 'int64', 0, 38),
]


def summary(components, gym, adapter):
    reset_gv_debug(True)
    out = []
    for name in REPRESENTATION_NAMES:
        state_repr, observation_repr = make_representations(components, name)
        inner = make_env(GridWorld, components)
        outer = OuterEnv(
            inner,
            state_representation=state_repr,
            observation_representation=observation_repr,
        )
        inner.set_seed(7)
        outer.reset()
        rnd_py = random.Random(7)
        for _ in range(5):
            outer.step(rnd_py.choice(components['action_space'].actions))
        for kind, arrays in (
            ('state', outer.state),
            ('observation', outer.observation),
        ):
            for key, array in arrays.items():
                out.append(
                    (
                        name,
                        kind,
                        key,
                        tuple(array.shape),
                        str(array.dtype),
                        int(array.sum()),
                        int((array * np.arange(array.size).reshape(array.shape)).sum()),
                    )
                )
        if adapter is not None:
            genv = adapter.GymEnvironment(outer)
            for kind, space in (
                ('state', genv.state_space),
                ('observation', genv.observation_space),
            ):
                for key, box in space.spaces.items():
                    out.append(
                        (
                            name,
                            kind + '_space',
                            key,
                            tuple(box.shape),
                            str(box.dtype),
                            int(box.low.sum()),
                            int(box.high.sum()),
                        )
                    )
    return out


def main():
    built = {name: build_components(cfg) for name, cfg in CONFIGS.items()}
    gym, adapter = import_gym_adapter()

    if '--print-expected' in sys.argv:
        print('EXPECTED = [')
        for entry in summary(built['keydoor.7x7'], gym, adapter):
            print(f'    {entry!r},')
        print(']')
        return

    for config_name, components in built.items():
        for name, seed, pattern in itertools.product(
            REPRESENTATION_NAMES,
            [0, 2**31 - 1],
            list(READ_PATTERNS) + ['random'],
        ):
            run_outer_property(config_name, components, name, seed, pattern)
        run_outer_missing(config_name, components)
        if adapter is not None:
            run_gym(gym, adapter, config_name, components)
        print(f'ok {config_name}')

    got = summary(built['keydoor.7x7'], gym, adapter)
    want = EXPECTED
    if adapter is None:
        want = [entry for entry in want if not entry[1].endswith('_space')]
    check(got == want, f'summary of keydoor.7x7\n got {got}\nwant {want}')

    reset_gv_debug(None)
    print(f'all good ({CHECKS} checks)')


if __name__ == '__main__':
    main()
