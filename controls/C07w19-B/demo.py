"""C07 demo: observations are egocentric (invariant under quarter turns of the world).

Self-contained; exits 0 on the pristine tree and with the change applied.
Run from the worktree root:  /venv/bin/python _seed/B/demo.py
"""
import copy
import itertools
import os
import random
import sys

sys.path.insert(0, os.getcwd())

import numpy as np  # noqa: E402

from gym_gridverse.agent import Agent  # noqa: E402
from gym_gridverse.envs import observation_functions as obs_fs  # noqa: E402
from gym_gridverse.envs import visibility_functions as vis_fs  # noqa: E402
from gym_gridverse.geometry import Area, Orientation, Position  # noqa: E402
from gym_gridverse.grid import Grid  # noqa: E402
from gym_gridverse.grid_object import (  # noqa: E402
    Beacon,
    Box,
    Color,
    Door,
    Exit,
    Floor,
    Hidden,
    Key,
    MovingObstacle,
    NoneGridObject,
    Telepod,
    Wall,
)
from gym_gridverse.observation import Observation  # noqa: E402
from gym_gridverse.state import State  # noqa: E402

CHECKS = 0


def check(condition, message):
    global CHECKS
    CHECKS += 1
    if not condition:
        print('FAIL:', message)
        sys.exit(1)


# --------------------------------------------------------------------------
# independent reference geometry (pure python, no library operators)
# --------------------------------------------------------------------------

# clockwise order of headings;  F is north (y decreasing)
CW = [Orientation.F, Orientation.R, Orientation.B, Orientation.L]


def ref_rel_to_world(py, px, orientation, ry, rx):
    """world cell of the agent-relative offset (ry, rx);  ry<0 is `in front`"""
    if orientation is Orientation.F:
        return py + ry, px + rx
    if orientation is Orientation.B:
        return py - ry, px - rx
    if orientation is Orientation.R:
        return py + rx, px - ry
    if orientation is Orientation.L:
        return py - rx, px + ry
    raise AssertionError


def ref_pov_cells(state, area):
    """rows of (object or None-if-off-grid) as seen from the agent's POV"""
    objects = state.grid.objects
    height, width = len(objects), len(objects[0])
    py, px = state.agent.position.y, state.agent.position.x
    rows = []
    for ry in range(area.ys[0], area.ys[1] + 1):
        row = []
        for rx in range(area.xs[0], area.xs[1] + 1):
            wy, wx = ref_rel_to_world(py, px, state.agent.orientation, ry, rx)
            inside = 0 <= wy < height and 0 <= wx < width
            row.append(objects[wy][wx] if inside else None)
        rows.append(row)
    return rows


def ref_observation(state, area, visibility_function, rng=None):
    """reference `from_visibility`: returns (cells, agent triple)

    cells[i][j] is the state's object itself when visible and on the grid,
    else the string 'HIDDEN'."""
    cells = ref_pov_cells(state, area)
    pov_grid = Grid(
        [[Hidden() if obj is None else obj for obj in row] for row in cells]
    )
    pov_position = Position(-area.ys[0], -area.xs[0])
    visibility = visibility_function(pov_grid, pov_position, rng=rng)
    out = [
        [
            obj if (obj is not None and visibility[i, j]) else 'HIDDEN'
            for j, obj in enumerate(row)
        ]
        for i, row in enumerate(cells)
    ]
    return out, (pov_position, Orientation.F, state.agent.grid_object)


def rotate_world_cw(state, k):
    """the same world, turned clockwise by k quarter turns (new objects lists,
    same cell objects; agent pose turned along)"""
    objects = [list(row) for row in state.grid.objects]
    y, x = state.agent.position.y, state.agent.position.x
    heading = CW.index(state.agent.orientation)
    for _ in range(k % 4):
        height = len(objects)
        width = len(objects[0])
        objects = [
            [objects[height - 1 - nx][ny] for nx in range(height)]
            for ny in range(width)
        ]
        y, x = x, height - 1 - y
        heading = (heading + 1) % 4
    return State(
        Grid(objects),
        Agent(Position(y, x), CW[heading], state.agent.grid_object),
    )


def signature(obj):
    return (type(obj).__name__, obj.state_index, obj.color, repr(obj))


def grid_signature(grid):
    return [[signature(obj) for obj in row] for row in grid.objects]


def state_signature(state):
    return (
        grid_signature(state.grid),
        state.agent.position.yx,
        state.agent.orientation,
        signature(state.agent.grid_object),
    )


# --------------------------------------------------------------------------
# scenarios
# --------------------------------------------------------------------------

COLORS = list(Color)  # includes Color.NONE


def random_object(rnd):
    kind = rnd.randrange(12)
    color = rnd.choice(COLORS)
    if kind <= 3:
        return Floor()
    if kind == 4:
        return Wall()
    if kind == 5:
        return Exit()
    if kind == 6:
        return Door(rnd.choice(list(Door.Status)), color)
    if kind == 7:
        return Key(color)
    if kind == 8:
        return MovingObstacle()
    if kind == 9:
        return Box(rnd.choice([Floor(), Key(color), Exit()]))
    if kind == 10:
        return Telepod(color)
    return Beacon(color)


def random_grid(rnd, height, width, walled):
    objects = [
        [random_object(rnd) for _ in range(width)] for _ in range(height)
    ]
    if walled:
        for y in range(height):
            for x in range(width):
                if y in (0, height - 1) or x in (0, width - 1):
                    objects[y][x] = Wall()
    return Grid(objects)


def agent_positions(height, width):
    ys = sorted({0, height // 2, height - 1})
    xs = sorted({0, width // 2, width - 1})
    return [(y, x) for y in ys for x in xs]  # corners, borders, interior


SHAPES = [(1, 1), (1, 5), (5, 1), (2, 3), (3, 7), (6, 4), (7, 7), (9, 5)]

AREAS = [
    Area((-6, 0), (-3, 3)),  # the usual one
    Area((0, 0), (0, 0)),  # only the agent's own cell
    Area((-2, 0), (-1, 2)),  # asymmetric left / right
    Area((-1, 0), (-5, 0)),  # nothing to the right
    Area((-3, 1), (-2, 1)),  # sees behind itself
    Area((-2, 2), (-2, 2)),  # centered
    Area((-4, -1), (1, 3)),  # does not contain the agent
    Area((0, 3), (-1, 0)),  # only behind
    Area((-9, 0), (-6, 6)),  # larger than every grid
]


def make_states():
    rnd = random.Random(20260927)
    held = [None, Key(Color.NONE), Key(Color.RED), NoneGridObject()]
    states = []
    for (height, width), walled in itertools.product(SHAPES, [False, True]):
        grid = random_grid(rnd, height, width, walled)
        for (y, x) in agent_positions(height, width):
            for orientation in CW:
                states.append(
                    State(
                        grid,
                        Agent(Position(y, x), orientation, rnd.choice(held)),
                    )
                )
    return states


def deterministic_functions(area):
    """name -> (observation function, matching visibility function)"""
    vis = vis_fs.visibility_function_registry
    ray_rel = vis_fs.factory(
        'raytracing', absolute_counts=False, threshold=0.5
    )
    ray_2 = vis_fs.factory('raytracing', absolute_counts=True, threshold=2)
    return {
        'fully_transparent': (
            lambda s, rng=None: obs_fs.fully_transparent(s, area=area, rng=rng),
            vis['fully_transparent'],
        ),
        'partially_occluded': (
            lambda s, rng=None: obs_fs.partially_occluded(
                s, area=area, rng=rng
            ),
            vis['partially_occluded'],
        ),
        'raytracing': (
            lambda s, rng=None: obs_fs.raytracing(s, area=area, rng=rng),
            vis['raytracing'],
        ),
        'factory:fully_transparent': (
            obs_fs.factory('fully_transparent', area=area),
            vis['fully_transparent'],
        ),
        'factory:partially_occluded': (
            obs_fs.factory('partially_occluded', area=area, unused=3),
            vis['partially_occluded'],
        ),
        'factory:raytracing': (
            obs_fs.factory('raytracing', area=area),
            vis['raytracing'],
        ),
        'from_visibility:ray_rel': (
            obs_fs.factory(
                'from_visibility', area=area, visibility_function=ray_rel
            ),
            ray_rel,
        ),
        'from_visibility:ray_2': (
            lambda s, rng=None: obs_fs.from_visibility(
                s, area=area, visibility_function=ray_2, rng=rng
            ),
            ray_2,
        ),
    }


def outcome(function, *args, **kwargs):
    """('ok', value) or ('raise', exception type, message)"""
    try:
        return ('ok', function(*args, **kwargs))
    except Exception as error:  # pylint: disable=broad-except
        return ('raise', type(error), str(error))


def check_observation_against_reference(label, state, area, observation, ref):
    ref_cells, (ref_position, ref_orientation, ref_held) = ref
    check(isinstance(observation, Observation), f'{label}: type')
    check(
        observation.grid.shape.as_tuple == (area.height, area.width),
        f'{label}: shape {observation.grid.shape} for {area}',
    )
    check(
        len(observation.grid.objects) == area.height
        and all(len(row) == area.width for row in observation.grid.objects),
        f'{label}: ragged objects',
    )
    for i, row in enumerate(ref_cells):
        for j, expected in enumerate(row):
            actual = observation.grid.objects[i][j]
            if isinstance(expected, str):
                check(type(actual) is Hidden, f'{label}: ({i},{j}) not hidden')
            else:
                # the very object of the state, not a copy
                check(actual is expected, f'{label}: ({i},{j}) {actual!r}')
    check(observation.agent.position == ref_position, f'{label}: position')
    check(type(observation.agent.position) is Position, f'{label}: pos type')
    check(observation.agent.orientation is ref_orientation, f'{label}: ori')
    check(
        observation.agent.grid_object is ref_held
        or (
            ref_held is None
            and type(observation.agent.grid_object) is NoneGridObject
        ),
        f'{label}: held object',
    )
    check(observation.agent is not state.agent, f'{label}: agent aliased')
    check(
        observation.agent.transform is not state.agent.transform,
        f'{label}: transform aliased',
    )
    check(observation.grid is not state.grid, f'{label}: grid aliased')
    check(
        all(
            row is not state_row
            for row in observation.grid.objects
            for state_row in state.grid.objects
        ),
        f'{label}: grid rows aliased',
    )


def main_property():
    states = make_states()
    n_raise = 0
    for area in AREAS:
        functions = deterministic_functions(area)
        for name, (function, visibility_function) in functions.items():
            # the factory-built twins run on a subsample to keep the demo quick
            step = 3 if ':' in name else 1
            for index, state in list(enumerate(states))[::step]:
                label = f'{name} {area} state#{index}'
                before = state_signature(state)
                result = outcome(function, state)
                reference = outcome(
                    ref_observation, state, area, visibility_function
                )
                check(
                    result[0] == reference[0],
                    f'{label}: {result} vs reference {reference}',
                )
                check(state_signature(state) == before, f'{label}: mutated')
                if result[0] == 'raise':
                    check(result[1:] == reference[1:], f'{label}: error')
                    n_raise += 1
                else:
                    check_observation_against_reference(
                        label, state, area, result[1], reference[1]
                    )
                    again = function(state)
                    check(again == result[1], f'{label}: repeated call')
                    check(
                        hash(again) == hash(result[1]),
                        f'{label}: repeated hash',
                    )

                # the property: turn the whole world, the observation is equal
                for k in (1, 2, 3, 4):
                    turned = rotate_world_cw(state, k)
                    turned_result = outcome(function, turned)
                    check(
                        turned_result[0] == result[0],
                        f'{label}: turn {k}: {turned_result[0]}',
                    )
                    if result[0] == 'raise':
                        check(
                            turned_result[1:] == result[1:],
                            f'{label}: turn {k}: error',
                        )
                        continue
                    check(
                        turned_result[1] == result[1],
                        f'{label}: turn {k}: observation differs',
                    )
                    check(
                        grid_signature(turned_result[1].grid)
                        == grid_signature(result[1].grid),
                        f'{label}: turn {k}: grid signature differs',
                    )
                    check(
                        turned_result[1].agent == result[1].agent,
                        f'{label}: turn {k}: agent differs',
                    )
    return n_raise


def hard_coded():
    """a hand-written scenario with the expected observation spelled out"""
    W, F = Wall, Floor
    door = Door(Door.Status.CLOSED, Color.NONE)
    key = Key(Color.BLUE)
    beacon = Beacon(Color.NONE)
    grid = Grid(
        [
            [W(), W(), W(), W(), W()],
            [W(), key, F(), beacon, W()],
            [W(), F(), door, F(), W()],
        ]
    )
    area = Area((-2, 0), (-1, 2))
    held = Key(Color.NONE)

    # agent in the bottom-left inner cell, facing east
    state = State(grid, Agent(Position(2, 1), Orientation.R, held))
    observation = obs_fs.fully_transparent(state, area=area)
    # rows: two cells ahead (east) ... the agent's row;
    # columns: one to the left (north) ... two to the right (south, off-grid)
    expected = [
        ['Beacon', 'Floor', 'Hidden', 'Hidden'],
        ['Floor', 'Door', 'Hidden', 'Hidden'],
        ['Key', 'Floor', 'Hidden', 'Hidden'],
    ]
    actual = [
        [type(obj).__name__ for obj in row] for row in observation.grid.objects
    ]
    check(actual == expected, f'hard-coded transparent: {actual}')
    check(observation.grid.objects[1][1] is door, 'hard-coded: door identity')
    check(observation.grid.objects[2][0] is key, 'hard-coded: key identity')
    check(observation.agent.position == Position(2, 1), 'hard-coded: pov pos')
    check(observation.agent.orientation is Orientation.F, 'hard-coded: pov ori')
    check(observation.agent.grid_object is held, 'hard-coded: held')

    # the closed door hides what is behind it
    observation = obs_fs.partially_occluded(state, area=area)
    actual = [
        [type(obj).__name__ for obj in row] for row in observation.grid.objects
    ]
    expected = [
        ['Beacon', 'Hidden', 'Hidden', 'Hidden'],
        ['Floor', 'Door', 'Hidden', 'Hidden'],
        ['Key', 'Floor', 'Hidden', 'Hidden'],
    ]
    check(actual == expected, f'hard-coded occluded: {actual}')

    # facing north in the top-right corner of the grid: mostly off-grid, and
    # the wall the agent stands in stops its own rays
    state = State(grid, Agent(Position(0, 4), Orientation.F, None))
    observation = obs_fs.raytracing(state, area=area)
    actual = [
        [type(obj).__name__ for obj in row] for row in observation.grid.objects
    ]
    expected = [
        ['Hidden', 'Hidden', 'Hidden', 'Hidden'],
        ['Hidden', 'Hidden', 'Hidden', 'Hidden'],
        ['Hidden', 'Wall', 'Hidden', 'Hidden'],
    ]
    check(actual == expected, f'hard-coded corner: {actual}')
    check(
        type(observation.agent.grid_object) is NoneGridObject,
        'hard-coded: holds nothing',
    )
    check(
        observation
        == Observation(
            Grid(
                [
                    [Hidden(), Hidden(), Hidden(), Hidden()],
                    [Hidden(), Hidden(), Hidden(), Hidden()],
                    [Hidden(), Wall(), Hidden(), Hidden()],
                ]
            ),
            Agent(Position(2, 1), Orientation.F),
        ),
        'hard-coded: equality with a hand-built observation',
    )


def awkward_visibility_functions():
    """custom visibility functions: wrong shapes, integer masks, rng use"""
    states = make_states()[::7]
    area = Area((-2, 0), (-1, 2))

    def transposed(grid, position, *, rng=None):
        return np.ones((grid.shape.width + 1, grid.shape.height), dtype=bool)

    for state in states[:20]:
        before = state_signature(state)
        result = outcome(
            obs_fs.from_visibility,
            state,
            area=area,
            visibility_function=transposed,
        )
        check(
            result
            == (
                'raise',
                ValueError,
                'incorrect visibility shape ((5, 3)), should be (3, 4)',
            ),
            f'wrong visibility shape: {result}',
        )
        check(state_signature(state) == before, 'wrong shape: state mutated')

    calls = []

    def integer_checker(grid, position, *, rng=None):
        # integer mask: 0 hides, anything else shows
        calls.append((grid.shape.as_tuple, position, rng))
        mask = np.zeros((grid.shape.height, grid.shape.width), dtype=int)
        for y in range(grid.shape.height):
            for x in range(grid.shape.width):
                mask[y, x] = (y + 2 * x) % 3
        return mask

    marker = object()
    for state in states:
        before = state_signature(state)
        del calls[:]
        observation = obs_fs.from_visibility(
            state, area=area, visibility_function=integer_checker, rng=marker
        )
        check(
            calls == [((3, 4), Position(2, 1), marker)],
            f'visibility function calls {calls}',
        )
        reference = ref_observation(state, area, integer_checker, rng=marker)
        check_observation_against_reference(
            'integer mask', state, area, observation, reference
        )
        check(state_signature(state) == before, 'integer mask: state mutated')
        for k in (1, 2, 3):
            check(
                obs_fs.from_visibility(
                    rotate_world_cw(state, k),
                    area=area,
                    visibility_function=integer_checker,
                )
                == observation,
                f'integer mask: turn {k}',
            )

        # writing into the observation never writes into the state
        observation.grid[Position(0, 0)] = Exit()
        observation.agent.position = Position(0, 0)
        observation.agent.orientation = Orientation.B
        check(state_signature(state) == before, 'observation aliases state')

    # a seeded stochastic function is reproducible and sees the rng it is given
    for state in states[:15]:
        first = obs_fs.stochastic_raytracing(
            state, area=Area((-6, 0), (-3, 3)), rng=np.random.default_rng(5)
        )
        second = obs_fs.stochastic_raytracing(
            state, area=Area((-6, 0), (-3, 3)), rng=np.random.default_rng(5)
        )
        check(first == second, 'stochastic_raytracing: same seed, same result')
        for k in (1, 2, 3):
            turned = obs_fs.stochastic_raytracing(
                rotate_world_cw(state, k),
                area=Area((-6, 0), (-3, 3)),
                rng=np.random.default_rng(5),
            )
            check(turned == first, f'stochastic_raytracing: turn {k}')


def factory_behaviour():
    area = Area((-1, 0), (-1, 1))
    check(
        outcome(obs_fs.factory, 'fully_transparent')
        == ('raise', ValueError, 'missing keyword argument `area`'),
        'factory: missing area',
    )
    check(
        outcome(obs_fs.factory, 'from_visibility', area=area)
        == (
            'raise',
            ValueError,
            'missing keyword argument `visibility_function`',
        ),
        'factory: missing visibility_function',
    )
    check(
        outcome(obs_fs.factory, 'nope', area=area)
        == ('raise', ValueError, 'invalid observation function name nope'),
        'factory: invalid name',
    )
    function = obs_fs.factory('raytracing', area=area, whatever=1, rng=None)
    check(sorted(function.keywords) == ['area'], 'factory: kept keywords')
    check(function.func is obs_fs.raytracing, 'factory: function')


def agent_behaviour():
    """Agent: the class the observation is built around"""
    key = Key(Color.GREEN)
    for (y, x), orientation in itertools.product(
        [(0, 0), (3, 1), (-2, 5)], CW
    ):
        agent = Agent(Position(y, x), orientation, key)
        twin = Agent(Position(y, x), orientation, Key(Color.GREEN))
        check(agent == twin and hash(agent) == hash(twin), 'agent: equality')
        check(agent != Agent(Position(y, x), orientation), 'agent: held item')
        check(agent.grid_object is key, 'agent: holds the given object')
        fy, fx = ref_rel_to_world(y, x, orientation, -1, 0)
        check(agent.front() == Position(fy, fx), 'agent: front')
        check(
            repr(agent)
            == f'Agent(Position(y={y}, x={x}), {orientation!s}, Key({Color.GREEN!s}))',
            f'agent: repr {agent!r}',
        )
        for area in AREAS:
            # where the view area lies in the world, from the reference geometry
            corners = [
                ref_rel_to_world(y, x, orientation, ry, rx)
                for ry in area.ys
                for rx in area.xs
            ]
            expected = Area(
                (min(c[0] for c in corners), max(c[0] for c in corners)),
                (min(c[1] for c in corners), max(c[1] for c in corners)),
            )
            check(agent.transform * area == expected, 'agent: world view area')
            # helpers a change may add must agree with the reference
            if hasattr(agent, 'view_area'):
                check(agent.view_area(area) == expected, 'agent.view_area')
            if hasattr(agent, 'egocentric'):
                pov = agent.egocentric(area)
                check(
                    pov == Agent(Position(-area.ymin, -area.xmin), Orientation.F, key)
                    and pov.grid_object is key
                    and pov is not agent
                    and pov.transform is not agent.transform,
                    'agent.egocentric',
                )
        check(
            (agent.position, agent.orientation) == (Position(y, x), orientation),
            'agent: untouched by the queries',
        )
    check(
        type(Agent(Position(0, 0), Orientation.F).grid_object)
        is NoneGridObject,
        'agent: default held object',
    )


def masking_behaviour():
    """hiding cells: the step between the POV grid and the observation"""
    rnd = random.Random(7)
    area = Area((-2, 0), (-1, 2))
    states = make_states()[::5]

    # every mask, drawn at random, is honoured cell by cell;  also for views
    # given with numpy integers
    for state in states:
        for view in (area, Area((np.int64(-2), np.int64(0)), (np.int64(-1), 2))):
            mask = np.array(
                [[rnd.random() < 0.5 for _ in range(4)] for _ in range(3)]
            )

            def fixed(grid, position, *, rng=None, mask=mask):
                return mask.copy()

            before = state_signature(state)
            observation = obs_fs.from_visibility(
                state, area=view, visibility_function=fixed
            )
            check_observation_against_reference(
                'random mask',
                state,
                view,
                observation,
                ref_observation(state, view, fixed),
            )
            check(state_signature(state) == before, 'random mask: mutated')
            for k in (1, 2, 3):
                check(
                    obs_fs.from_visibility(
                        rotate_world_cw(state, k),
                        area=view,
                        visibility_function=fixed,
                    )
                    == observation,
                    f'random mask: turn {k}',
                )

            # a helper a change may add must agree with the reference masking
            if hasattr(observation, 'masked'):
                full = obs_fs.fully_transparent(state, area=view)
                full_before = grid_signature(full.grid)
                again = full.masked(mask)
                check(again == observation, 'masked: differs')
                check(again is not full, 'masked: same instance')
                check(again.grid is not full.grid, 'masked: same grid')
                check(
                    grid_signature(full.grid) == full_before,
                    'masked: mutated its receiver',
                )
                check(again.agent == full.agent, 'masked: agent')
                check(
                    outcome(full.masked, mask.T)[:2] == ('raise', ValueError),
                    'masked: accepts a wrong shape',
                )

    # wrong shapes are reported against the view area, numpy integers included
    def too_wide(grid, position, *, rng=None):
        return np.ones((grid.shape.height, grid.shape.width + 2), dtype=bool)

    for view in (area, Area((np.int64(-2), np.int64(0)), (np.int64(-1), 2))):
        for state in states[:10]:
            result = outcome(
                obs_fs.from_visibility,
                state,
                area=view,
                visibility_function=too_wide,
            )
            check(
                result
                == (
                    'raise',
                    ValueError,
                    'incorrect visibility shape ((3, 6)), '
                    f'should be {(view.height, view.width)}',
                ),
                f'too wide: {result}',
            )

    # a mask that is not an array at all fails the same way as ever
    def as_list(grid, position, *, rng=None):
        return [[True] * grid.shape.width] * grid.shape.height

    result = outcome(
        obs_fs.from_visibility,
        states[0],
        area=area,
        visibility_function=as_list,
    )
    check(result[:2] == ('raise', AttributeError), f'list mask: {result}')

    # all-false and all-true masks
    for state in states:
        nothing = obs_fs.from_visibility(
            state,
            area=area,
            visibility_function=lambda g, p, *, rng=None: np.zeros(
                (3, 4), dtype=bool
            ),
        )
        check(
            all(
                type(obj) is Hidden
                for row in nothing.grid.objects
                for obj in row
            ),
            'all-false mask',
        )
        hidden = [obj for row in nothing.grid.objects for obj in row]
        check(
            len(set(map(id, hidden))) == len(hidden),
            'all-false mask: hidden cells share one object',
        )
        everything = obs_fs.from_visibility(
            state,
            area=area,
            visibility_function=lambda g, p, *, rng=None: np.ones(
                (3, 4), dtype=np.uint8
            ),
        )
        check(
            everything == obs_fs.fully_transparent(state, area=area),
            'all-true mask',
        )


if __name__ == '__main__':
    hard_coded()
    masking_behaviour()
    agent_behaviour()
    factory_behaviour()
    awkward_visibility_functions()
    raised = main_property()
    # deep copies of states observe the same (several worlds in one process)
    for state in make_states()[::11]:
        clone = copy.deepcopy(state)
        for area in AREAS[:4]:
            check(
                obs_fs.raytracing(clone, area=area)
                == obs_fs.raytracing(state, area=area),
                'deep copy observes the same',
            )
    print(f'OK: {CHECKS} checks ({raised} scenarios raise consistently)')
