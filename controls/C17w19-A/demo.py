"""Demo for change A (envs/yaml/schemas.py built through helpers).

Exits 0 on the pristine tree and with the change applied.  It checks that

* the table ``schemas`` is, key by key, indistinguishable from a reference
  copy built by the verbatim pristine construction embedded below: same keys
  in the same order, same JSON schema, same description / name / reference
  flags, and -- on every shipped configuration, every sub-document of them and
  a large set of systematic corruptions -- the same validated output or the
  same error text;
* every shipped configuration validates, builds (twice, without touching the
  input data) and behaves exactly like the environment assembled by hand from
  the named components (an assembler embedded here which does not use the
  schemas at all), for several seeds and action sequences;
* corrupted configurations are rejected by a schema or value error.
"""
import copy
import glob
import itertools as itt
import os
import re
import sys
import warnings
from functools import lru_cache

warnings.filterwarnings('ignore')

ROOT = os.getcwd()
sys.path.insert(0, ROOT)
sys.path.insert(0, os.path.join(ROOT, 'examples'))  # coin_env.yaml

from schema import And, Optional, Or, Schema, SchemaError  # noqa: E402

from gym_gridverse.action import Action  # noqa: E402
from gym_gridverse.envs import (  # noqa: E402
    observation_functions as observation_fs,
    reset_functions as reset_fs,
    reward_functions as reward_fs,
    terminating_functions as terminating_fs,
    transition_functions as transition_fs,
    visibility_functions as visibility_fs,
)
from gym_gridverse.envs.gridworld import GridWorld  # noqa: E402
from gym_gridverse.envs.yaml import factory as yaml_factory  # noqa: E402
from gym_gridverse.envs.yaml.schemas import (  # noqa: E402
    reserved_keys as live_reserved_keys,
    schema_keys as live_schema_keys,
    schemas as live_schemas,
)
from gym_gridverse.geometry import (  # noqa: E402
    Area,
    Shape,
    distance_function_factory,
)
from gym_gridverse.grid_object import Color, grid_object_registry  # noqa: E402
from gym_gridverse.spaces import (  # noqa: E402
    ActionSpace,
    ObservationSpace,
    StateSpace,
)
from gym_gridverse.utils.custom import import_if_custom  # noqa: E402

checks = 0


def check(condition, message):
    global checks
    checks += 1
    if not condition:
        print('FAIL:', message)
        sys.exit(1)


# --------------------------------------------------------------------------
# reference: the pristine construction of the schema table, verbatim
# --------------------------------------------------------------------------


def reference_schemas():
    @lru_cache()
    def _non_empty_schema():
        return Schema(len, error='{} should not be empty')

    @lru_cache()
    def _len_schema(n: int):
        return Schema(
            lambda data: len(data) == n, error=f'{{}} should have length {n}'
        )

    @lru_cache()
    def _positive_schema():
        return Schema(lambda data: data > 0, error='{} should be positive')

    @lru_cache()
    def _pair(subschema):
        return Schema(And([subschema], _len_schema(2)))

    @lru_cache()
    def _positive_int_pair():
        return _pair(Schema(And(int, _positive_schema())))

    @lru_cache()
    def _unique_schema():
        return Schema(
            lambda data: len(set(data)) == len(data),
            error='{} should have unique elements',
        )

    schemas = {
        'shape': _positive_int_pair(),
        'layout': _positive_int_pair(),
        'area': _pair(_pair(int)),
        'object_type': Schema(str),
        'action': Schema(Or(*(action.name for action in Action))),
        'color': Schema(Or(*(color.name for color in Color))),
    }

    schemas.update(
        {
            'object_types': Schema(
                And(
                    [schemas['object_type']],
                    _non_empty_schema(),
                    _unique_schema(),
                ),
                description='A non-empty list of unique grid-object type names',
            ),
            'actions': Schema(
                And(
                    [schemas['action']],
                    _non_empty_schema(),
                    _unique_schema(),
                ),
                description='A non-empty list of unique actions',
            ),
            'colors': Schema(
                And(
                    [schemas['color']],
                    _non_empty_schema(),
                    _unique_schema(),
                ),
                description='A non-empty list of unique color names',
            ),
        }
    )

    schemas.update(
        {
            'reset_function': Schema(
                {'name': str, Optional(object): object},
                description='A reset function',
                name='reset_function',
                as_reference=True,
            ),
            'transition_function': Schema(
                {'name': str, Optional(object): object},
                description='A transition function',
                name='transition_function',
                as_reference=True,
            ),
            'reward_function': Schema(
                {'name': str, Optional(object): object},
                description='A reward function',
                name='reward_function',
                as_reference=True,
            ),
            'observation_function': Schema(
                {'name': str, Optional(object): object},
                description='An observation function',
                name='observation_function',
                as_reference=True,
            ),
            'visibility_function': Schema(
                {'name': str, Optional(object): object},
                description='A visibility function',
                name='visibility_function',
                as_reference=True,
            ),
            'terminating_function': Schema(
                {'name': str, Optional(object): object},
                description='A terminating function',
                name='terminating_function',
                as_reference=True,
            ),
            #
            'distance_function': Schema(
                Or('manhattan', 'euclidean'),
                description='A distance function',
            ),
        }
    )

    schemas.update(
        {
            'reset_functions': Schema(
                And(
                    [schemas['reset_function']],
                    _non_empty_schema(),
                ),
                description='A list of reset functions',
            ),
            'transition_functions': Schema(
                And(
                    [schemas['transition_function']],
                    _non_empty_schema(),
                ),
                description='A list of transition functions',
            ),
            'reward_functions': Schema(
                And(
                    [schemas['reward_function']],
                    _non_empty_schema(),
                ),
                description='A list of reward functions',
            ),
            'terminating_functions': Schema(
                And(
                    [schemas['terminating_function']],
                    _non_empty_schema(),
                ),
                description='A list of terminating functions',
            ),
        }
    )

    schema_keys = [
        'reset_function',
        'transition_function',
        'reward_function',
        'observation_function',
        'visibility_function',
        'terminating_function',
    ]
    reserved_keys = [
        'reset_function',
        'transition_function',
        'reward_function',
        'terminating_function',
        #
        'reset_functions',
        'transition_functions',
        'reward_functions',
        'terminating_functions',
        #
        'shape',
        'layout',
        'object_type',
        'colors',
    ]
    for schema_key, reserved_key in itt.product(schema_keys, reserved_keys):
        schema = schemas[schema_key]
        schema.schema[Optional(reserved_key)] = schemas[reserved_key]

    schemas.update(
        {
            'state_space': Schema(
                {
                    'objects': schemas['object_types'],
                    'colors': schemas['colors'],
                },
                description='The shape and contents of a state',
            ),
            'action_space': Schema(
                schemas['actions'],
                description='A non-empty list of unique action names',
            ),
            'observation_space': Schema(
                {
                    'objects': schemas['object_types'],
                    'colors': schemas['colors'],
                },
                description='The shape and contents of an observation;  shape should have an odd width.',
            ),
        }
    )

    schemas.update(
        {
            'env': Schema(
                {
                    'state_space': schemas['state_space'],
                    Optional('action_space'): schemas['action_space'],
                    'observation_space': schemas['observation_space'],
                    'reset_function': schemas['reset_function'],
                    'transition_functions': schemas['transition_functions'],
                    'reward_functions': schemas['reward_functions'],
                    'observation_function': schemas['observation_function'],
                    'terminating_function': schemas['terminating_function'],
                },
            )
        }
    )
    return schemas, schema_keys, reserved_keys


ref_schemas, ref_schema_keys, ref_reserved_keys = reference_schemas()

# --------------------------------------------------------------------------
# 1. structure of the table
# --------------------------------------------------------------------------

check(
    list(live_schemas) == list(ref_schemas),
    f'schema keys / order differ: {list(live_schemas)}',
)
check(list(live_schema_keys) == ref_schema_keys, 'schema_keys differ')
check(list(live_reserved_keys) == ref_reserved_keys, 'reserved_keys differ')


def json_of(schema):
    try:
        return ('ok', schema.json_schema('ID'))
    except Exception as error:  # pylint: disable=broad-except
        return ('err', type(error).__name__, str(error))


for key in ref_schemas:
    live, ref = live_schemas[key], ref_schemas[key]
    check(type(live) is type(ref), f'{key}: schema type')
    check(live.description == ref.description, f'{key}: description')
    check(live.name == ref.name, f'{key}: name')
    check(live.as_reference == ref.as_reference, f'{key}: as_reference')
    check(json_of(live) == json_of(ref), f'{key}: json schema differs')

# every function schema owns its own dict, with the reserved keys in it
function_dicts = [live_schemas[key].schema for key in ref_schema_keys]
check(
    len({id(d) for d in function_dicts}) == len(function_dicts),
    'function schemas share a dict',
)
for key in ref_schema_keys:
    live_keys = [
        (type(k).__name__, getattr(k, 'schema', k))
        for k in live_schemas[key].schema
    ]
    ref_keys = [
        (type(k).__name__, getattr(k, 'schema', k))
        for k in ref_schemas[key].schema
    ]
    check(live_keys == ref_keys, f'{key}: dict keys {live_keys}')
    for k in live_schemas[key].schema:
        if isinstance(k, Optional) and k.schema in ref_reserved_keys:
            check(
                live_schemas[key].schema[k] is live_schemas[k.schema],
                f'{key}: reserved key {k.schema} is not the shared schema',
            )
# spaces refer to the shared list schemas
for key in ('state_space', 'observation_space'):
    check(
        live_schemas[key].schema['objects'] is live_schemas['object_types'],
        f'{key}: objects',
    )
    check(live_schemas[key].schema['colors'] is live_schemas['colors'], key)

# --------------------------------------------------------------------------
# 2. corpus of documents: shipped configurations, parts, corruptions
# --------------------------------------------------------------------------

config_paths = sorted(
    glob.glob(os.path.join(ROOT, 'yaml', '*.yaml'))
    + glob.glob(os.path.join(ROOT, 'gym_gridverse', 'registered_envs', '*.yaml'))
    + glob.glob(os.path.join(ROOT, 'examples', '*.yaml'))
)
check(len(config_paths) >= 43, f'only {len(config_paths)} configurations found')


# --------------------------------------------------------------------------
# minimal YAML reader (PyYAML may be missing;  `import yaml` from the worktree
# root then finds the `yaml/` directory of configurations instead).  Handles
# what the shipped configurations use: block mappings, block sequences, flow
# sequences, ints, floats, booleans, plain strings.
# --------------------------------------------------------------------------


def _scalar(text):
    text = text.strip()
    if text.startswith('['):
        value, rest = _flow(text)
        assert not rest.strip(), text
        return value
    if text in ('True', 'true'):
        return True
    if text in ('False', 'false'):
        return False
    if text in ('null', '~'):
        return None
    for convert in (int, float):
        try:
            return convert(text)
        except ValueError:
            pass
    assert not any(c in text for c in '#\'"{}&*!|>'), text
    return text


def _flow(text):
    assert text[0] == '['
    text = text[1:]
    items = []
    while True:
        text = text.lstrip()
        if text[0] == ']':
            return items, text[1:]
        if text[0] == '[':
            item, text = _flow(text)
            items.append(item)
        else:
            end = min(i for i in (text.find(','), text.find(']')) if i >= 0)
            items.append(_scalar(text[:end]))
            text = text[end:]
        text = text.lstrip()
        if text[0] == ',':
            text = text[1:]


def _block(lines, i, indent):
    """parses the block starting at lines[i] with the given indent"""
    if lines[i][1].startswith('- '):
        items = []
        while i < len(lines) and lines[i][0] == indent:
            assert lines[i][1].startswith('- '), lines[i]
            content = lines[i][1][2:]
            if ':' in content and not content.lstrip().startswith('['):
                lines[i] = (indent + 2, content)
                item, i = _block(lines, i, indent + 2)
            else:
                item, i = _scalar(content), i + 1
            items.append(item)
        assert i == len(lines) or lines[i][0] < indent, lines[i]
        return items, i

    mapping = {}
    while i < len(lines) and lines[i][0] == indent:
        key, _, rest = lines[i][1].partition(':')
        assert _ == ':' and key not in mapping, lines[i]
        if rest.strip():
            mapping[key], i = _scalar(rest), i + 1
        else:
            assert lines[i + 1][0] > indent, lines[i]
            mapping[key], i = _block(lines, i + 1, lines[i + 1][0])
    assert i == len(lines) or lines[i][0] < indent, lines[i]
    return mapping, i


def mini_yaml_load(text):
    lines = [
        (len(line) - len(line.lstrip(' ')), line.strip())
        for line in text.splitlines()
        if line.strip() and not line.strip().startswith('#')
    ]
    value, i = _block(lines, 0, 0)
    assert i == len(lines)
    return value


def load(path):
    with open(path) as f:
        text = f.read()
    data = mini_yaml_load(text)
    try:
        import yaml

        safe_load = yaml.safe_load
    except (ImportError, AttributeError):
        pass
    else:
        assert safe_load(text) == data, path
    return data


configs = {path: load(path) for path in config_paths}

# packaged copies are identical
for path in glob.glob(os.path.join(ROOT, 'yaml', '*.yaml')):
    packaged = os.path.join(
        ROOT, 'gym_gridverse', 'registered_envs', os.path.basename(path)
    )
    check(os.path.exists(packaged), f'no packaged copy of {path}')
    with open(path, 'rb') as f, open(packaged, 'rb') as g:
        check(f.read() == g.read(), f'packaged copy of {path} differs')

BAD_SHAPES = [
    [0, 5],
    [5, 0],
    [-3, 5],
    [5],
    [],
    [5, 5, 5],
    ['5', 5],
    [5.0, 5],
    5,
    None,
    'ab',
    {'height': 5, 'width': 5},
    [[5, 5]],
]
GOOD_SHAPES = [[1, 1], [1, 9], [9, 1], [5, 7], [100000, 3], [True, 2], (3, 4)]
BAD_COLORS = [
    [],
    ['PURPLE'],
    ['red'],
    ['RED', 'RED'],
    ['NONE', 'RED', 'NONE'],
    'RED',
    [0],
    [None],
    None,
    {'RED': 1},
]
GOOD_COLORS = [['NONE'], ['RED'], [c.name for c in Color], ('NONE', 'BLUE')]
BAD_ACTIONS = [
    [],
    ['JUMP'],
    ['move_forward'],
    ['MOVE_FORWARD', 'MOVE_FORWARD'],
    [0],
    'MOVE_FORWARD',
    None,
]
GOOD_ACTIONS = [['MOVE_FORWARD'], [a.name for a in Action], ['PICK_N_DROP', 'ACTUATE']]
BAD_OBJECTS = [[], ['Wall', 'Wall'], [5], 'Wall', None, [['Wall']]]
GOOD_OBJECTS = [['Wall'], ['Wall', 'Floor', 'Nonexistent'], ['mod:Thing']]
BAD_AREAS = [
    [[0, 1]],
    [[0, 1], [2, 3], [4, 5]],
    [[0, 1], [2]],
    [[0.5, 1], [2, 3]],
    [0, 1],
    [],
    None,
    [['a', 'b'], [1, 2]],
]
GOOD_AREAS = [[[-6, 0], [-3, 3]], [[0, 0], [0, 0]], [[3, -3], [5, -5]], [[-2, 4], [-1, 7]]]
BAD_FUNCTIONS = [
    {},
    {'reward': 1.0},
    {'name': 5},
    {'name': None},
    [],
    'reach_exit',
    None,
    {'name': 'x', 'shape': [0, 1]},
    {'name': 'x', 'layout': [1]},
    {'name': 'x', 'colors': []},
    {'name': 'x', 'colors': ['RED', 'RED']},
    {'name': 'x', 'object_type': 5},
    {'name': 'x', 'reward_function': {}},
    {'name': 'x', 'reward_function': {'name': 'y', 'shape': [1]}},
    {'name': 'x', 'reward_functions': []},
    {'name': 'x', 'reward_functions': [{'nome': 'y'}]},
    {'name': 'x', 'transition_functions': 'move_agent'},
    {'name': 'x', 'terminating_functions': [{'name': 'a'}, {}]},
    {'name': 'x', 'reset_function': []},
    {'name': 'x', 'reset_functions': [{'name': 'a', 'reset_functions': []}]},
    {'name': 'x', 'terminating_function': {'name': 'a', 'colors': ['x']}},
]
GOOD_FUNCTIONS = [
    {'name': 'x'},
    {'name': ''},
    {'name': 'x', 'anything': [1, {'a': None}], 5: 6, None: None},
    {'name': 'x', 'shape': [3, 4], 'layout': [2, 2], 'object_type': 'Key'},
    {'name': 'x', 'colors': ['NONE', 'RED']},
    {'name': 'x', 'distance_function': 'chebyshev', 'area': 'unchecked'},
    {
        'name': 'x',
        'reward_function': {
            'name': 'y',
            'reward_functions': [{'name': 'z', 'shape': [1, 1]}],
        },
    },
    {
        'name': 'reduce_any',
        'terminating_functions': [
            {'name': 'reach_exit'},
            {'name': 'overlap', 'object_type': 'Wall'},
        ],
    },
    {'name': 'x', 'reset_functions': [{'name': 'a'}], 'reset_function': {'name': 'b'}},
    {'name': 'x', 'transition_function': {'name': 'a'}, 'transition_functions': [{'name': 'b', 'p': 0.5}]},
]

corpus = []  # (schema key, document)


def add(key, document):
    corpus.append((key, document))


for document in BAD_SHAPES + GOOD_SHAPES:
    add('shape', document)
    add('layout', document)
for document in BAD_COLORS + GOOD_COLORS:
    add('colors', document)
for document in ['RED', 'NONE', 'red', 'PURPLE', 0, None, ['RED']]:
    add('color', document)
for document in BAD_ACTIONS + GOOD_ACTIONS:
    add('actions', document)
    add('action_space', document)
for document in ['MOVE_FORWARD', 'JUMP', 0, None, 'TURN_LEFT', 'pick_n_drop']:
    add('action', document)
for document in BAD_OBJECTS + GOOD_OBJECTS:
    add('object_types', document)
for document in ['Wall', '', 5, None, ['Wall']]:
    add('object_type', document)
for document in BAD_AREAS + GOOD_AREAS:
    add('area', document)
for document in ['manhattan', 'euclidean', 'chebyshev', '', None, ['manhattan']]:
    add('distance_function', document)
for key in ref_schema_keys:
    for document in BAD_FUNCTIONS + GOOD_FUNCTIONS:
        add(key, document)
for key in (
    'reset_functions',
    'transition_functions',
    'reward_functions',
    'terminating_functions',
):
    add(key, [])
    add(key, None)
    add(key, {'name': 'x'})
    add(key, GOOD_FUNCTIONS)
    add(key, GOOD_FUNCTIONS[:1])
    add(key, tuple(GOOD_FUNCTIONS[:2]))
    for bad in BAD_FUNCTIONS:
        add(key, [GOOD_FUNCTIONS[0], bad])
for key in ('state_space', 'observation_space'):
    add(key, {})
    add(key, None)
    add(key, {'objects': ['Wall']})
    add(key, {'colors': ['NONE']})
    add(key, {'objects': ['Wall'], 'colors': ['NONE'], 'shape': [3, 3]})
    for objects, colors in itt.product(
        BAD_OBJECTS[:3] + GOOD_OBJECTS, BAD_COLORS[:4] + GOOD_COLORS
    ):
        add(key, {'objects': objects, 'colors': colors})

# shipped configurations, their parts, and systematic corruptions
env_corruptions = []  # (label, document) which must be rejected when building


def corruptions_of(label, data):
    for top_key in data:
        document = copy.deepcopy(data)
        del document[top_key]
        # action_space is optional
        if top_key != 'action_space':
            yield f'{label} without {top_key}', document

    document = copy.deepcopy(data)
    document['extra_key'] = 1
    yield f'{label} with extra key', document

    for top_key in ('reset_function', 'observation_function', 'terminating_function'):
        document = copy.deepcopy(data)
        del document[top_key]['name']
        yield f'{label} {top_key} without name', document
        document = copy.deepcopy(data)
        document[top_key]['name'] = 'no_such_component'
        yield f'{label} {top_key} unknown name', document
        document = copy.deepcopy(data)
        document[top_key] = [document[top_key]]
        yield f'{label} {top_key} as list', document

    for top_key in ('transition_functions', 'reward_functions'):
        document = copy.deepcopy(data)
        document[top_key] = []
        yield f'{label} empty {top_key}', document
        document = copy.deepcopy(data)
        document[top_key] = document[top_key][0]
        yield f'{label} {top_key} not a list', document
        document = copy.deepcopy(data)
        del document[top_key][-1]['name']
        yield f'{label} {top_key}[-1] without name', document
        document = copy.deepcopy(data)
        document[top_key][0]['name'] = 'no_such_component'
        yield f'{label} {top_key}[0] unknown name', document

    for space_key in ('state_space', 'observation_space'):
        for bad in BAD_COLORS:
            document = copy.deepcopy(data)
            document[space_key]['colors'] = bad
            yield f'{label} {space_key} colors {bad!r}', document
        for bad in BAD_OBJECTS:
            document = copy.deepcopy(data)
            document[space_key]['objects'] = bad
            yield f'{label} {space_key} objects {bad!r}', document
        document = copy.deepcopy(data)
        document[space_key]['objects'] = ['Wall', 'NoSuchObject']
        yield f'{label} {space_key} unknown object', document

    for bad in BAD_ACTIONS:
        document = copy.deepcopy(data)
        document['action_space'] = bad
        yield f'{label} action_space {bad!r}', document

    if 'shape' in data['reset_function']:
        for bad in BAD_SHAPES:
            document = copy.deepcopy(data)
            document['reset_function']['shape'] = bad
            yield f'{label} shape {bad!r}', document
    if 'layout' in data['reset_function']:
        for bad in BAD_SHAPES:
            document = copy.deepcopy(data)
            document['reset_function']['layout'] = bad
            yield f'{label} layout {bad!r}', document
    if 'colors' in data['reset_function']:
        for bad in BAD_COLORS:
            document = copy.deepcopy(data)
            document['reset_function']['colors'] = bad
            yield f'{label} reset colors {bad!r}', document

    for i, reward_function in enumerate(data['reward_functions']):
        if 'object_type' in reward_function:
            document = copy.deepcopy(data)
            document['reward_functions'][i]['object_type'] = 7
            yield f'{label} reward {i} object_type 7', document
            document = copy.deepcopy(data)
            document['reward_functions'][i]['object_type'] = 'NoSuchObject'
            yield f'{label} reward {i} unknown object_type', document
        if 'distance_function' in reward_function:
            document = copy.deepcopy(data)
            document['reward_functions'][i]['distance_function'] = 'chebyshev'
            yield f'{label} reward {i} bad distance', document

    # missing required parameters
    for i, reward_function in enumerate(data['reward_functions']):
        if reward_function['name'] in ('pickndrop', 'getting_closer'):
            document = copy.deepcopy(data)
            del document['reward_functions'][i]['object_type']
            yield f'{label} reward {i} missing object_type', document
    if data['reset_function']['name'] in (
        'empty',
        'rooms',
        'keydoor',
        'crossing',
        'teleport',
        'dynamic_obstacles',
        'memory',
    ):
        document = copy.deepcopy(data)
        del document['reset_function']['shape']
        yield f'{label} reset missing shape', document


for path, data in configs.items():
    label = os.path.relpath(path, ROOT)
    add('env', data)
    for top_key, value in data.items():
        if top_key in ref_schemas:
            add(top_key, value)
    for function in itt.chain(
        [data['reset_function']],
        data['transition_functions'],
        data['reward_functions'],
        [data['observation_function']],
        [data['terminating_function']],
    ):
        for key in ref_schema_keys:
            add(key, function)
    for corruption_label, document in corruptions_of(label, data):
        add('env', document)
        env_corruptions.append((corruption_label, document))


def error_text(error):
    # lambdas print with their qualified name and address
    return re.sub(r'<function \S+ at 0x[0-9a-f]+>', '<function>', str(error))


def outcome(schema, document):
    document = copy.deepcopy(document)
    try:
        return ('ok', schema.validate(document), document)
    except SchemaError as error:
        return ('SchemaError', error_text(error), document)
    except Exception as error:  # pylint: disable=broad-except
        return (type(error).__name__, error_text(error), document)


n_valid = n_invalid = 0
for key, document in corpus:
    live = outcome(live_schemas[key], document)
    ref = outcome(ref_schemas[key], document)
    check(
        live == ref,
        f'schema {key} on {document!r}:\n  live {live[:2]!r}\n  ref  {ref[:2]!r}',
    )
    # validation never modifies its input
    check(live[2] == document, f'schema {key} modified {document!r}')
    if live[0] == 'ok':
        n_valid += 1
        check(live[1] == document, f'schema {key} changed valid {document!r}')
    else:
        n_invalid += 1
    # is_valid agrees
    check(
        live_schemas[key].is_valid(copy.deepcopy(document)) == (live[0] == 'ok'),
        f'is_valid disagrees for {key} on {document!r}',
    )

check(n_valid > 300 and n_invalid > 1000, f'corpus too small {n_valid} {n_invalid}')

# hard-coded verdicts (independent of the reference copy)
EXPECTED = [
    ('shape', [1, 2], True),
    ('shape', [0, 1], False),
    ('shape', [1, 1, 1], False),
    ('layout', [2, 1], True),
    ('layout', [], False),
    ('area', [[-6, 0], [-3, 3]], True),
    ('area', [[-6, 0]], False),
    ('color', 'NONE', True),
    ('color', 'none', False),
    ('colors', ['NONE', 'RED'], True),
    ('colors', [], False),
    ('colors', ['RED', 'RED'], False),
    ('actions', ['TURN_LEFT', 'TURN_RIGHT'], True),
    ('actions', ['TURN_LEFT', 'TURN_LEFT'], False),
    ('actions', [], False),
    ('action_space', ['ACTUATE'], True),
    ('action_space', ['FLY'], False),
    ('object_types', ['Wall', 'Floor'], True),
    ('object_types', ['Wall', 'Wall'], False),
    ('object_types', [], False),
    ('distance_function', 'manhattan', True),
    ('distance_function', 'euclidean', True),
    ('distance_function', 'chebyshev', False),
    ('state_space', {'objects': ['Floor'], 'colors': ['NONE']}, True),
    ('state_space', {'objects': ['Floor']}, False),
    ('observation_space', {'colors': ['NONE']}, False),
    ('observation_space', {'objects': ['Floor'], 'colors': ['NONE']}, True),
    ('reset_function', {'name': 'empty', 'shape': [4, 4]}, True),
    ('reset_function', {'name': 'empty', 'shape': [4, 0]}, False),
    ('reset_function', {'shape': [4, 4]}, False),
    ('reward_function', {'name': 'x', 'reward_functions': []}, False),
    ('reward_function', {'name': 'x', 'reward_functions': [{'name': 'y'}]}, True),
    ('visibility_function', {'name': 'x', 'layout': [1, 2, 3]}, False),
    ('observation_function', {'name': 'x', 'visibility_function': 17}, True),
    ('terminating_function', {'name': 'x', 'object_type': 1}, False),
    ('transition_functions', [], False),
    ('transition_functions', [{'name': 'move_agent'}], True),
    ('reset_functions', [{'name': 'a'}, {'nome': 'b'}], False),
    ('terminating_functions', [{'name': 'a'}, {'name': 'a'}], True),
]
for key, document, expected in EXPECTED:
    check(
        live_schemas[key].is_valid(document) == expected,
        f'{key} is_valid({document!r}) != {expected}',
    )

# --------------------------------------------------------------------------
# 3. building: like the environment assembled by hand
# --------------------------------------------------------------------------


def hand_process(data):
    """keyword arguments as the named component wants them (no schemas)"""
    data = dict(data)
    for key, component in (
        ('transition_functions', hand_transition),
        ('reward_functions', hand_reward),
        ('terminating_functions', hand_terminating),
    ):
        if key in data:
            data[key] = [component(d) for d in data[key]]
    if 'reward_function' in data:
        data['reward_function'] = hand_reward(data['reward_function'])
    if 'distance_function' in data:
        data['distance_function'] = distance_function_factory(
            data['distance_function']
        )
    if 'visibility_function' in data:
        data['visibility_function'] = hand_component(
            visibility_fs, data['visibility_function']
        )
    if 'shape' in data:
        data['shape'] = Shape(*data['shape'])
    if 'layout' in data:
        data['layout'] = tuple(data['layout'])
    if 'area' in data:
        data['area'] = Area(*data['area'])
    if 'object_type' in data:
        data['object_type'] = grid_object_registry.from_name(
            data['object_type']
        )
    if 'colors' in data:
        data['colors'] = {Color[name] for name in data['colors']}
    return data


def hand_component(module, data):
    kwargs = hand_process(data)
    name = kwargs.pop('name')
    return module.factory(name, **kwargs)


def hand_transition(data):
    return hand_component(transition_fs, data)


def hand_reward(data):
    return hand_component(reward_fs, data)


def hand_terminating(data):
    return hand_component(terminating_fs, data)


def hand_env(data):
    def object_types(names):
        return [
            grid_object_registry.from_name(import_if_custom(name))
            for name in names
        ]

    def colors(names):
        return [Color[name] for name in names]

    action_space = (
        ActionSpace([Action[name] for name in data['action_space']])
        if 'action_space' in data
        else ActionSpace(list(Action))
    )
    reset_function = hand_component(reset_fs, data['reset_function'])
    transition_function = transition_fs.factory(
        'chain',
        transition_functions=[
            hand_transition(d) for d in data['transition_functions']
        ],
    )
    reward_function = reward_fs.factory(
        'reduce_sum',
        reward_functions=[hand_reward(d) for d in data['reward_functions']],
    )
    observation_function = hand_component(
        observation_fs, data['observation_function']
    )
    terminating_function = hand_terminating(data['terminating_function'])

    state = reset_function()
    state_space = StateSpace(
        state.grid.shape,
        object_types(data['state_space']['objects']),
        colors(data['state_space']['colors']),
    )
    observation = observation_function(state)
    observation_space = ObservationSpace(
        observation.grid.shape,
        object_types(data['observation_space']['objects']),
        colors(data['observation_space']['colors']),
    )
    return GridWorld(
        state_space,
        action_space,
        observation_space,
        reset_function,
        transition_function,
        observation_function,
        reward_function,
        terminating_function,
    )


def same_space(a, b):
    return (
        type(a) is type(b)
        and a.grid_shape == b.grid_shape
        and list(a.object_types) == list(b.object_types)
        and list(a.colors) == list(b.colors)
    )


def rollout(env, seed, actions):
    env.set_seed(seed)
    env.reset()
    trace = [(env.state, env.observation)]
    for action in actions:
        reward, done = env.step(action)
        trace.append((env.state, env.observation, reward, done))
        if done:
            env.reset()
            trace.append((env.state, env.observation))
    return trace


def action_sequences(actions):
    yield [actions[i % len(actions)] for i in range(24)]
    yield [actions[(i * i + 3 * i) % len(actions)] for i in range(40)]
    forward = Action.MOVE_FORWARD if Action.MOVE_FORWARD in actions else actions[0]
    yield [forward] * 12
    yield []


for path, data in configs.items():
    label = os.path.relpath(path, ROOT)
    pristine = copy.deepcopy(data)

    check(live_schemas['env'].is_valid(copy.deepcopy(data)), f'{label} invalid')
    env_1 = yaml_factory.factory_env_from_data(data)
    check(data == pristine, f'{label}: building modified its input')
    env_2 = yaml_factory.factory_env_from_data(data)
    check(data == pristine, f'{label}: second build modified its input')
    env_hand = hand_env(data)
    check(data == pristine, f'{label}: hand assembly modified its input')

    envs = [env_1, env_2, env_hand]
    for env in envs[1:]:
        check(same_space(env.state_space, env_1.state_space), f'{label} state space')
        check(
            same_space(env.observation_space, env_1.observation_space),
            f'{label} observation space',
        )
        check(
            list(env.action_space.actions) == list(env_1.action_space.actions),
            f'{label} action space',
        )
    check(
        list(env_1.action_space.actions)
        == [Action[name] for name in data.get('action_space', [a.name for a in Action])],
        f'{label} actions are not the configured ones',
    )

    actions = list(env_1.action_space.actions)
    for seed in (0, 1, 17):
        for sequence in action_sequences(actions):
            traces = [rollout(env, seed, sequence) for env in envs]
            for trace in traces[1:]:
                check(trace == traces[0], f'{label} seed {seed}: rollouts differ')
        # re-seeding repeats
        check(
            rollout(env_1, seed, [actions[0]] * 5)
            == rollout(env_1, seed, [actions[0]] * 5),
            f'{label} seed {seed}: not repeatable',
        )
    for trace_step in rollout(env_1, 5, [actions[i % len(actions)] for i in range(30)]):
        check(env_1.state_space.contains(trace_step[0]), f'{label}: state not in space')
        check(
            env_1.observation_space.contains(trace_step[1]),
            f'{label}: observation not in space',
        )

# --------------------------------------------------------------------------
# 4. corrupted configurations are rejected
# --------------------------------------------------------------------------

n_rejected = 0
for label, document in env_corruptions:
    snapshot = copy.deepcopy(document)
    try:
        yaml_factory.factory_env_from_data(document)
    except (SchemaError, ValueError):
        n_rejected += 1
    except Exception as error:  # pylint: disable=broad-except
        check(False, f'{label}: rejected by {type(error).__name__}: {error}')
    else:
        check(False, f'{label}: was built')
    check(document == snapshot, f'{label}: rejection modified the input')
check(n_rejected == len(env_corruptions) and n_rejected > 2000, 'corruptions')

# registered gym ids point at the packaged copies
try:
    from gym_gridverse.gym import STRING_TO_YAML_FILE
except Exception:  # gym may be missing
    STRING_TO_YAML_FILE = None
if STRING_TO_YAML_FILE is not None:
    packaged = {
        os.path.basename(p)
        for p in glob.glob(
            os.path.join(ROOT, 'gym_gridverse', 'registered_envs', '*.yaml')
        )
    }
    check(set(STRING_TO_YAML_FILE.values()) == packaged, 'registered ids')

print(f'OK ({checks} checks, {len(corpus)} documents, {n_rejected} rejected builds)')
