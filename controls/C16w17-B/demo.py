"""Demo for change B (grid-object registry: `type_index` lookup helper).

Runs from the worktree root:  /venv/bin/python _seed/B/demo.py

Exits 0 on the pristine tree and with the change applied.  It checks

* the registry itself against hard-coded expectations: type indices of the
  library classes, indices of classes registered later (a coloured subclass, a
  two-status class, a homonym of `Floor`), classes which are not registered
  (also a non-registered subclass of a registered class), lookups by name,
  a second registry object, repeated registrations;
* that equality and hashing of objects, grids, states follow the type index;
* property C16 on spaces which mix library classes and the classes registered
  by this script, against a reference implementation of the three encodings
  embedded here (exhaustively all objects of each space for the per-cell
  encoding, all pairs of a pool of member states / observations), and that
  registering further classes afterwards leaves existing representations
  untouched.
"""
import itertools
import os
import random
import sys
import warnings

import numpy as np

warnings.simplefilter('ignore')
sys.path.insert(0, os.getcwd())  # the worktree root

from gym_gridverse.agent import Agent  # noqa: E402
from gym_gridverse.geometry import Orientation, Position, Shape  # noqa: E402
from gym_gridverse.grid import Grid  # noqa: E402
from gym_gridverse.grid_object import (  # noqa: E402
    Beacon,
    Box,
    Color,
    Door,
    Exit,
    Floor,
    GridObject,
    GridObjectRegistry,
    Hidden,
    Key,
    MovingObstacle,
    NoneGridObject,
    Telepod,
    Wall,
    grid_object_registry,
)
from gym_gridverse.observation import Observation  # noqa: E402
from gym_gridverse.representations.observation_representations import (  # noqa: E402
    make_observation_representation,
)
from gym_gridverse.representations.spaces import SpaceType  # noqa: E402
from gym_gridverse.representations.state_representations import (  # noqa: E402
    make_state_representation,
)
from gym_gridverse.spaces import ObservationSpace, StateSpace  # noqa: E402
from gym_gridverse.state import State  # noqa: E402

NAMES = ['default', 'no-overlap', 'compact']

n_checks = 0


def check(condition, message):
    global n_checks
    n_checks += 1
    if not condition:
        print(f'FAIL: {message}')
        sys.exit(1)


def raises_value_error(function, *args):
    try:
        function(*args)
    except ValueError as error:
        return error
    except Exception:  # any other kind of error is not what is expected
        return None
    return None


# hard-coded expectations: the registration order of the library classes
LIBRARY_TYPES = [
    NoneGridObject,
    Hidden,
    Floor,
    Wall,
    Exit,
    Door,
    Key,
    MovingObstacle,
    Box,
    Telepod,
    Beacon,
]
TYPE_INDEX = {t: i for i, t in enumerate(LIBRARY_TYPES)}
NUM_STATES = {t: 1 for t in LIBRARY_TYPES}
NUM_STATES[Door] = 3


def check_library_registry():
    # NOTE: the classes of this script are registered as well by now, after
    # the eleven classes of the library
    size = len(grid_object_registry)
    check(
        list(grid_object_registry)[:11] == LIBRARY_TYPES, 'registration order'
    )
    check(
        grid_object_registry.names()[:11]
        == [
            'NoneGridObject',
            'Hidden',
            'Floor',
            'Wall',
            'Exit',
            'Door',
            'Key',
            'MovingObstacle',
            'Box',
            'Telepod',
            'Beacon',
        ],
        'names',
    )
    for index, object_type in enumerate(LIBRARY_TYPES):
        check(object_type.type_index() == index, f'{object_type}: type index')
        check(
            grid_object_registry[object_type.type_index()] is object_type,
            f'{object_type}: registry[type_index] is the class',
        )
        check(
            grid_object_registry.index(object_type) == index,
            f'{object_type}: list index',
        )
        check(
            grid_object_registry.from_name(object_type.__name__) is object_type,
            f'{object_type}: from name',
        )
    for obj, index in [
        (NoneGridObject(), 0),
        (Hidden(), 1),
        (Floor(), 2),
        (Wall(), 3),
        (Exit(), 4),
        (Exit(Color.RED), 4),
        (Door(Door.Status.LOCKED, Color.BLUE), 5),
        (Key(Color.NONE), 6),
        (MovingObstacle(), 7),
        (Box(Key(Color.RED)), 8),
        (Telepod(Color.GREEN), 9),
        (Beacon(Color.YELLOW), 10),
    ]:
        check(obj.type_index() == index, f'{obj}: type index via instance')
        check(
            type(obj.type_index()) is int and type(type(obj).type_index()) is int,
            f'{obj}: plain int',
        )

    for bad in ['', 'floor', 'Floor ', 'GridObject', 'Dummy', None, 3, Floor]:
        error = raises_value_error(grid_object_registry.from_name, bad)
        check(
            error is not None
            and str(error) == f'Unregistered GridObject `{bad}`',
            f'from_name({bad!r}) is rejected: {error}',
        )
    check(len(grid_object_registry) == size, 'lookups register nothing')


# classes registered by this script ------------------------------------------


class ColoredFloor(Floor):
    """registered (index 11):  a subclass of a registered class"""

    def __init__(self, color=Color.NONE):
        self.color = color

    def __repr__(self):
        return f'ColoredFloor({self.color!s})'


class Lamp(GridObject):
    """registered (index 12):  two statuses"""

    color = Color.NONE
    blocks_movement = True
    blocks_vision = False
    holdable = True

    def __init__(self, on=False, color=Color.NONE):
        self.on = on
        self.color = color

    @property
    def state_index(self):
        return int(self.on)

    @classmethod
    def can_be_represented_in_state(cls):
        return True

    @classmethod
    def num_states(cls):
        return 2

    def __repr__(self):
        return f'Lamp({self.on}, {self.color!s})'


class Ghost(Floor, register=False):
    """not registered, although its base class is"""


class Phantom(GridObject, register=False):
    """not registered"""

    state_index = 0
    color = Color.NONE
    blocks_movement = False
    blocks_vision = False
    holdable = False

    @classmethod
    def can_be_represented_in_state(cls):
        return True

    @classmethod
    def num_states(cls):
        return 1


def make_homonym():
    class Floor(GridObject):  # registered (index 13):  same name as `Floor`
        state_index = 0
        color = Color.NONE
        blocks_movement = False
        blocks_vision = False
        holdable = False

        @classmethod
        def can_be_represented_in_state(cls):
            return True

        @classmethod
        def num_states(cls):
            return 1

        def __repr__(self):
            return 'OtherFloor()'

    return Floor


OtherFloor = make_homonym()

TYPE_INDEX.update({ColoredFloor: 11, Lamp: 12, OtherFloor: 13})
NUM_STATES.update({ColoredFloor: 1, Lamp: 2, OtherFloor: 1})


def check_custom_registry():
    check(len(grid_object_registry) == 14, 'three classes registered here')
    check(
        list(grid_object_registry)
        == LIBRARY_TYPES + [ColoredFloor, Lamp, OtherFloor],
        'appended in order of definition',
    )
    for object_type, index in TYPE_INDEX.items():
        check(object_type.type_index() == index, f'{object_type}: type index')
        check(
            grid_object_registry[index] is object_type,
            f'{object_type}: registry[{index}]',
        )
    check(ColoredFloor(Color.RED).type_index() == 11, 'ColoredFloor instance')
    check(Lamp(True).type_index() == 12, 'Lamp instance')
    check(OtherFloor().type_index() == 13, 'homonym instance')
    check(Floor().type_index() == 2, 'Floor keeps its index')

    # by name: the class registered first wins
    check(OtherFloor.__name__ == 'Floor', 'homonym')
    check(grid_object_registry.from_name('Floor') is Floor, 'first homonym')
    check(grid_object_registry.names().count('Floor') == 2, 'both are listed')
    check(
        grid_object_registry.from_name('ColoredFloor') is ColoredFloor
        and grid_object_registry.from_name('Lamp') is Lamp,
        'custom classes by name',
    )

    # classes which are not registered
    for object_type in (Ghost, Phantom):
        check(object_type not in grid_object_registry, f'{object_type} absent')
        check(
            raises_value_error(object_type.type_index) is not None,
            f'{object_type}.type_index() raises ValueError',
        )
        obj = object_type()
        check(
            raises_value_error(obj.type_index) is not None,
            f'{object_type}().type_index() raises ValueError',
        )
        check(
            raises_value_error(hash, obj) is not None,
            f'hash({object_type}()) raises ValueError',
        )
        check(
            raises_value_error(lambda: obj == Floor()) is not None
            and raises_value_error(lambda: Floor() == obj) is not None,
            f'{object_type}() == Floor() raises ValueError',
        )
        check(
            raises_value_error(
                grid_object_registry.from_name, object_type.__name__
            )
            is not None,
            f'{object_type} not found by name',
        )
    check(len(grid_object_registry) == 14, 'failed lookups register nothing')

    # a second registry is independent;  repeated registrations keep the first
    registry = GridObjectRegistry()
    check(registry.register(Wall) is Wall, 'register returns the class')
    check(registry.register(Floor) is Floor, 'register returns the class')
    check(registry.register(Wall) is Wall, 'register returns the class')
    check(list(registry) == [Wall, Floor, Wall], 'own data')
    check(registry.index(Wall) == 0 and registry.index(Floor) == 1, 'own index')
    check(registry.names() == ['Wall', 'Floor', 'Wall'], 'own names')
    check(registry.from_name('Wall') is Wall, 'own lookup')
    check(raises_value_error(registry.from_name, 'Exit') is not None, 'own miss')
    check(raises_value_error(registry.index, Exit) is not None, 'own miss')
    check(Wall.type_index() == 3 and Floor.type_index() == 2, 'global untouched')
    check(len(grid_object_registry) == 14, 'global registry untouched')


def check_equality_follows_type_index():
    objects = [
        Floor(),
        ColoredFloor(),
        ColoredFloor(Color.RED),
        OtherFloor(),
        Lamp(False),
        Lamp(True),
        Lamp(True, Color.RED),
        Wall(),
        Hidden(),
        NoneGridObject(),
        Exit(),
        Key(Color.NONE),
        Key(Color.RED),
        Door(Door.Status.OPEN, Color.NONE),
        Door(Door.Status.CLOSED, Color.NONE),
    ]
    for a, b in itertools.product(objects, repeat=2):
        key_a = (TYPE_INDEX[type(a)], a.state_index, a.color)
        key_b = (TYPE_INDEX[type(b)], b.state_index, b.color)
        check((a == b) == (key_a == key_b), f'{a} == {b}')
        check((a != b) == (key_a != key_b), f'{a} != {b}')
        if key_a == key_b:
            check(hash(a) == hash(b), f'hash of {a} and {b}')
        check(hash(a) == hash(key_a), f'hash of {a}')
    # same class attributes, different classes:  different objects
    check(Floor() != OtherFloor() and Floor() != ColoredFloor(), 'homonyms')
    check(
        Grid([[Floor(), Wall()]]) != Grid([[OtherFloor(), Wall()]])
        and Grid([[Floor(), Wall()]]) == Grid([[Floor(), Wall()]]),
        'grids compare cell by cell',
    )


# reference implementation of the three encodings ---------------------------


def instances(object_type, colors):
    colors = sorted(set(colors) | {Color.NONE}, key=lambda c: c.value)
    if object_type in (
        NoneGridObject,
        Hidden,
        Floor,
        Wall,
        MovingObstacle,
        OtherFloor,
    ):
        return [object_type()]
    if object_type in (Exit, Key, Telepod, Beacon, ColoredFloor):
        return [object_type(color) for color in colors]
    if object_type is Door:
        return [
            Door(status, color) for status in Door.Status for color in colors
        ]
    if object_type is Lamp:
        return [Lamp(on, color) for on in (False, True) for color in colors]
    if object_type is Box:
        return [Box(Floor())]
    raise AssertionError(object_type)


class Reference:
    def __init__(self, name, object_types, colors, extras):
        self.name = name
        self.types = sorted(
            set(object_types) | set(extras), key=TYPE_INDEX.__getitem__
        )
        self.colors = sorted(set(colors) | {Color.NONE}, key=lambda c: c.value)
        self.max_type = max(TYPE_INDEX[t] for t in self.types)
        self.max_states = max(NUM_STATES[t] for t in self.types)
        self.max_color = max(c.value for c in self.colors)

        counter = itertools.count()
        self.compact_type = {t: next(counter) for t in self.types}
        self.compact_status = {
            (t, j): next(counter)
            for t in self.types
            for j in range(NUM_STATES[t])
        }
        self.compact_color = {c: next(counter) for c in self.colors}
        self.compact_size = next(counter)

    def encode(self, obj):
        t, j, c = type(obj), obj.state_index, obj.color
        if self.name == 'default':
            return [TYPE_INDEX[t], j, c.value]
        if self.name == 'no-overlap':
            return [
                TYPE_INDEX[t],
                self.max_type + 1 + j,
                self.max_type + self.max_states + 2 + c.value,
            ]
        return [
            self.compact_type[t],
            self.compact_status[t, j],
            self.compact_color[c],
        ]

    def upper_bound(self):
        if self.name == 'default':
            return [self.max_type, self.max_states, self.max_color]
        if self.name == 'no-overlap':
            return [
                self.max_type,
                self.max_type + self.max_states + 1,
                self.max_type + self.max_states + self.max_color + 2,
            ]
        return [
            len(self.types) - 1,
            len(self.types) + sum(NUM_STATES[t] for t in self.types) - 1,
            self.compact_size - 1,
        ]


def same(a, b):
    return list(a) == list(b) and all(
        a[k].shape == b[k].shape and np.array_equal(a[k], b[k]) for k in a
    )


def check_cell_encoding(rep, reference, objects, tag):
    grid_object_rep = rep.representations['grid'].grid_object_representation
    encodings = {}
    for obj in objects:
        encoding = grid_object_rep.convert(obj)
        check(
            encoding.tolist() == reference.encode(obj),
            f'{tag}: encoding of {obj}: {encoding.tolist()} '
            f'vs {reference.encode(obj)}',
        )
        encodings[obj] = tuple(encoding.tolist())

    for a, b in itertools.combinations(objects, 2):
        check(
            (a == b) == (encodings[a] == encodings[b]),
            f'{tag}: {a} vs {b} and their encodings',
        )

    space = grid_object_rep.space
    check(space.space_type is SpaceType.CATEGORICAL, f'{tag}: categorical')
    check(space.lower_bound.tolist() == [0, 0, 0], f'{tag}: lower bound')
    check(
        space.upper_bound.tolist() == reference.upper_bound(),
        f'{tag}: upper bound {space.upper_bound.tolist()}',
    )
    channels = [set(e[i] for e in encodings.values()) for i in range(3)]
    if reference.name in ('no-overlap', 'compact'):
        for i, j in [(0, 1), (0, 2), (1, 2)]:
            check(
                max(channels[i]) < min(channels[j]),
                f'{tag}: channels {i} and {j} use separate ranges',
            )
    if reference.name == 'compact':
        used = sorted(
            v
            for m in (
                grid_object_rep._grid_object_type_map,
                grid_object_rep._grid_object_status_map,
                grid_object_rep._grid_object_color_map,
            )
            for v in m.flatten().tolist()
            if v >= 0
        )
        check(
            used == list(range(reference.compact_size)),
            f'{tag}: consecutive from zero {used}',
        )
        values = set().union(*channels)
        check(values <= set(used), f'{tag}: only mapped values are used')
        if any(obj.color is not Color.NONE for obj in objects) or (
            reference.colors == [Color.NONE]
        ):
            # (a colour of the space may be worn by no object of its types)
            check(
                sorted(values) == used,
                f'{tag}: every value is used by some object',
            )


def check_members(rep, reference, members, with_agent, tag):
    converted = []
    for x in members:
        c = rep.convert(x)
        check(same(c, rep.convert(x)), f'{tag}: repeated conversion')
        height, width = x.grid.shape.height, x.grid.shape.width
        check(
            c['grid'].tolist()
            == [
                [reference.encode(x.grid[y, xx]) for xx in range(width)]
                for y in range(height)
            ],
            f'{tag}: grid entries',
        )
        check(
            c['agent_id_grid'].tolist()
            == [
                [int((y, xx) == x.agent.position.yx) for xx in range(width)]
                for y in range(height)
            ],
            f'{tag}: agent marker at {x.agent.position}',
        )
        check(
            c['item'].tolist() == reference.encode(x.agent.grid_object),
            f'{tag}: item',
        )
        if with_agent:
            check(
                c['agent'][2:].tolist()
                == [
                    float(x.agent.orientation.value == i) for i in range(4)
                ],
                f'{tag}: heading',
            )
        for key, space in rep.space.items():
            check(space.contains(c[key]), f'{tag}: {key} within its space')
        converted.append(c)

    for (x1, c1), (x2, c2) in itertools.combinations(
        zip(members, converted), 2
    ):
        equal = x1 == x2
        check(equal == same(c1, c2), f'{tag}: equal iff equal ({x1} / {x2})')
        if equal:
            check(hash(x1) == hash(x2), f'{tag}: equal ones hash alike')
    return converted


def copy_grid(grid):
    return Grid(
        [
            [grid[y, x] for x in range(grid.shape.width)]
            for y in range(grid.shape.height)
        ]
    )


def member_grids(rng, shape, objects, n):
    grids = [
        Grid([[fill for _ in range(shape.width)] for _ in range(shape.height)])
        for fill in objects[:2]
    ]
    while len(grids) < n:
        grids.append(
            Grid(
                [
                    [rng.choice(objects) for _ in range(shape.width)]
                    for _ in range(shape.height)
                ]
            )
        )
    base = grids[-1]
    for y in range(shape.height):
        for x in range(shape.width):
            rows = [
                [base[yy, xx] for xx in range(shape.width)]
                for yy in range(shape.height)
            ]
            other = next((o for o in objects if o != rows[y][x]), None)
            if other is not None:
                rows[y][x] = other
                grids.append(Grid(rows))
    return grids


def border_positions(shape):
    ys = sorted({0, shape.height // 2, shape.height - 1})
    xs = sorted({0, shape.width // 2, shape.width - 1})
    return [Position(y, x) for y in ys for x in xs]


TYPE_SUBSETS = [
    [Floor],
    [Floor, Wall, Exit],
    [Floor, OtherFloor],
    [ColoredFloor, Floor, OtherFloor, Lamp],
    [Lamp],
    [Wall, Door, Key, Lamp],
    [OtherFloor, Beacon, Telepod, MovingObstacle],
    [Floor, Wall, Exit, Door, Key, MovingObstacle, Telepod, Beacon, Lamp],
]
COLOR_SUBSETS = [
    [],
    [Color.NONE],
    [Color.YELLOW],
    [Color.BLUE, Color.RED],
    list(Color),
]
STATE_SHAPES = [Shape(2, 2), Shape(2, 4), Shape(5, 3)]
OBSERVATION_SHAPES = [Shape(1, 1), Shape(3, 1), Shape(2, 3), Shape(3, 5)]


def build_members(rng, cls, space, shape, grid_objects, item_objects, headings):
    grids = member_grids(rng, shape, grid_objects, 4)
    fixed = getattr(space, 'agent_position', None)

    def position_or(position):
        return position if fixed is None else fixed

    members = [
        cls(
            grid,
            Agent(
                position_or(rng.choice(border_positions(shape))),
                rng.choice(headings),
                rng.choice(item_objects),
            ),
        )
        for grid in grids
    ]
    for position in border_positions(shape):
        for heading in headings:
            members.append(cls(grids[0], Agent(position, heading, None)))
    for item in item_objects:
        members.append(
            cls(grids[1], Agent(position_or(Position(0, 0)), headings[0], item))
        )
    for member in list(members[:6]):
        members.append(
            cls(
                copy_grid(member.grid),
                Agent(
                    Position(*member.agent.position.yx),
                    member.agent.orientation,
                    member.agent.grid_object,
                ),
            )
        )
    for member in members:
        check(space.contains(member), f'member of its space: {member}')
    return members


def run_spaces():
    """returns closures re-checking some representations later"""
    rng = random.Random(1611)
    later = []
    for object_types, colors in itertools.product(TYPE_SUBSETS, COLOR_SUBSETS):
        own_objects = [obj for t in object_types for obj in instances(t, colors)]

        # states
        shape = rng.choice(STATE_SHAPES)
        space = StateSpace(shape, object_types, colors)
        item_objects = own_objects + [NoneGridObject()]
        members = build_members(
            rng,
            State,
            space,
            shape,
            own_objects,
            item_objects,
            list(Orientation),
        )
        for name in NAMES:
            tag = (
                f'state/{name}/{[t.__name__ for t in object_types]}/'
                f'{[c.name for c in colors]}/{shape.height}x{shape.width}'
            )
            rep = make_state_representation(name, space)
            reference = Reference(name, object_types, colors, [NoneGridObject])
            check_cell_encoding(rep, reference, item_objects, tag)
            converted = check_members(rep, reference, members, True, tag)
            if len(later) < 12 or rng.random() < 0.1:
                later.append((rep, members[:8], converted[:8], tag))

        # observations
        shape = rng.choice(OBSERVATION_SHAPES)
        space = ObservationSpace(shape, object_types, colors)
        grid_objects = own_objects + [Hidden()]
        item_objects = own_objects + [NoneGridObject()]
        members = build_members(
            rng,
            Observation,
            space,
            shape,
            grid_objects,
            item_objects,
            [Orientation.F],
        )
        for name in NAMES:
            tag = (
                f'observation/{name}/{[t.__name__ for t in object_types]}/'
                f'{[c.name for c in colors]}/{shape.height}x{shape.width}'
            )
            rep = make_observation_representation(name, space)
            reference = Reference(
                name, object_types, colors, [Hidden, NoneGridObject]
            )
            check_cell_encoding(
                rep, reference, grid_objects + [NoneGridObject()], tag
            )
            converted = check_members(rep, reference, members, False, tag)
            if len(later) < 24 or rng.random() < 0.1:
                later.append((rep, members[:8], converted[:8], tag))
    return later


def check_later_registrations(later):
    """registrations are append-only:  existing indices never move"""

    class LateComer(Floor):
        pass

    class Floor2(Wall):
        pass

    Floor2.__name__ = 'Wall'  # yet another homonym, renamed after the fact

    check(LateComer.type_index() == 14, 'late comer: next index')
    check(Floor2.type_index() == 15, 'second late comer: next index')
    check(grid_object_registry.from_name('Wall') is Wall, 'first Wall wins')
    check(grid_object_registry.from_name('LateComer') is LateComer, 'by name')
    for object_type, index in TYPE_INDEX.items():
        check(object_type.type_index() == index, f'{object_type}: index stays')
    for rep, members, converted, tag in later:
        for member, expected in zip(members, converted):
            check(
                same(rep.convert(member), expected),
                f'{tag}: same representation after later registrations',
            )


def main():
    check_library_registry()
    check_custom_registry()
    check_equality_follows_type_index()
    later = run_spaces()
    check_later_registrations(later)
    print(f'OK ({n_checks} checks)')


if __name__ == '__main__':
    main()
