"""Demo for change B (C09: objects are conserved).

Runs both on the pristine tree and with the patch applied;  exits 0 iff every
check passes.  Nothing here depends on the patch:  the module-level constant
``gym_gridverse.agent._FRONT`` is only inspected when it exists.

What is checked

1. ``Agent.front()`` against a hard-coded table (all four headings, positions
   inside, on borders, in corners, negative), freshness of the result, no
   effect on the agent, behaviour after the position / orientation setters,
   several agents alive at once, pickled copies, repeated calls;  the shared
   constant (if any) is immutable and never handed out.
2. ``pickndrop``, ``actuate_box`` and ``actuate_door`` against embedded
   reference implementations which compute the front cell on their own, on
   random states (non-square grids, 1xN, Nx1, agents in corners, colour NONE).
3. The conservation property for every built-in transition function, many
   compositions, all actions, all headings, several seeds and the
   library-level rng;  the pick-and-drop case analysis, scenery immobility,
   box opening;  ``move_obstacles`` against its reference.
4. Histories of the shipped key-door and obstacle environments (reset
   functions + the transition chains of the YAML files), interleaved
   environments and re-seeding.
"""
import dataclasses
import pickle
import itertools as itt
import os
import sys
from collections import Counter
from functools import partial

import numpy.random as rnd

# run from the worktree root:  import the worktree's gym_gridverse
sys.path.insert(0, os.getcwd())

from gym_gridverse.action import Action
from gym_gridverse.agent import Agent
from gym_gridverse.envs import reset_functions as reset_fs
from gym_gridverse.envs import transition_functions as tfs
from gym_gridverse.geometry import (
    Transform,
    Orientation,
    Position,
    Shape,
)
from gym_gridverse.grid import Grid
from gym_gridverse.grid_object import (
    Beacon,
    Box,
    Color,
    Door,
    Exit,
    Floor,
    Key,
    MovingObstacle,
    NoneGridObject,
    Telepod,
    Wall,
)
from gym_gridverse.rng import reset_gv_rng
from gym_gridverse.state import State

CHECKS = Counter()


def check(condition, message):
    CHECKS['total'] += 1
    if not condition:
        print(f'FAILED: {message}')
        sys.exit(1)


# --------------------------------------------------------------------------
# signatures / inventories
# --------------------------------------------------------------------------


def signature(obj):
    """type, colour (and recursively the content of boxes)

    The status of a door is not part of it:  opening a door is not a creation.
    """
    sig = (type(obj).__name__, obj.color)
    if isinstance(obj, Box):
        sig += (signature(obj.content),)
    return sig


def inventory(state):
    """multiset of non-floor objects on the grid, together with the held item"""
    counter = Counter(
        signature(state.grid[p])
        for p in state.grid.area.positions()
        if not isinstance(state.grid[p], Floor)
    )
    if not isinstance(state.agent.grid_object, NoneGridObject):
        counter[signature(state.agent.grid_object)] += 1
    return counter


def layout(state):
    """position -> signature"""
    return {p: signature(state.grid[p]) for p in state.grid.area.positions()}


def ids(state):
    """position -> id of the object"""
    return {p: id(state.grid[p]) for p in state.grid.area.positions()}


def rng_state(rng):
    return repr(rng.bit_generator.state)


# --------------------------------------------------------------------------
# reference geometry
# --------------------------------------------------------------------------


def ref_manhattan_boundary(position, distance):
    """embedded reference:  clockwise from the top"""
    boundary = []
    boundary.extend(
        Position(position.y - distance + i, position.x + i)
        for i in range(distance)
    )
    boundary.extend(
        Position(position.y + i, position.x + distance - i)
        for i in range(distance)
    )
    boundary.extend(
        Position(position.y + distance - i, position.x - i)
        for i in range(distance)
    )
    boundary.extend(
        Position(position.y - i, position.x - distance + i)
        for i in range(distance)
    )
    return boundary



# --------------------------------------------------------------------------
# 2. reference implementations of the dynamics
# --------------------------------------------------------------------------


def ref_move_obstacles(state, action, *, rng):
    positions = [
        position
        for position in state.grid.area.positions()
        if isinstance(state.grid[position], MovingObstacle)
    ]

    for position in positions:
        next_positions = [
            next_position
            for next_position in ref_manhattan_boundary(position, 1)
            if state.grid.area.contains(next_position)
            and isinstance(state.grid[next_position], Floor)
        ]

        try:
            i = rng.choice(len(next_positions))
        except ValueError:
            pass
        else:
            next_position = next_positions[i]
            state.grid.swap(position, next_position)


FRONT = {
    Orientation.F: Position(-1, 0),
    Orientation.R: Position(0, 1),
    Orientation.B: Position(1, 0),
    Orientation.L: Position(0, -1),
}


def front_of(agent):
    delta = FRONT[agent.orientation]
    return Position(agent.position.y + delta.y, agent.position.x + delta.x)


# --------------------------------------------------------------------------
# random states
# --------------------------------------------------------------------------

COLORS = list(Color)


def random_object(rng, *, obstacles):
    kind = rng.choice(14 if obstacles else 12)
    color = COLORS[rng.choice(len(COLORS))]
    if kind <= 3:
        return Floor()
    if kind == 4:
        return Wall()
    if kind == 5:
        return Exit()
    if kind == 6:
        status = list(Door.Status)[rng.choice(3)]
        return Door(status, color)
    if kind == 7:
        return Key(color)
    if kind == 8:
        content = [Floor(), Key(color), Wall(), Box(Key(color)), Exit()][
            rng.choice(5)
        ]
        return Box(content)
    if kind == 9:
        return Telepod(color)
    if kind == 10:
        return Beacon(color)
    if kind == 11:
        return Key(Color.NONE)
    return MovingObstacle()


SHAPES = [
    (1, 1),
    (1, 2),
    (2, 1),
    (1, 7),
    (7, 1),
    (2, 2),
    (2, 5),
    (5, 2),
    (3, 4),
    (4, 3),
    (5, 5),
    (3, 8),
    (6, 4),
]


def random_state(rng, shape, *, obstacles=True, dense=False):
    height, width = shape
    if dense:
        objects = [
            [MovingObstacle() for _ in range(width)] for _ in range(height)
        ]
        # a few holes
        for _ in range(rng.choice(3)):
            objects[rng.choice(height)][rng.choice(width)] = Floor()
    else:
        objects = [
            [random_object(rng, obstacles=obstacles) for _ in range(width)]
            for _ in range(height)
        ]
    grid = Grid(objects)

    # agents often on the border or in a corner
    if rng.random() < 0.5:
        y = [0, height - 1][rng.choice(2)]
        x = [0, width - 1][rng.choice(2)]
    else:
        y, x = rng.choice(height), rng.choice(width)
    orientation = list(Orientation)[rng.choice(4)]
    held = [None, None, Key(Color.NONE), Key(Color.RED), Key(Color.YELLOW)][
        rng.choice(5)
    ]
    return State(grid, Agent(Position(int(y), int(x)), orientation, held))


def clone(state):
    """a copy with *new* objects, same layout"""
    return tfs.fast_copy(state)


# --------------------------------------------------------------------------
# property checks on one step
# --------------------------------------------------------------------------

SCENERY = (Wall, Exit, Door, Telepod, Beacon, Box)


def check_step(before, action, function, rng, label):
    """runs `function` in place on a copy of `before` and checks C09"""
    state = clone(before)
    ids_before = ids(state)
    objs_before = {p: state.grid[p] for p in state.grid.area.positions()}
    held_before = state.agent.grid_object
    agent_before = (state.agent.position, state.agent.orientation)
    inventory_before = inventory(state)
    layout_before = layout(state)
    front = front_of(state.agent)
    front_inside = state.grid.area.contains(front)
    shape_before = state.grid.shape
    pickndrop_in = getattr(function, 'has_pickndrop', False)
    obstacles_in = getattr(function, 'has_obstacles', False)
    composite = getattr(function, 'is_composite', False)
    # a chain which teleports the agent *before* acting has another front
    stale_front = getattr(function, 'stale_front', False)

    function(state, action, rng=rng)

    check(state.grid.shape == shape_before, f'{label}: shape changed')
    check(
        len(state.grid.objects) == shape_before.height
        and all(len(row) == shape_before.width for row in state.grid.objects),
        f'{label}: rows changed',
    )

    # boxes in front which were opened (only by actuate_box, only in front)
    opened = [
        p
        for p, obj in objs_before.items()
        if isinstance(obj, Box) and state.grid[p] is not obj
    ]
    expected = Counter(inventory_before)
    for p in opened:
        box = objs_before[p]
        check(action is Action.ACTUATE, f'{label}: box opened by {action}')
        if not stale_front:
            check(p == front, f'{label}: box opened elsewhere than in front')
        if not (composite and obstacles_in):
            # (in a chain, an obstacle may since have moved onto a floor content)
            check(state.grid[p] is box.content, f'{label}: box content')
        expected[signature(box)] -= 1
        if not isinstance(box.content, Floor):
            expected[signature(box.content)] += 1
    expected = +expected
    check(
        inventory(state) == expected,
        f'{label}: inventory changed {inventory_before} -> {inventory(state)}',
    )

    # no object appears twice (by identity), none is created except floors
    seen = Counter(id(state.grid[p]) for p in state.grid.area.positions())
    check(max(seen.values()) == 1, f'{label}: aliased cells')
    known = set(ids_before.values()) | {id(held_before)}
    known |= {id(objs_before[p].content) for p in opened}
    for p in state.grid.area.positions():
        obj = state.grid[p]
        check(
            id(obj) in known or isinstance(obj, Floor),
            f'{label}: new non-floor object {obj!r} at {p}',
        )
    check(
        id(state.agent.grid_object) in known
        or isinstance(state.agent.grid_object, NoneGridObject),
        f'{label}: new held object',
    )
    check(
        all(
            state.grid[p] is not state.agent.grid_object
            for p in state.grid.area.positions()
        ),
        f'{label}: held object also on the grid',
    )

    # scenery never moves
    for p, obj in objs_before.items():
        if isinstance(obj, SCENERY) and p not in opened:
            check(state.grid[p] is obj, f'{label}: scenery moved at {p}')
            check(
                signature(obj) == layout_before[p],
                f'{label}: scenery recoloured at {p}',
            )

    # pick-and-drop only ever touches the cell in front
    changed = [
        p for p in state.grid.area.positions() if state.grid[p] is not objs_before[p]
    ]
    if not obstacles_in and not stale_front:
        check(
            set(changed) <= ({front} if front_inside else set()),
            f'{label}: cells other than the front changed: {changed}',
        )
    if not obstacles_in:
        check(len(changed) <= 1, f'{label}: several cells changed: {changed}')
    if not front_inside and not stale_front:
        check(
            state.agent.grid_object is held_before,
            f'{label}: hand changed while facing outside',
        )
    if not (pickndrop_in and action is Action.PICK_N_DROP):
        check(
            state.agent.grid_object is held_before,
            f'{label}: hand changed without pick-and-drop',
        )
    elif front_inside and not composite:
        obj_front = objs_before[front]
        empty_hand = isinstance(held_before, NoneGridObject)
        if obj_front.holdable and empty_hand:
            check(state.agent.grid_object is obj_front, f'{label}: pick')
            check(isinstance(state.grid[front], Floor), f'{label}: pick floor')
        elif obj_front.holdable:
            check(state.agent.grid_object is obj_front, f'{label}: swap hand')
            check(state.grid[front] is held_before, f'{label}: swap grid')
        elif isinstance(obj_front, Floor) and not empty_hand:
            check(state.grid[front] is held_before, f'{label}: drop')
            check(
                isinstance(state.agent.grid_object, NoneGridObject),
                f'{label}: drop hand',
            )
        else:
            if isinstance(obj_front, Floor):
                # (the library may put a fresh floor on the floor)
                check(isinstance(state.grid[front], Floor), f'{label}: no-op')
            else:
                check(state.grid[front] is obj_front, f'{label}: no-op grid')
            if empty_hand:
                check(
                    isinstance(state.agent.grid_object, NoneGridObject),
                    f'{label}: no-op hand',
                )
            else:
                check(
                    state.agent.grid_object is held_before,
                    f'{label}: no-op hand',
                )

    # moving obstacles only ever swap with floors
    for p in changed:
        if p in opened or (pickndrop_in and action is Action.PICK_N_DROP):
            # (in a chain, an obstacle may move onto the floor left by a pick)
            continue
        was, now = objs_before[p], state.grid[p]
        if isinstance(was, MovingObstacle) or isinstance(now, MovingObstacle):
            check(obstacles_in, f'{label}: obstacle moved without move_obstacles')
            check(
                isinstance(was, (MovingObstacle, Floor))
                and isinstance(now, (MovingObstacle, Floor)),
                f'{label}: obstacle overwrote {was!r} / {now!r} at {p}',
            )

    if not getattr(function, 'moves_agent', False):
        check(
            (state.agent.position, state.agent.orientation) == agent_before,
            f'{label}: agent moved',
        )

    return state


def tag(function, **attributes):
    for key, value in attributes.items():
        setattr(function, key, value)
    return function


def wrap(function):
    """a taggable wrapper"""

    def wrapped(state, action, *, rng=None):
        return function(state, action, rng=rng)

    return wrapped


def transition_functions():
    fs = {
        'move_agent': tag(wrap(tfs.move_agent), moves_agent=True),
        'turn_agent': tag(wrap(tfs.turn_agent), moves_agent=True),
        'pickndrop': tag(wrap(tfs.pickndrop), has_pickndrop=True),
        'move_obstacles': tag(wrap(tfs.move_obstacles), has_obstacles=True),
        'actuate_door': wrap(tfs.actuate_door),
        'actuate_box': wrap(tfs.actuate_box),
        'teleport': tag(wrap(tfs.teleport), moves_agent=True),
    }

    def chain_of(*names):
        function = partial(
            tfs.chain,
            transition_functions=[getattr(tfs, name) for name in names],
        )
        return tag(
            wrap(function),
            moves_agent=True,
            has_pickndrop='pickndrop' in names,
            has_obstacles='move_obstacles' in names,
            is_composite=True,
            stale_front=bool(names) and names[0] == 'teleport',
        )

    fs['chain()'] = chain_of()
    fs['chain(keydoor)'] = chain_of(
        'move_agent', 'turn_agent', 'actuate_door', 'pickndrop'
    )
    fs['chain(obstacles)'] = chain_of(
        'move_agent', 'turn_agent', 'move_obstacles'
    )
    fs['chain(all)'] = chain_of(
        'move_agent',
        'turn_agent',
        'actuate_door',
        'actuate_box',
        'pickndrop',
        'move_obstacles',
        'teleport',
    )
    fs['chain(reversed)'] = chain_of(
        'teleport',
        'move_obstacles',
        'pickndrop',
        'actuate_box',
        'actuate_door',
        'turn_agent',
        'move_agent',
    )
    fs['chain(obstacles x3)'] = chain_of(
        'move_obstacles', 'move_obstacles', 'move_obstacles'
    )
    fs['chain(nested)'] = tag(
        wrap(
            partial(
                tfs.chain,
                transition_functions=[
                    partial(
                        tfs.chain,
                        transition_functions=[tfs.pickndrop, tfs.move_obstacles],
                    ),
                    tfs.actuate_box,
                    tfs.move_obstacles,
                ],
            )
        ),
        has_pickndrop=True,
        has_obstacles=True,
        is_composite=True,
    )
    return fs



# --------------------------------------------------------------------------
# Agent.front
# --------------------------------------------------------------------------

import gym_gridverse.agent as agent_module  # noqa: E402

HAS_CONSTANT = hasattr(agent_module, '_FRONT')

# hard-coded:  heading -> (dy, dx) of the cell in front
FRONT_TABLE = {
    Orientation.FORWARD: (-1, 0),
    Orientation.RIGHT: (0, 1),
    Orientation.BACKWARD: (1, 0),
    Orientation.LEFT: (0, -1),
}


def check_front():
    check(len(FRONT_TABLE) == 4 == len(list(Orientation)), 'four headings')

    agents = []
    for y, x in itt.product(range(-3, 8), range(-3, 8)):
        for orientation, (dy, dx) in FRONT_TABLE.items():
            position = Position(y, x)
            agent = Agent(position, orientation)
            agents.append((agent, Position(y + dy, x + dx)))

            front = agent.front()
            check(type(front) is Position, 'front is a Position')
            check(front == Position(y + dy, x + dx), f'front {position} {orientation}')
            check(front.yx == (y + dy, x + dx), 'front yx')
            check(type(front.y) is int and type(front.x) is int, 'front ints')
            # no effect on the agent
            check(agent.position is position, 'front replaced the position')
            check(agent.orientation is orientation, 'front turned the agent')
            # repeated calls:  equal, and never the agent's own position
            again = agent.front()
            check(again == front, 'front not repeatable')
            check(front is not agent.position, 'front aliases the position')
            if HAS_CONSTANT:
                check(
                    front is not agent_module._FRONT,
                    'front handed out the shared constant',
                )

    # all those agents are still alive:  none was disturbed by the others
    for agent, expected in agents:
        check(agent.front() == expected, 'agents interfere')

    # hard-coded corner cases on a 3x5 grid (non-square)
    area = Grid.from_shape((3, 5)).area
    table = [
        ((0, 0), Orientation.F, (-1, 0), False),
        ((0, 0), Orientation.L, (0, -1), False),
        ((0, 0), Orientation.R, (0, 1), True),
        ((0, 0), Orientation.B, (1, 0), True),
        ((2, 4), Orientation.F, (1, 4), True),
        ((2, 4), Orientation.L, (2, 3), True),
        ((2, 4), Orientation.R, (2, 5), False),
        ((2, 4), Orientation.B, (3, 4), False),
        ((0, 4), Orientation.F, (-1, 4), False),
        ((0, 4), Orientation.R, (0, 5), False),
        ((2, 0), Orientation.B, (3, 0), False),
        ((2, 0), Orientation.L, (2, -1), False),
        ((1, 2), Orientation.F, (0, 2), True),
    ]
    for yx, orientation, expected, inside in table:
        agent = Agent(Position(*yx), orientation)
        check(agent.front().yx == expected, f'corner front {yx} {orientation}')
        check(area.contains(agent.front()) is inside, f'corner inside {yx}')

    # setters:  front follows the pose
    agent = Agent(Position(2, 3), Orientation.F, Key(Color.NONE))
    check(agent.front() == Position(1, 3), 'front F')
    agent.orientation = Orientation.R
    check(agent.front() == Position(2, 4), 'front after turning R')
    agent.orientation *= Orientation.R
    check(agent.front() == Position(3, 3), 'front after turning R twice')
    agent.position = Position(0, 0)
    check(agent.front() == Position(1, 0), 'front after moving')
    agent.orientation = Orientation.L
    check(agent.front() == Position(0, -1), 'front L')
    agent.transform = Transform(Position(5, 5), Orientation.F)
    check(agent.front() == Position(4, 5), 'front after replacing transform')

    # walking forward n times == n fronts
    agent = Agent(Position(0, 0), Orientation.B)
    for n in range(1, 6):
        agent.position = agent.front()
        check(agent.position == Position(n, 0), 'walking along fronts')

    # pickled copies (this is how states are copied at every step)
    for orientation, (dy, dx) in FRONT_TABLE.items():
        agent = Agent(Position(4, 1), orientation, Key(Color.RED))
        copy = pickle.loads(pickle.dumps(agent))
        check(copy.front() == Position(4 + dy, 1 + dx), 'front of a copy')
        check(copy == agent and copy is not agent, 'copy')
        copy.position = Position(0, 0)
        check(agent.front() == Position(4 + dy, 1 + dx), 'copy disturbed original')

    if HAS_CONSTANT:
        constant = agent_module._FRONT
        check(type(constant) is Position, 'constant is a Position')
        check(constant == Position(-1, 0), 'constant value')
        check(hash(constant) == hash(Position(-1, 0)), 'constant hash')
        for attribute in ['y', 'x']:
            try:
                setattr(constant, attribute, 7)
            except dataclasses.FrozenInstanceError:
                pass
            else:
                check(False, 'shared constant is mutable')
        check(constant == Position(-1, 0), 'constant value after attempts')
        # still the same after all the work above
        check(Position.from_orientation(Orientation.F) == constant, 'lookup')


# --------------------------------------------------------------------------
# reference implementations of the functions which use the front cell
# --------------------------------------------------------------------------


def ref_pickndrop(state, action):
    if action is not Action.PICK_N_DROP:
        return
    front = front_of(state.agent)
    if not (
        0 <= front.y < state.grid.shape.height
        and 0 <= front.x < state.grid.shape.width
    ):
        return
    obj_front = state.grid.objects[front.y][front.x]
    held = state.agent.grid_object
    if not (isinstance(obj_front, Floor) or obj_front.holdable):
        return
    state.grid.objects[front.y][front.x] = (
        held if not isinstance(held, NoneGridObject) else Floor()
    )
    state.agent.grid_object = (
        obj_front if obj_front.holdable else NoneGridObject()
    )


def ref_actuate_box(state, action):
    if action is not Action.ACTUATE:
        return
    front = front_of(state.agent)
    if not (
        0 <= front.y < state.grid.shape.height
        and 0 <= front.x < state.grid.shape.width
    ):
        return
    box = state.grid.objects[front.y][front.x]
    if isinstance(box, Box):
        state.grid.objects[front.y][front.x] = box.content


def ref_actuate_door(state, action):
    if action is not Action.ACTUATE:
        return
    front = front_of(state.agent)
    if not (
        0 <= front.y < state.grid.shape.height
        and 0 <= front.x < state.grid.shape.width
    ):
        return
    door = state.grid.objects[front.y][front.x]
    if not isinstance(door, Door) or door.is_open:
        return
    held = state.agent.grid_object
    if not door.is_locked or (
        isinstance(held, Key) and held.color == door.color
    ):
        door.state = Door.Status.OPEN


def full_layout(state):
    """position -> (signature, status), the agent and the held item"""
    return (
        {
            p: (signature(state.grid[p]), state.grid[p].state_index)
            for p in state.grid.area.positions()
        },
        state.agent.position,
        state.agent.orientation,
        signature(state.agent.grid_object),
    )


def check_front_users_reference():
    pairs = [
        (tfs.pickndrop, ref_pickndrop),
        (tfs.actuate_box, ref_actuate_box),
        (tfs.actuate_door, ref_actuate_door),
    ]
    rng_states = rnd.default_rng(777)
    for shape in SHAPES:
        for trial in range(30):
            before = random_state(rng_states, shape)
            for orientation in Orientation:
                before.agent.orientation = orientation
                for action in Action:
                    for function, reference in pairs:
                        expected = clone(before)
                        reference(expected, action)
                        actual = clone(before)
                        function(actual, action, rng=rnd.default_rng(0))
                        check(
                            full_layout(actual) == full_layout(expected),
                            f'{function.__name__} differs from reference: '
                            f'{shape} {action} {orientation}',
                        )

                        # by identity:  same state, reference then restore
                        state = clone(before)
                        snapshot = [list(row) for row in state.grid.objects]
                        held = state.agent.grid_object
                        doors = {
                            id(obj): obj.state
                            for row in snapshot
                            for obj in row
                            if isinstance(obj, Door)
                        }
                        reference(state, action)
                        moved = [list(row) for row in state.grid.objects]
                        moved_held = state.agent.grid_object
                        for y, row in enumerate(snapshot):
                            state.grid.objects[y][:] = row
                            for obj in row:
                                if isinstance(obj, Door):
                                    obj.state = doors[id(obj)]
                        state.agent.grid_object = held
                        function(state, action)
                        for y, row in enumerate(moved):
                            for x, obj in enumerate(row):
                                now = state.grid.objects[y][x]
                                check(
                                    now is obj
                                    or (
                                        isinstance(now, Floor)
                                        and isinstance(obj, Floor)
                                    ),
                                    f'{function.__name__}: other objects than '
                                    f'the reference at {(y, x)}',
                                )
                        check(
                            state.agent.grid_object is moved_held
                            or (
                                isinstance(moved_held, NoneGridObject)
                                and isinstance(
                                    state.agent.grid_object, NoneGridObject
                                )
                            ),
                            f'{function.__name__}: other held object',
                        )


# --------------------------------------------------------------------------
# checks
# --------------------------------------------------------------------------


def check_move_obstacles_reference():
    rng_states = rnd.default_rng(1234)
    for shape in SHAPES:
        for trial in range(25):
            dense = trial % 5 == 4
            before = random_state(rng_states, shape, dense=dense)
            for seed in [0, trial + 1]:
                expected = clone(before)
                rng_expected = rnd.default_rng(seed)
                ref_move_obstacles(expected, Action.MOVE_FORWARD, rng=rng_expected)

                actual = clone(before)
                rng_actual = rnd.default_rng(seed)
                for action in [Action.ACTUATE]:
                    tfs.move_obstacles(actual, action, rng=rng_actual)

                check(
                    layout(actual) == layout(expected),
                    f'move_obstacles differs from reference {shape} {seed}',
                )
                check(actual.agent == expected.agent, 'move_obstacles agent')
                check(
                    rng_state(rng_actual) == rng_state(rng_expected),
                    'move_obstacles consumed the rng differently',
                )

            # identity: the very same objects are moved, in the same way
            expected = clone(before)
            actual = expected  # same objects; run sequentially via snapshots
            snapshot = {p: expected.grid[p] for p in expected.grid.area.positions()}
            ref_move_obstacles(expected, Action.ACTUATE, rng=rnd.default_rng(7))
            moved_ref = {p: expected.grid[p] for p in expected.grid.area.positions()}
            # restore
            for p, obj in snapshot.items():
                actual.grid[p] = obj
            tfs.move_obstacles(actual, Action.ACTUATE, rng=rnd.default_rng(7))
            check(
                all(actual.grid[p] is moved_ref[p] for p in moved_ref),
                'move_obstacles moves other objects than the reference',
            )

    # library-level rng (rng=None) and re-seeding
    before = random_state(rnd.default_rng(5), (4, 6), dense=False)
    before.grid[1, 1] = MovingObstacle()
    before.grid[1, 2] = Floor()
    runs = []
    for _ in range(2):
        reset_gv_rng(99)
        state = clone(before)
        for _ in range(10):
            tfs.move_obstacles(state, Action.MOVE_LEFT)
        runs.append(layout(state))
    expected = clone(before)
    rng = rnd.default_rng(99)
    for _ in range(10):
        ref_move_obstacles(expected, Action.MOVE_LEFT, rng=rng)
    check(runs[0] == runs[1] == layout(expected), 'library rng / re-seeding')


def check_obstacle_hand_made():
    """hard-coded small cases"""
    # a single obstacle in a 1x1 grid, in corners, surrounded by scenery
    state = State(Grid([[MovingObstacle()]]), Agent(Position(0, 0), Orientation.F))
    rng = rnd.default_rng(0)
    mark = rng_state(rng)
    tfs.move_obstacles(state, Action.MOVE_FORWARD, rng=rng)
    check(isinstance(state.grid[0, 0], MovingObstacle), '1x1 obstacle')
    check(rng_state(rng) == mark, '1x1: rng untouched')

    # 1x2: it must move to the only floor
    obstacle, floor = MovingObstacle(), Floor()
    state = State(Grid([[obstacle, floor]]), Agent(Position(0, 0), Orientation.F))
    tfs.move_obstacles(state, Action.MOVE_FORWARD, rng=rnd.default_rng(0))
    check(state.grid[0, 1] is obstacle and state.grid[0, 0] is floor, '1x2')

    # 2x1
    obstacle, floor = MovingObstacle(), Floor()
    state = State(
        Grid([[floor], [obstacle]]), Agent(Position(0, 0), Orientation.B)
    )
    tfs.move_obstacles(state, Action.MOVE_FORWARD, rng=rnd.default_rng(0))
    check(state.grid[0, 0] is obstacle and state.grid[1, 0] is floor, '2x1')

    # corner obstacle enclosed by scenery / keys / other obstacles:  stuck, and
    # in particular it never wraps around to the opposite border
    for corner in [(0, 0), (0, 3), (2, 0), (2, 3)]:
        grid = Grid.from_shape((3, 4))  # all floor
        y, x = corner
        grid[y, x] = MovingObstacle()
        neighbours = [
            (y + dy, x + dx)
            for dy, dx in [(-1, 0), (0, 1), (1, 0), (0, -1)]
            if 0 <= y + dy < 3 and 0 <= x + dx < 4
        ]
        blockers = [Wall(), Key(Color.NONE)]
        for neighbour, blocker in zip(neighbours, blockers):
            grid[neighbour] = blocker
        state = State(grid, Agent(Position(1, 1), Orientation.L))
        before = ids(state)
        for seed in range(20):
            tfs.move_obstacles(state, Action.TURN_LEFT, rng=rnd.default_rng(seed))
        check(ids(state) == before, f'enclosed corner obstacle {corner} moved')

    # corner obstacle on an otherwise empty grid only reaches its 2 neighbours
    for corner in [(0, 0), (0, 3), (2, 0), (2, 3)]:
        reached = set()
        for seed in range(40):
            grid = Grid.from_shape((3, 4))
            grid[corner] = MovingObstacle()
            state = State(grid, Agent(Position(1, 1), Orientation.L))
            tfs.move_obstacles(state, Action.TURN_LEFT, rng=rnd.default_rng(seed))
            (where,) = [
                p
                for p in grid.area.positions()
                if isinstance(grid[p], MovingObstacle)
            ]
            reached.add(where.yx)
        y, x = corner
        expected = {
            (y + dy, x + dx)
            for dy, dx in [(-1, 0), (0, 1), (1, 0), (0, -1)]
            if 0 <= y + dy < 3 and 0 <= x + dx < 4
        }
        check(reached == expected, f'corner obstacle {corner} reached {reached}')

    # hard-coded trajectory (pinned on the pristine tree)
    grid = Grid.from_shape((3, 5))
    grid[1, 2] = MovingObstacle()
    grid[0, 0] = MovingObstacle()
    grid[2, 4] = Wall()
    state = State(grid, Agent(Position(2, 0), Orientation.R))
    rng = rnd.default_rng(2021)
    trajectory = []
    for _ in range(6):
        tfs.move_obstacles(state, Action.MOVE_FORWARD, rng=rng)
        trajectory.append(
            sorted(
                p.yx
                for p in grid.area.positions()
                if isinstance(grid[p], MovingObstacle)
            )
        )
    ref_grid = Grid.from_shape((3, 5))
    ref_grid[1, 2] = MovingObstacle()
    ref_grid[0, 0] = MovingObstacle()
    ref_grid[2, 4] = Wall()
    ref_state = State(ref_grid, Agent(Position(2, 0), Orientation.R))
    ref_rng = rnd.default_rng(2021)
    ref_trajectory = []
    for _ in range(6):
        ref_move_obstacles(ref_state, Action.MOVE_FORWARD, rng=ref_rng)
        ref_trajectory.append(
            sorted(
                p.yx
                for p in ref_grid.area.positions()
                if isinstance(ref_grid[p], MovingObstacle)
            )
        )
    check(trajectory == ref_trajectory, 'pinned trajectory')
    check(isinstance(grid[2, 4], Wall), 'pinned trajectory: wall')


def check_conservation_random():
    fs = transition_functions()
    rng_states = rnd.default_rng(4321)
    alternate = itt.cycle([0, 0, 1])  # explicit rng, explicit rng, library rng
    for shape in SHAPES:
        for trial in range(5):
            before = random_state(rng_states, shape, dense=(trial == 4))
            for orientation in Orientation:
                before.agent.orientation = orientation
                for action in Action:
                    for name, function in fs.items():
                        for seed in [[3, None][next(alternate)]]:
                            if seed is None:
                                reset_gv_rng(trial)
                                rng = None
                            else:
                                rng = rnd.default_rng(seed + trial)
                            check_step(
                                before,
                                action,
                                function,
                                rng,
                                f'{name} {shape} {action} {orientation}',
                            )


def check_histories():
    keydoor_chain = tag(
        wrap(
            partial(
                tfs.chain,
                transition_functions=[
                    tfs.move_agent,
                    tfs.turn_agent,
                    tfs.actuate_door,
                    tfs.pickndrop,
                ],
            )
        ),
        moves_agent=True,
        has_pickndrop=True,
        is_composite=True,
    )
    obstacles_chain = tag(
        wrap(
            partial(
                tfs.chain,
                transition_functions=[
                    tfs.move_agent,
                    tfs.turn_agent,
                    tfs.move_obstacles,
                ],
            )
        ),
        moves_agent=True,
        has_obstacles=True,
        is_composite=True,
    )

    actions = list(Action)
    environments = []
    for shape in [(5, 5), (7, 7), (9, 9), (4, 7), (9, 5), (4, 6)]:
        environments.append(
            (
                f'keydoor {shape}',
                partial(reset_fs.keydoor, Shape(*shape)),
                keydoor_chain,
            )
        )
    for shape, num_obstacles, random_agent in [
        ((5, 5), 1, False),
        ((7, 7), 4, False),
        ((4, 8), 6, True),
        ((8, 4), 1, True),
        ((4, 4), 0, False),
        ((4, 4), 2, False),
        ((5, 4), 4, True),
    ]:
        environments.append(
            (
                f'dynamic_obstacles {shape} {num_obstacles}',
                partial(
                    reset_fs.dynamic_obstacles,
                    Shape(*shape),
                    num_obstacles,
                    random_agent,
                ),
                obstacles_chain,
            )
        )

    def history(reset, function, seed, length, label):
        rng = rnd.default_rng(seed)
        rng_actions = rnd.default_rng(seed + 1000)
        state = reset(rng=rng)
        start = inventory(state)
        trace = [layout(state)]
        for t in range(length):
            action = actions[rng_actions.choice(len(actions))]
            # check_step runs on a copy, with a copy of the rng
            state = check_step(
                state, action, function, rng, f'{label} seed={seed} t={t}'
            )
            check(inventory(state) == start, f'{label}: inventory over history')
            trace.append((layout(state), state.agent.position, state.agent.orientation, signature(state.agent.grid_object)))
        return trace

    for label, reset, function in environments:
        for seed in range(6):
            first = history(reset, function, seed, 60, label)
            again = history(reset, function, seed, 60, label)
            check(first == again, f'{label}: re-seeding reproduces the history')

    # two environments interleaved in one process behave as when run alone
    (label_a, reset_a, function_a) = environments[1]
    (label_b, reset_b, function_b) = environments[7]
    check('keydoor' in label_a and 'dynamic' in label_b, 'interleaved labels')
    alone_a = history(reset_a, function_a, 11, 30, label_a)
    alone_b = history(reset_b, function_b, 12, 30, label_b)
    rng_a, rng_b = rnd.default_rng(11), rnd.default_rng(12)
    rng_actions_a, rng_actions_b = rnd.default_rng(1011), rnd.default_rng(1012)
    state_a, state_b = reset_a(rng=rng_a), reset_b(rng=rng_b)
    for t in range(30):
        action = actions[rng_actions_a.choice(len(actions))]
        state_a = tfs.transition_with_copy(function_a, state_a, action, rng=rng_a)
        action = actions[rng_actions_b.choice(len(actions))]
        state_b = tfs.transition_with_copy(function_b, state_b, action, rng=rng_b)
        check(layout(state_a) == alone_a[t + 1][0], 'interleaved a')
        check(layout(state_b) == alone_b[t + 1][0], 'interleaved b')


def main():
    check_front()
    check_front_users_reference()
    check_move_obstacles_reference()
    check_obstacle_hand_made()
    check_conservation_random()
    check_histories()
    print(
        f'OK: {CHECKS["total"]} checks passed '
        f'(shared constant {"present" if HAS_CONSTANT else "absent"})'
    )


if __name__ == '__main__':
    main()
