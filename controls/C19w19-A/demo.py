"""Demo for change A (FunctionRegistry.get_nonprotocol_keys used by the
visibility / observation factories).

Runs on the pristine tree and with the patch applied;  exits 0 on both.

Checks

1. property C19 on the ray functions themselves (origin, inside the area,
   no repeats, adjacent steps, ends on the border, the fan reaches every cell,
   determinism and independence from the cache and from the order of queries),
   against a reference ray tracer embedded here;
2. that the ray-tracing visibility functions obtained *through the factories*
   (which is where the keys of the keyword arguments are sorted into required /
   optional / ignored) compute the reference visibility, for every origin of
   non-square grids, with and without obstacles, for every spelling of the
   keyword arguments, repeatedly and interleaved;  an unobstructed ray-traced
   view shows everything;
3. which keyword arguments the factories require, accept and ignore, with
   hard-coded expectations (including the message naming the *first* missing
   one), for the registered functions and for a registry defined here with
   awkward signatures (no extra parameters, positional extras, var-keyword);
4. that building factories does not touch the registries or the kwargs;
5. if the new helper exists, that it equals the two comprehensions it replaces
   on every function of every registry, returns fresh lists and is repeatable.
"""
import itertools as itt
import math
import os
import sys

sys.path.insert(0, os.getcwd())  # the worktree root, not the demo's folder

import numpy as np  # noqa: E402

import inspect  # noqa: E402

import numpy.random as rnd  # noqa: E402

from gym_gridverse.agent import Agent
from gym_gridverse.envs import observation_functions as obs_fs
from gym_gridverse.envs import reset_functions as reset_fs
from gym_gridverse.envs import reward_functions as reward_fs
from gym_gridverse.envs import terminating_functions as term_fs
from gym_gridverse.envs import transition_functions as trans_fs
from gym_gridverse.envs import visibility_functions as vis_fs
from gym_gridverse.geometry import Area, Orientation, Position
from gym_gridverse.grid import Grid
from gym_gridverse.grid_object import (
    Beacon,
    Color,
    Exit,
    Floor,
    Hidden,
    Key,
    MovingObstacle,
    NoneGridObject,
    Telepod,
    Wall,
)
from gym_gridverse.state import State
from gym_gridverse.utils import raytracing
from gym_gridverse.utils.registry import FunctionRegistry

failures = []


def check(condition, message):
    if not condition:
        failures.append(message)
        if len(failures) <= 20:
            print('FAIL:', message)


# ---------------------------------------------------------------- references


def ref_ray(origin, ys, xs, radians, step_size=0.01):
    """reference ray tracer on plain tuples;  ys, xs are inclusive bounds"""
    y0, x0 = float(origin[0]), float(origin[1])
    dy = step_size * math.sin(radians)
    dx = step_size * math.cos(radians)
    cells = []
    seen = set()
    i = 0
    while True:
        cell = (round(y0 + i * dy), round(x0 + i * dx))
        if not (ys[0] <= cell[0] <= ys[1] and xs[0] <= cell[1] <= xs[1]):
            break
        if cell not in seen:
            seen.add(cell)
            cells.append(cell)
        i += 1
    return cells


def ref_fancy_radians(origin, ys, xs):
    height = ys[1] - ys[0] + 1
    width = xs[1] - xs[0] + 1
    cys = np.linspace(ys[0], ys[1] + 1, num=height + 1) - 0.5 - origin[0]
    cxs = np.linspace(xs[0], xs[1] + 1, num=width + 1) - 0.5 - origin[1]
    yys, xxs = np.meshgrid(cys, cxs)
    return np.sort(np.arctan2(yys, xxs), axis=None)


_ref_fancy_memo = {}


def ref_rays_fancy(origin, ys, xs):
    key = origin, ys, xs
    if key not in _ref_fancy_memo:
        _ref_fancy_memo[key] = [
            ref_ray(origin, ys, xs, rad)
            for rad in ref_fancy_radians(origin, ys, xs)
        ]
    return _ref_fancy_memo[key]


def as_tuples(rays):
    return [[(p.y, p.x) for p in ray] for ray in rays]


def ref_rotate(orientation, y, x):
    """agent-relative offset -> grid offset, written out by hand"""
    if orientation is Orientation.F:
        return y, x
    if orientation is Orientation.B:
        return -y, -x
    if orientation is Orientation.R:
        return x, -y
    if orientation is Orientation.L:
        return -x, y
    raise AssertionError


# --------------------------------------------------- 1. the rays themselves


def check_ray_property(rays, origin, ys, xs, label):
    cells_all = {
        (y, x)
        for y in range(ys[0], ys[1] + 1)
        for x in range(xs[0], xs[1] + 1)
    }
    reached = set()
    for k, ray in enumerate(rays):
        tag = f'{label} ray {k}'
        check(len(ray) > 0 and ray[0] == origin, f'{tag}: does not start at origin')
        check(all(c in cells_all for c in ray), f'{tag}: leaves the area')
        check(len(set(ray)) == len(ray), f'{tag}: repeats a cell')
        check(
            all(
                max(abs(a[0] - b[0]), abs(a[1] - b[1])) == 1
                for a, b in zip(ray, ray[1:])
            ),
            f'{tag}: non-adjacent step',
        )
        last = ray[-1]
        check(
            last[0] in ys or last[1] in xs,
            f'{tag}: does not end on the border',
        )
        reached.update(ray)
    check(reached == cells_all, f'{label}: fan does not reach every cell')


RAY_AREAS = [
    ((0, 0), (0, 0)),
    ((0, 0), (0, 4)),
    ((0, 5), (0, 0)),
    ((0, 1), (0, 2)),
    ((0, 2), (0, 1)),
    ((0, 6), (0, 6)),
    ((0, 6), (0, 4)),
    ((0, 3), (0, 8)),
    ((-2, 3), (-1, 1)),
    ((3, 5), (-7, -4)),
]


def section_rays():
    queries = []
    for ys, xs in RAY_AREAS:
        area = Area(ys, xs)
        for y in range(ys[0], ys[1] + 1):
            for x in range(xs[0], xs[1] + 1):
                queries.append((area, (y, x)))

    first_answers = {}
    for area, origin in queries:
        position = Position(*origin)
        label = f'fancy area={area.ys, area.xs} origin={origin}'
        rays = as_tuples(raytracing.compute_rays_fancy(position, area))
        check_ray_property(rays, origin, area.ys, area.xs, label)
        check(
            rays == ref_rays_fancy(origin, area.ys, area.xs),
            f'{label}: differs from reference',
        )
        first_answers[area, origin] = rays

    # cache: any order of earlier queries, repeated queries, equal-but-distinct keys
    for area, origin in itt.chain(reversed(queries), queries[::3], queries[::-7]):
        area_again = Area(tuple(area.ys), tuple(area.xs))
        rays = as_tuples(
            raytracing.cached_compute_rays_fancy(Position(*origin), area_again)
        )
        check(
            rays == first_answers[area, origin],
            f'cached fancy area={area.ys, area.xs} origin={origin}: differs',
        )

    # 1-degree fan on a few areas
    for ys, xs in [((0, 0), (0, 0)), ((0, 2), (0, 4)), ((0, 4), (0, 3)), ((-2, 3), (-1, 1))]:
        area = Area(ys, xs)
        for y in range(ys[0], ys[1] + 1):
            for x in range(xs[0], xs[1] + 1):
                label = f'degrees area={ys, xs} origin={(y, x)}'
                rays = as_tuples(raytracing.compute_rays(Position(y, x), area))
                check(len(rays) == 360, f'{label}: not 360 rays')
                check_ray_property(rays, (y, x), ys, xs, label)
                expected = [
                    ref_ray((y, x), ys, xs, deg * (math.pi / 180.0))
                    for deg in range(360)
                ]
                check(rays == expected, f'{label}: differs from reference')
                cached = as_tuples(
                    raytracing.cached_compute_rays(Position(y, x), area)
                )
                check(cached == rays, f'{label}: cached differs')

    # origins outside the area are rejected
    for area, position in [
        (Area((0, 2), (0, 2)), Position(3, 0)),
        (Area((0, 2), (0, 2)), Position(0, -1)),
        (Area((-2, -1), (0, 2)), Position(0, 0)),
    ]:
        for f in (
            raytracing.compute_rays,
            raytracing.compute_rays_fancy,
            raytracing.cached_compute_rays_fancy,
        ):
            try:
                f(position, area)
            except ValueError:
                pass
            else:
                check(False, f'{f} accepted origin {position} outside {area}')


# ------------------------------------- 2. ray-traced visibility via factories

GRIDS = [
    (1, 1, ()),
    (1, 5, ((0, 3),)),
    (4, 1, ()),
    (3, 5, ()),
    (3, 5, ((1, 1), (1, 3))),
    (6, 4, ((2, 1), (2, 2), (4, 3))),
    (5, 5, ((1, 1), (1, 2), (1, 3), (2, 1), (2, 3), (3, 1), (3, 2), (3, 3))),
]


def make_grid(height, width, walls=()):
    grid = Grid.from_shape((height, width))
    for k, (y, x) in enumerate(itt.product(range(height), range(width))):
        grid[Position(y, x)] = [Floor(), Key(Color.NONE), Beacon(Color.RED), Exit()][
            k % 4
        ]
    for y, x in walls:
        grid[Position(y, x)] = Wall()
    return grid


def ref_counts(height, width, walls, origin):
    """reference counts of lit / all ray crossings per cell"""
    num = np.zeros((height, width), dtype=int)
    den = np.zeros((height, width), dtype=int)
    for ray in ref_rays_fancy(origin, (0, height - 1), (0, width - 1)):
        light = True
        for cell in ray:
            num[cell] += int(light)
            den[cell] += 1
            light = light and cell not in walls
    return num, den


def section_visibility():
    # every spelling must give the function its own parameters, and no others
    spellings = {
        'default': ({}, True, 1),
        'explicit': ({'absolute_counts': True, 'threshold': 1}, True, 1),
        'threshold only': ({'threshold': 3}, True, 3),
        'relative': ({'absolute_counts': False, 'threshold': 0.5}, False, 0.5),
        'relative, reversed': ({'threshold': 1.0, 'absolute_counts': False}, False, 1.0),
        'with ignored extras': (
            {'area': None, 'threshold': 2, 'grid_shape': (3, 3), 'colour': 'x'},
            True,
            2,
        ),
    }

    functions = {}
    for name, (kwargs, absolute, threshold) in spellings.items():
        kwargs_before = dict(kwargs)
        functions[name] = vis_fs.factory('raytracing', **kwargs), absolute, threshold
        check(kwargs == kwargs_before, f'factory mutated kwargs ({name})')
        check(
            set(functions[name][0].keywords)
            == set(kwargs) & {'absolute_counts', 'threshold'},
            f'raytracing ({name}): bound {functions[name][0].keywords}',
        )

    stochastic = vis_fs.factory('stochastic_raytracing', threshold=1, foo=2)
    check(stochastic.keywords == {}, 'stochastic_raytracing: bound kwargs')
    transparent = vis_fs.factory('fully_transparent', absolute_counts=False)
    check(transparent.keywords == {}, 'fully_transparent: bound kwargs')

    for repeat in range(2):
        for height, width, walls in GRIDS:
            grid = make_grid(height, width, walls)
            for origin in itt.product(range(height), range(width)):
                position = Position(*origin)
                num, den = ref_counts(height, width, set(walls), origin)
                label = f'grid={height}x{width} walls={walls} origin={origin}'

                check((den > 0).all(), f'{label}: a cell is on no ray')
                if not walls:
                    check((num == den).all(), f'{label}: reference not fully lit')

                for name, (function, absolute, threshold) in functions.items():
                    expected = (
                        num >= threshold if absolute else num / den >= threshold
                    )
                    visibility = function(grid, position)
                    check(
                        visibility.dtype == bool
                        and visibility.shape == (height, width)
                        and (visibility == expected).all(),
                        f'{label} raytracing ({name}) #{repeat}: differs',
                    )
                    direct = vis_fs.raytracing(
                        grid,
                        position,
                        absolute_counts=absolute,
                        threshold=threshold,
                    )
                    check(
                        (visibility == direct).all(),
                        f'{label} raytracing ({name}): factory != direct call',
                    )

                default = functions['default'][0](grid, position)
                check(default[origin], f'{label}: origin not visible')
                if not walls:
                    check(default.all(), f'{label}: unobstructed view incomplete')

                # stochastic: cells lit on every ray always show, never-lit never
                shown = stochastic(grid, position, rng=rnd.default_rng(height + width))
                check(shown[num == den].all(), f'{label} stochastic: sure cell hidden')
                check(not shown[num == 0].any(), f'{label} stochastic: unlit cell shown')
                again = stochastic(grid, position, rng=rnd.default_rng(height + width))
                check((shown == again).all(), f'{label} stochastic: not reproducible')

                check(
                    transparent(grid, position).all(),
                    f'{label}: fully_transparent hides',
                )


# ------------------------------------------ the same, through observations


def section_observations():
    area = Area((-3, 0), (-2, 1))  # asymmetric 4x4
    raytracing_vis = vis_fs.factory('raytracing', threshold=1, unused='x')

    spellings = {
        'raytracing': obs_fs.factory('raytracing', area=area),
        'raytracing with extras': obs_fs.factory(
            'raytracing', area=area, visibility_function=None, shape=(1, 1)
        ),
        'from_visibility': obs_fs.factory(
            'from_visibility', visibility_function=raytracing_vis, area=area
        ),
    }
    check(
        list(spellings['raytracing with extras'].keywords) == ['area'],
        'observation raytracing: extras were bound',
    )
    check(
        list(spellings['from_visibility'].keywords)
        == ['visibility_function', 'area'],
        'observation from_visibility: bound keys or their order changed',
    )

    for height, width in [(9, 12), (10, 9)]:
        for yx, orientation in itt.product(
            [(4, 4), (5, 3)],
            [Orientation.F, Orientation.B, Orientation.L, Orientation.R],
        ):
            grid = make_grid(height, width)
            state = State(grid, Agent(Position(*yx), orientation, Key(Color.NONE)))
            observations = {
                name: function(state) for name, function in spellings.items()
            }
            direct = obs_fs.raytracing(state, area=area)
            for name, observation in observations.items():
                label = f'{height}x{width} {yx} {orientation.name} via {name}'
                check(observation == direct, f'{label}: differs from direct call')
                check(
                    observation.grid.shape.as_tuple == (4, 4)
                    and observation.agent.position == Position(3, 2),
                    f'{label}: wrong frame',
                )
                check(
                    not any(
                        isinstance(observation.grid[pos], Hidden)
                        for pos in observation.grid.area.positions()
                    ),
                    f'{label}: unobstructed view hides cells',
                )


# ----------------------------------------- 3. required / optional / ignored


def expect_missing(factory, name, kwargs, key):
    try:
        factory(name, **kwargs)
    except ValueError as error:
        check(
            str(error) == f'missing keyword argument `{key}`',
            f'{name} {sorted(kwargs)}: message {error}',
        )
    else:
        check(False, f'{name} {sorted(kwargs)}: accepted without `{key}`')


class DemoRegistry(FunctionRegistry):
    """(x, *, rng) protocol, like the registries of the library"""

    def get_protocol_parameters(self, signature):
        parameters = list(signature.parameters.values())
        return [parameters[0], signature.parameters['rng']]

    def check_signature(self, function):
        self.get_protocol_parameters(inspect.signature(function))


def ref_keys(registry, function):
    """the two comprehensions of the factories, spelled out once more"""
    signature = inspect.signature(function)
    protocol = registry.get_protocol_parameters(signature)
    required, optional = [], []
    for parameter in signature.parameters.values():
        if any(parameter == p for p in protocol):
            continue
        if parameter.default is inspect.Parameter.empty:
            required.append(parameter.name)
        else:
            optional.append(parameter.name)
    return required, optional


def section_keys():
    # hard-coded expectations for the functions on the ray-tracing path
    vis = vis_fs.visibility_function_registry
    obs = obs_fs.observation_function_registry
    expected = [
        (vis, 'fully_transparent', [], []),
        (vis, 'partially_occluded', [], []),
        (vis, 'raytracing', [], ['absolute_counts', 'threshold']),
        (vis, 'stochastic_raytracing', [], []),
        (obs, 'from_visibility', ['area', 'visibility_function'], []),
        (obs, 'fully_transparent', ['area'], []),
        (obs, 'partially_occluded', ['area'], []),
        (obs, 'raytracing', ['area'], []),
        (obs, 'stochastic_raytracing', ['area'], []),
    ]
    for registry, name, required, optional in expected:
        check(
            ref_keys(registry, registry[name]) == (required, optional),
            f'{name}: signature changed, {ref_keys(registry, registry[name])}',
        )

    expect_missing(obs_fs.factory, 'raytracing', {}, 'area')
    expect_missing(obs_fs.factory, 'raytracing', {'rng': None, 'state': None}, 'area')
    expect_missing(obs_fs.factory, 'from_visibility', {}, 'area')
    expect_missing(
        obs_fs.factory, 'from_visibility', {'area': Area((0, 0), (0, 0))},
        'visibility_function',
    )
    expect_missing(
        obs_fs.factory, 'from_visibility', {'visibility_function': None}, 'area'
    )
    for factory, name in [(vis_fs.factory, 'nope'), (obs_fs.factory, 'nope')]:
        try:
            factory(name, area=None)
        except ValueError as error:
            check('invalid' in str(error), f'{name}: message {error}')
        else:
            check(False, 'unknown name accepted')

    # protocol keywords are never bound, even when given
    function = vis_fs.factory('raytracing', rng=1, grid=2, position=3, threshold=4)
    check(function.keywords == {'threshold': 4}, 'protocol keywords were bound')

    # a registry with awkward signatures
    registry = DemoRegistry()

    @registry.register
    def bare(x, *, rng=None):
        return ()

    @registry.register
    def positional_extras(x, a, b=2, *, rng=None, c, d=4):
        return a, b, c, d

    @registry.register
    def var_keyword(x, rng=None, **options):
        return options

    @registry.register
    def only_optional(x, *, rng=None, e=(), f=None):
        return e, f

    def same_as_protocol(x, y, *, rng=None):
        return y

    registry.register(same_as_protocol, name='renamed')

    awkward = {
        'bare': ([], []),
        'positional_extras': (['a', 'c'], ['b', 'd']),
        'var_keyword': (['options'], []),
        'only_optional': ([], ['e', 'f']),
        'renamed': (['y'], []),
    }
    for name, keys in awkward.items():
        check(ref_keys(registry, registry[name]) == keys, f'demo registry {name}')

    return [
        vis,
        obs,
        registry,
        reset_fs.reset_function_registry,
        reward_fs.reward_function_registry,
        term_fs.terminating_function_registry,
        trans_fs.transition_function_registry,
    ]


# ----------------------------------------------------- 5. helper, if present


def section_helper(registries):
    if not hasattr(FunctionRegistry, 'get_nonprotocol_keys'):
        print('(FunctionRegistry.get_nonprotocol_keys absent: pristine tree)')
        return

    count = 0
    for registry in registries:
        names_before = list(registry)
        for name, function in registry.items():
            signature = inspect.signature(function)
            expected = ref_keys(registry, function)
            keys = registry.get_nonprotocol_keys(signature)
            check(type(keys) is tuple and len(keys) == 2, f'{name}: not a pair')
            check(
                all(type(k) is list for k in keys), f'{name}: not lists'
            )
            check(tuple(keys) == expected, f'{name}: {keys} != {expected}')

            # the comprehensions it replaces, literally
            nonprotocol = registry.get_nonprotocol_parameters(signature)
            check(
                keys[0]
                == [
                    p.name
                    for p in nonprotocol
                    if p.default is inspect.Parameter.empty
                ]
                and keys[1]
                == [
                    p.name
                    for p in nonprotocol
                    if p.default is not inspect.Parameter.empty
                ],
                f'{name}: differs from the comprehensions',
            )

            # fresh lists: a caller may edit them
            keys[0].append('junk')
            keys[1].clear()
            check(
                tuple(registry.get_nonprotocol_keys(signature)) == expected,
                f'{name}: result is shared between calls',
            )
            count += 1
        check(list(registry) == names_before, 'registry changed')
    print(f'helper checked on {count} registered functions')


def main():
    section_rays()
    section_visibility()
    section_observations()
    registries = section_keys()
    section_helper(registries)

    if failures:
        print(f'{len(failures)} check(s) failed')
        return 1

    print('all checks passed')
    return 0


if __name__ == '__main__':
    sys.exit(main())
