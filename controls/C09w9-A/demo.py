"""Demo for change A (pickndrop: simplified exchange of held / front object).

Runs identically on the pristine tree and with the patch applied: it compares
the library `pickndrop` with a reference implementation embedded below (a
verbatim copy of the pristine code), checks hard-coded expectations per case,
and checks object conservation (C09) for single steps of every built-in
transition function and along histories of key-door and obstacle environments.

Run from the worktree root:  /venv/bin/python _seed/A/demo.py
"""
import itertools
import os
import sys
import warnings
from collections import Counter

warnings.filterwarnings('ignore')
sys.path.insert(0, os.getcwd())

import numpy.random as rnd  # noqa: E402

from gym_gridverse.action import Action  # noqa: E402
from gym_gridverse.agent import Agent  # noqa: E402
from gym_gridverse.envs import reset_functions  # noqa: E402
from gym_gridverse.envs import transition_functions as tf  # noqa: E402
from gym_gridverse.geometry import Orientation, Position, Shape  # noqa: E402
from gym_gridverse.grid import Grid  # noqa: E402
from gym_gridverse.grid_object import (  # noqa: E402
    Beacon,
    Box,
    Color,
    Door,
    Exit,
    Floor,
    GridObject,
    Key,
    MovingObstacle,
    NoneGridObject,
    Telepod,
    Wall,
)
from gym_gridverse.state import State  # noqa: E402
from gym_gridverse.utils.fast_copy import fast_copy  # noqa: E402


# --------------------------------------------------------------------------
# extra object kinds, to exercise the generic (holdable / Floor) conditions


class Coin(GridObject):
    """a second holdable kind, with colour NONE"""

    state_index = 0
    color = Color.NONE
    blocks_movement = False
    blocks_vision = False
    holdable = True

    @classmethod
    def can_be_represented_in_state(cls):
        return True

    @classmethod
    def num_states(cls):
        return 1

    def __repr__(self):
        return 'Coin()'


class Carpet(Floor):
    """a non-holdable kind of floor (isinstance(..., Floor) is True)"""

    def __repr__(self):
        return 'Carpet()'


# --------------------------------------------------------------------------
# reference implementation: verbatim copy of the pristine `pickndrop`


def ref_pickndrop(state, action, *, rng=None):
    if action is not Action.PICK_N_DROP:
        return

    position_front = state.agent.front()

    if not state.grid.area.contains(position_front):
        return

    obj_front = state.grid[position_front]
    can_be_dropped = isinstance(obj_front, Floor) or obj_front.holdable

    if not can_be_dropped:
        return

    state.grid[position_front] = (
        state.agent.grid_object
        if not isinstance(state.agent.grid_object, NoneGridObject)
        and can_be_dropped
        else Floor()  # We know we are picking up if not dropping
    )

    state.agent.grid_object = (
        obj_front if obj_front.holdable else NoneGridObject()
    )


# --------------------------------------------------------------------------
# snapshots and conservation signatures


def describe(obj):
    """full structural description of a grid-object"""
    d = (type(obj).__name__, obj.state_index, obj.color.name)
    if isinstance(obj, Box):
        d += (describe(obj.content),)
    return d


def snapshot(state):
    return (
        tuple(
            tuple(describe(obj) for obj in row) for row in state.grid.objects
        ),
        state.agent.position.yx,
        state.agent.orientation.name,
        describe(state.agent.grid_object),
    )


def kind(obj):
    """what must be conserved about an object: its type and colour (and, for
    boxes, the content)"""
    k = (type(obj).__name__, obj.color.name)
    if isinstance(obj, Box):
        k += (kind(obj.content),)
    return k


def is_nothing(obj):
    return isinstance(obj, (Floor, NoneGridObject))


def multiset(state):
    """non-floor objects on the grid together with the held item"""
    objs = [obj for row in state.grid.objects for obj in row]
    objs.append(state.agent.grid_object)
    return Counter(kind(obj) for obj in objs if not is_nothing(obj))


def scenery(state):
    """positions of everything which can never move"""
    return {
        (y, x): kind(obj)
        for y, row in enumerate(state.grid.objects)
        for x, obj in enumerate(row)
        if isinstance(obj, (Wall, Door, Exit, Telepod, Beacon))
    }


def check(condition, *context):
    if not condition:
        print('FAILED', *context)
        sys.exit(1)


# --------------------------------------------------------------------------
# part 1: exhaustive single steps of pickndrop

FRONT_FACTORIES = [
    Floor,
    Carpet,
    Wall,
    Exit,
    lambda: Exit(Color.GREEN),
    lambda: Door(Door.Status.OPEN, Color.RED),
    lambda: Door(Door.Status.CLOSED, Color.NONE),
    lambda: Door(Door.Status.LOCKED, Color.YELLOW),
    lambda: Key(Color.NONE),
    lambda: Key(Color.YELLOW),
    Coin,
    MovingObstacle,
    lambda: Box(Key(Color.BLUE)),
    lambda: Box(Floor()),
    lambda: Telepod(Color.RED),
    lambda: Beacon(Color.NONE),
]

HELD_FACTORIES = [
    lambda: None,  # Agent default
    NoneGridObject,
    lambda: Key(Color.NONE),
    lambda: Key(Color.YELLOW),
    lambda: Key(Color.RED),
    Coin,
]

FILLERS = [
    Floor,
    Wall,
    lambda: Key(Color.GREEN),
    lambda: Door(Door.Status.LOCKED, Color.GREEN),
    Coin,
    MovingObstacle,
    lambda: Box(Key(Color.RED)),
    Exit,
]

SHAPES = [(1, 1), (1, 4), (3, 2), (2, 5), (4, 3)]


def make_state(shape, position, orientation, front_factory, held_factory):
    height, width = shape
    objects = [
        [FILLERS[(3 * y + 5 * x + y * x) % len(FILLERS)]() for x in range(width)]
        for y in range(height)
    ]
    grid = Grid(objects)
    agent = Agent(Position(*position), orientation, held_factory())
    front = agent.front()
    if grid.area.contains(front):
        grid[front] = front_factory()
    return State(grid, agent)


def identity_map(state):
    return [[id(obj) for obj in row] for row in state.grid.objects]


def part1():
    n = 0
    cases = Counter()
    for shape in SHAPES:
        positions = itertools.product(range(shape[0]), range(shape[1]))
        for position, orientation, front_factory, held_factory in (
            itertools.product(
                positions, Orientation, FRONT_FACTORIES, HELD_FACTORIES
            )
        ):
            base = make_state(
                shape, position, orientation, front_factory, held_factory
            )
            # the other actions (all no-ops) only on the smaller grids
            actions = Action if shape in SHAPES[:3] else [Action.PICK_N_DROP]
            for action in actions:
                context = (shape, position, orientation, action, snapshot(base))

                s_lib = fast_copy(base)
                s_ref = fast_copy(base)
                before = snapshot(s_lib)
                ids_before = identity_map(s_lib)
                held_before = s_lib.agent.grid_object
                front = s_lib.agent.front()
                in_grid = s_lib.grid.area.contains(front)
                obj_front = s_lib.grid[front] if in_grid else None

                result = tf.pickndrop(s_lib, action)
                ref_pickndrop(s_ref, action)
                check(result is None, 'returns something', *context)

                # same result as the reference implementation
                check(snapshot(s_lib) == snapshot(s_ref), 'differs', *context)
                check(s_lib == s_ref, 'differs (==)', *context)

                # the agent does not move or turn
                check(snapshot(s_lib)[1:3] == before[1:3], 'pose', *context)

                # conservation: exact same multiset, scenery in place
                check(multiset(s_lib) == multiset(base), 'multiset', *context)
                check(scenery(s_lib) == scenery(base), 'scenery', *context)

                # every cell other than the front one holds the very same object
                ids_after = identity_map(s_lib)
                for y, x in itertools.product(range(shape[0]), range(shape[1])):
                    if in_grid and (y, x) == front.yx:
                        continue
                    check(ids_after[y][x] == ids_before[y][x], 'cell', *context)

                # hard-coded expectations, case by case
                holding = not isinstance(held_before, NoneGridObject)
                acts = (
                    action is Action.PICK_N_DROP
                    and in_grid
                    and (isinstance(obj_front, Floor) or obj_front.holdable)
                )
                if not acts:
                    cases['no effect'] += 1
                    check(snapshot(s_lib) == before, 'no-op', *context)
                    check(s_lib.agent.grid_object is held_before, *context)
                    if in_grid:
                        check(s_lib.grid[front] is obj_front, *context)
                elif obj_front.holdable and not holding:
                    cases['pick'] += 1
                    check(type(s_lib.grid[front]) is Floor, 'pick', *context)
                    check(s_lib.agent.grid_object is obj_front, *context)
                elif obj_front.holdable and holding:
                    cases['swap'] += 1
                    check(s_lib.grid[front] is held_before, 'swap', *context)
                    check(s_lib.agent.grid_object is obj_front, *context)
                elif holding:
                    cases['drop'] += 1
                    check(s_lib.grid[front] is held_before, 'drop', *context)
                    check(
                        type(s_lib.agent.grid_object) is NoneGridObject,
                        'drop',
                        *context,
                    )
                else:
                    cases['empty hand on floor'] += 1
                    check(type(s_lib.grid[front]) is Floor, *context)
                    check(
                        type(s_lib.agent.grid_object) is NoneGridObject,
                        *context,
                    )

                # no object is both in the hand and on the grid
                if not isinstance(s_lib.agent.grid_object, NoneGridObject):
                    check(
                        id(s_lib.agent.grid_object)
                        not in itertools.chain(*ids_after),
                        'duplicated',
                        *context,
                    )

                # repeated call: picking/dropping twice in place is consistent
                # with the reference, and conserves again
                tf.pickndrop(s_lib, action)
                ref_pickndrop(s_ref, action)
                check(snapshot(s_lib) == snapshot(s_ref), 'twice', *context)
                check(multiset(s_lib) == multiset(base), 'twice', *context)
                n += 1

    for name in ['no effect', 'pick', 'swap', 'drop', 'empty hand on floor']:
        check(cases[name] > 0, 'case never exercised', name)
    print(f'part 1: {n} single pickndrop steps agree', dict(cases))


# --------------------------------------------------------------------------
# part 2: every built-in transition function conserves objects on random states


def random_state(rng):
    height, width = rng.integers(1, 6), rng.integers(1, 6)
    palette = [
        Floor,
        Floor,
        Floor,
        Wall,
        Exit,
        lambda: Door(Door.Status(rng.integers(3)), Color(rng.integers(5))),
        lambda: Key(Color(rng.integers(5))),
        Coin,
        MovingObstacle,
        MovingObstacle,
        lambda: Box(Key(Color(rng.integers(5)))),
        lambda: Box(Floor()),
        lambda: Box(Box(Coin())),
        lambda: Telepod(Color(rng.integers(1, 3))),
        lambda: Beacon(Color(rng.integers(5))),
    ]
    objects = [
        [palette[rng.integers(len(palette))]() for _ in range(width)]
        for _ in range(height)
    ]
    held = [None, Key(Color(rng.integers(5))), Coin()][rng.integers(3)]
    agent = Agent(
        Position(rng.integers(height), rng.integers(width)),
        list(Orientation)[rng.integers(4)],
        held,
    )
    return State(Grid(objects), agent)


def expected_multiset(state, action, opens_boxes):
    """multiset after the step: the same, except that an actuated box in front
    is replaced by its content"""
    expected = multiset(state)
    front = state.agent.front()
    if (
        opens_boxes
        and action is Action.ACTUATE
        and state.grid.area.contains(front)
        and isinstance(state.grid[front], Box)
    ):
        box = state.grid[front]
        expected[kind(box)] -= 1
        if not is_nothing(box.content):
            expected[kind(box.content)] += 1
        expected = +expected
    return expected


def part2():
    rng = rnd.default_rng(20240901)
    everything = [
        tf.move_agent,
        tf.turn_agent,
        tf.actuate_door,
        tf.actuate_box,
        tf.pickndrop,
        tf.move_obstacles,
        tf.teleport,
    ]
    functions = {f.__name__: (f, f is tf.actuate_box) for f in everything}
    functions['chain(all)'] = (
        tf.factory('chain', transition_functions=everything),
        True,
    )
    functions['chain(reversed)'] = (
        tf.factory('chain', transition_functions=everything[::-1]),
        True,
    )
    n = 0
    for _ in range(400):
        state = random_state(rng)
        for name, (function, opens_boxes) in functions.items():
            for action in Action:
                seed = int(rng.integers(1 << 30))
                expected = expected_multiset(state, action, opens_boxes)
                next_state = tf.transition_with_copy(
                    function, state, action, rng=rnd.default_rng(seed)
                )
                context = (name, action, snapshot(state))
                if name == 'chain(reversed)' and action is Action.ACTUATE:
                    # teleport / moves happen before the box link, so the
                    # actuated cell may differ: only totals are checked
                    total = sum(multiset(next_state).values())
                    check(
                        abs(total - sum(multiset(state).values())) <= 1,
                        'total',
                        *context,
                    )
                else:
                    check(multiset(next_state) == expected, 'cons', *context)
                check(
                    scenery(next_state) == scenery(state), 'scenery', *context
                )
                # same seed, same result (several calls in one process)
                again = tf.transition_with_copy(
                    function, state, action, rng=rnd.default_rng(seed)
                )
                check(snapshot(again) == snapshot(next_state), 'rep', *context)
                n += 1
    print(f'part 2: {n} steps of built-in transition functions conserve')


# --------------------------------------------------------------------------
# part 3: histories of the key-door and obstacle environments


def run_history(reset, links_lib, links_ref, seed, steps):
    """runs the same history with the library chain and the reference chain"""
    chain_lib = tf.factory('chain', transition_functions=links_lib)
    chain_ref = tf.factory('chain', transition_functions=links_ref)

    rng_lib, rng_ref = rnd.default_rng(seed), rnd.default_rng(seed)
    s_lib, s_ref = reset(rng=rng_lib), reset(rng=rng_ref)
    check(snapshot(s_lib) == snapshot(s_ref), 'reset', seed)

    start = multiset(s_lib)
    walls = scenery(s_lib)
    actions = list(Action)
    rng_actions = rnd.default_rng(seed + 1)
    picked = 0
    for t in range(steps):
        action = actions[rng_actions.integers(len(actions))]
        # bias towards interaction
        if rng_actions.random() < 0.3:
            action = Action.PICK_N_DROP
        held = describe(s_lib.agent.grid_object)
        s_lib = tf.transition_with_copy(chain_lib, s_lib, action, rng=rng_lib)
        s_ref = tf.transition_with_copy(chain_ref, s_ref, action, rng=rng_ref)
        picked += describe(s_lib.agent.grid_object) != held
        check(snapshot(s_lib) == snapshot(s_ref), 'history', seed, t, action)
        check(multiset(s_lib) == start, 'history multiset', seed, t, action)
        check(scenery(s_lib) == walls, 'history scenery', seed, t, action)
    return picked


def part3():
    keydoor_lib = [tf.move_agent, tf.turn_agent, tf.actuate_door, tf.pickndrop]
    keydoor_ref = [tf.move_agent, tf.turn_agent, tf.actuate_door, ref_pickndrop]
    picked = 0
    shapes = [(5, 5), (7, 7), (9, 9), (4, 6), (4, 5), (6, 11), (10, 5)]
    for shape in shapes:
        for seed in range(12):
            reset = reset_functions.factory('keydoor', shape=Shape(*shape))
            picked += run_history(reset, keydoor_lib, keydoor_ref, seed, 120)
    check(picked > 0, 'the key was never picked in any history')

    # obstacle environments, with pickndrop appended (no-op on those grids,
    # except that the chain must still agree)
    obstacles_lib = [tf.move_agent, tf.turn_agent, tf.move_obstacles]
    for shape, num_obstacles in [
        ((5, 5), 1),
        ((7, 7), 2),
        ((4, 9), 5),
        ((4, 4), 2),
        ((6, 4), 0),
    ]:
        for random_agent in [False, True]:
            for seed in range(8):
                reset = reset_functions.factory(
                    'dynamic_obstacles',
                    shape=Shape(*shape),
                    num_obstacles=num_obstacles,
                    random_agent=random_agent,
                )
                run_history(
                    reset,
                    obstacles_lib + [tf.pickndrop],
                    obstacles_lib + [ref_pickndrop],
                    seed,
                    60,
                )
    print(f'part 3: histories agree and conserve (hand changed {picked} times)')


if __name__ == '__main__':
    part1()
    part2()
    part3()
    print('OK')
