"""Demo for change A (C17): `_list_schema` helper in envs/yaml/schemas.py.

Runs on the pristine tree and on the patched tree; exits 0 on both.

* builds a *reference* copy of every list schema, spelled out the way the
  pristine module spells it, and checks that the live schemas accept / reject
  exactly the same documents, return the same validated data, raise the same
  error messages and export the same JSON schema;
* validates and builds every shipped configuration (yaml/, registered_envs/,
  examples/), twice, leaves the input unchanged, and replays seeded action
  sequences on both builds;
* systematically corrupts the shipped configurations and checks that each
  corruption is rejected (the verdict is the reference's verdict).
"""
import copy
import filecmp
import glob
import itertools as itt
import os
import re
import sys
import warnings

warnings.filterwarnings('ignore')

ROOT = os.path.dirname(
    os.path.dirname(os.path.dirname(os.path.abspath(__file__)))
)
sys.path.insert(0, ROOT)

from schema import And, Optional, Or, Schema, SchemaError  # noqa: E402

from gym_gridverse.action import Action  # noqa: E402
from gym_gridverse.envs.yaml import schemas as schemas_module  # noqa: E402
from gym_gridverse.envs.yaml.factory import (  # noqa: E402
    factory_action_space,
    factory_colors,
    factory_env_from_data,
    factory_object_types,
)
from gym_gridverse.grid_object import Color  # noqa: E402

live = schemas_module.schemas
failures = []


def check(condition, message):
    if not condition:
        failures.append(message)


# ---------------------------------------------------------------- reference


def build_reference():
    """the schemas, spelled out without any list helper"""

    non_empty = Schema(len, error='{} should not be empty')
    unique = Schema(
        lambda data: len(set(data)) == len(data),
        error='{} should have unique elements',
    )

    def len_schema(n):
        return Schema(
            lambda data: len(data) == n, error=f'{{}} should have length {n}'
        )

    positive = Schema(lambda data: data > 0, error='{} should be positive')

    def pair(sub):
        return Schema(And([sub], len_schema(2)))

    ref = {
        'shape': pair(Schema(And(int, positive))),
        'layout': pair(Schema(And(int, positive))),
        'area': pair(pair(int)),
        'object_type': Schema(str),
        'action': Schema(Or(*(action.name for action in Action))),
        'color': Schema(Or(*(color.name for color in Color))),
    }
    ref['object_types'] = Schema(
        And([ref['object_type']], non_empty, unique),
        description='A non-empty list of unique grid-object type names',
    )
    ref['actions'] = Schema(
        And([ref['action']], non_empty, unique),
        description='A non-empty list of unique actions',
    )
    ref['colors'] = Schema(
        And([ref['color']], non_empty, unique),
        description='A non-empty list of unique color names',
    )

    kinds = {
        'reset': 'A reset function',
        'transition': 'A transition function',
        'reward': 'A reward function',
        'observation': 'An observation function',
        'visibility': 'A visibility function',
        'terminating': 'A terminating function',
    }
    for kind, description in kinds.items():
        ref[f'{kind}_function'] = Schema(
            {'name': str, Optional(object): object},
            description=description,
            name=f'{kind}_function',
            as_reference=True,
        )
    ref['distance_function'] = Schema(
        Or('manhattan', 'euclidean'), description='A distance function'
    )

    for kind in ['reset', 'transition', 'reward', 'terminating']:
        ref[f'{kind}_functions'] = Schema(
            And([ref[f'{kind}_function']], non_empty),
            description=f'A list of {kind} functions',
        )

    reserved_keys = [
        'reset_function',
        'transition_function',
        'reward_function',
        'terminating_function',
        'reset_functions',
        'transition_functions',
        'reward_functions',
        'terminating_functions',
        'shape',
        'layout',
        'object_type',
        'colors',
    ]
    for kind, reserved_key in itt.product(kinds, reserved_keys):
        ref[f'{kind}_function'].schema[Optional(reserved_key)] = ref[
            reserved_key
        ]

    ref['state_space'] = Schema(
        {'objects': ref['object_types'], 'colors': ref['colors']},
        description='The shape and contents of a state',
    )
    ref['action_space'] = Schema(
        ref['actions'], description='A non-empty list of unique action names'
    )
    ref['observation_space'] = Schema(
        {'objects': ref['object_types'], 'colors': ref['colors']},
        description='The shape and contents of an observation;  shape should have an odd width.',
    )
    ref['env'] = Schema(
        {
            'state_space': ref['state_space'],
            Optional('action_space'): ref['action_space'],
            'observation_space': ref['observation_space'],
            'reset_function': ref['reset_function'],
            'transition_functions': ref['transition_functions'],
            'reward_functions': ref['reward_functions'],
            'observation_function': ref['observation_function'],
            'terminating_function': ref['terminating_function'],
        },
    )
    return ref


reference = build_reference()


def outcome(schema, data):
    """('ok', validated) or ('error', custom messages, nesting depth)

    Automatic messages contain reprs of lambdas (names and addresses), so
    errors are compared by their custom messages -- which embed the offending
    data -- and by the number of schema levels the error travelled through.
    Any other exception propagates.
    """
    data = copy.deepcopy(data)
    try:
        return ('ok', schema.validate(data))
    except SchemaError as error:
        messages = [message for message in error.errors if message]
        return ('error', messages, len(error.autos))


def same_outcome(key, data):
    expected = outcome(reference[key], data)
    actual = outcome(live[key], data)
    check(
        expected == actual,
        f'schema {key!r} on {data!r}: expected {expected!r}, got {actual!r}',
    )
    return actual


# ------------------------------------------------- 1. same set of schemas

check(set(live) == set(reference), f'schema keys differ: {set(live) ^ set(reference)}')

for key in sorted(reference):
    check(
        live[key].json_schema('demo') == reference[key].json_schema('demo'),
        f'json schema of {key!r} differs',
    )
    check(
        live[key].description == reference[key].description,
        f'description of {key!r} differs',
    )

# ----------------------------------------- 2. list schemas, document corpus

color_names = [color.name for color in Color]
action_names = [action.name for action in Action]

item_corpus = {
    'object_types': ['Floor', 'Wall', 'Exit', 'NotAnObject', '', 3, None, ['Floor']],
    'actions': action_names[:3] + ['move_forward', 'JUMP', 0, None],
    'colors': color_names[:3] + ['none', 'PURPLE', 1, None],
}

for key, items in item_corpus.items():
    documents = [[], (), None, 'Floor', 'NONE', 3, {}, {'a': 1}]
    for n in (1, 2, 3):
        documents.extend(list(p) for p in itt.product(items, repeat=n) if n < 3 or p[0] == p[2] or p[1] == p[2])
    # tuples and sets are not lists
    documents.append(tuple(items[:2]))
    documents.append({items[0]})
    # every legal name at once, and every legal name repeated
    full = {'object_types': ['Floor', 'Wall'], 'actions': action_names, 'colors': color_names}[key]
    documents.append(list(full))
    documents.append(list(full) + [full[0]])
    documents.append(list(reversed(full)))

    n_ok = n_error = 0
    for document in documents:
        kind = same_outcome(key, document)[0]
        n_ok += kind == 'ok'
        n_error += kind == 'error'
    check(n_ok > 0 and n_error > 0, f'corpus of {key!r} is one-sided')

# hard-coded verdicts (independent of the reference)
hard_coded = [
    ('colors', ['NONE'], True),
    ('colors', ['NONE', 'RED'], True),
    ('colors', [], False),
    ('colors', ['RED', 'RED'], False),
    ('colors', ['RED', 'red'], False),
    ('colors', 'RED', False),
    ('actions', ['TURN_LEFT'], True),
    ('actions', ['TURN_LEFT', 'TURN_LEFT'], False),
    ('actions', [], False),
    ('object_types', ['Floor', 'Wall'], True),
    ('object_types', ['Floor', 'Floor'], False),
    ('object_types', [], False),
    ('action_space', action_names, True),
    ('action_space', action_names + action_names[:1], False),
    # function lists: non-empty, duplicates ARE allowed
    ('transition_functions', [{'name': 'move_agent'}], True),
    ('transition_functions', [{'name': 'move_agent'}, {'name': 'move_agent'}], True),
    ('transition_functions', [], False),
    ('transition_functions', [{}], False),
    ('transition_functions', {'name': 'move_agent'}, False),
    ('reward_functions', [{'name': 'living_reward', 'reward': -1.0}] * 3, True),
    ('reward_functions', [], False),
    ('terminating_functions', [{'name': 'reach_exit'}, {'name': 'reach_exit'}], True),
    ('terminating_functions', [], False),
    ('reset_functions', [{'name': 'empty', 'shape': [4, 5]}], True),
    ('reset_functions', [{'name': 'empty', 'shape': [4, 0]}], False),
    ('reset_functions', [], False),
]
for key, document, expected in hard_coded:
    check(
        live[key].is_valid(copy.deepcopy(document)) == expected,
        f'{key!r} on {document!r}: expected valid={expected}',
    )
    same_outcome(key, document)

# error messages of the three failure modes, literally
for key, document, needle in [
    ('colors', [], 'should not be empty'),
    ('colors', ['RED', 'RED'], 'should have unique elements'),
    ('colors', ['PURPLE'], 'PURPLE'),
    ('reward_functions', [], 'should not be empty'),
]:
    kind, *details = outcome(live[key], document)
    try:
        live[key].validate(copy.deepcopy(document))
        message = ''
    except SchemaError as error:
        message = str(error)
    check(kind == 'error' and needle in message, f'{key!r} on {document!r}: {message[-200:]!r}')

# nested function lists (reserved keys inside function documents)
nested_documents = [
    {'name': 'chain', 'transition_functions': [{'name': 'move_agent'}, {'name': 'move_agent'}]},
    {'name': 'chain', 'transition_functions': []},
    {'name': 'reduce_sum', 'reward_functions': [{'name': 'reduce_sum', 'reward_functions': [{'name': 'living_reward'}]}]},
    {'name': 'reduce_sum', 'reward_functions': [{'name': 'reduce_sum', 'reward_functions': []}]},
    {'name': 'reduce_any', 'terminating_functions': [{'name': 'reach_exit'}]},
    {'name': 'reduce_any', 'terminating_functions': 'reach_exit'},
    {'name': 'memory', 'shape': [5, 5], 'colors': ['RED', 'GREEN']},
    {'name': 'memory', 'shape': [5, 5], 'colors': ['RED', 'RED']},
    {'name': 'memory', 'shape': [5, 5], 'colors': []},
    {'name': 'memory', 'shape': [5, 5], 'colors': ['NONE']},
]
for key in ['reset_function', 'transition_function', 'reward_function', 'observation_function', 'visibility_function', 'terminating_function']:
    for document in nested_documents:
        same_outcome(key, document)

# validation returns new containers with equal contents; the input is untouched
for key, document in [
    ('colors', ['NONE', 'RED']),
    ('actions', action_names),
    ('transition_functions', [{'name': 'move_agent'}, {'name': 'turn_agent'}]),
]:
    before = copy.deepcopy(document)
    validated = live[key].validate(document)
    check(document == before, f'{key!r}: input changed by validation')
    check(validated == before, f'{key!r}: validated data differs from input')
    check(validated is not document, f'{key!r}: validated data aliases input')

# factories on top of the list schemas
check(factory_colors(color_names) == list(Color), 'factory_colors order')
check(factory_colors(['NONE']) == [Color.NONE], 'factory_colors NONE')
check(
    factory_action_space(list(reversed(action_names))).actions == list(reversed(Action)),
    'factory_action_space order',
)
check(
    [t.__name__ for t in factory_object_types(['Wall', 'Floor'])] == ['Wall', 'Floor'],
    'factory_object_types order',
)
for factory, document in [
    (factory_colors, []),
    (factory_colors, ['RED', 'RED']),
    (factory_action_space, []),
    (factory_action_space, ['TURN_LEFT', 'TURN_LEFT']),
    (factory_object_types, []),
    (factory_object_types, ['Wall', 'Wall']),
]:
    try:
        factory(document)
    except SchemaError:
        pass
    else:
        check(False, f'{factory.__name__} accepted {document!r}')

# ------------------------------------------- 3. shipped configurations

# ------------------------------------------------------- configuration loader
# PyYAML may be missing (then `import yaml` finds the `yaml/` directory of the
# repository as a namespace package);  the shipped files only use block
# mappings, block sequences, flow sequences and plain scalars.


def _scalar(text):
    text = text.strip()
    if re.fullmatch(r'[-+]?\d+', text):
        return int(text)
    if re.fullmatch(r'[-+]?(\d+\.\d*|\.\d+|\d+)([eE][-+]?\d+)?', text):
        return float(text)
    if text in ('true', 'True', 'TRUE'):
        return True
    if text in ('false', 'False', 'FALSE'):
        return False
    if text in ('null', 'Null', 'NULL', '~', ''):
        return None
    if len(text) >= 2 and text[0] == text[-1] and text[0] in '\'"':
        return text[1:-1]
    return text


def _flow(text):
    tokens = re.findall(r'\[|\]|,|[^\[\],]+', text)
    tokens = [t.strip() for t in tokens if t.strip()]
    position = 0

    def parse():
        nonlocal position
        token = tokens[position]
        position += 1
        if token != '[':
            assert token not in (']', ','), text
            return _scalar(token)
        items = []
        while tokens[position] != ']':
            items.append(parse())
            if tokens[position] == ',':
                position += 1
        position += 1
        return items

    value = parse()
    assert position == len(tokens), text
    return value


def _value(text):
    return _flow(text) if text.lstrip().startswith('[') else _scalar(text)


_KEY = re.compile(r'^([A-Za-z_][\w]*):(?:\s+(.*))?$')


def mini_yaml_load(text):
    lines = []
    for raw in text.splitlines():
        raw = re.sub(r'(^|\s)#.*$', '', raw).rstrip()
        if raw.strip():
            assert '\t' not in raw
            lines.append([len(raw) - len(raw.lstrip()), raw.strip()])

    def block(i, indent):
        if lines[i][1].startswith('- '):
            return sequence(i, indent)
        if _KEY.match(lines[i][1]):
            return mapping(i, indent)
        return _value(lines[i][1]), i + 1

    def sequence(i, indent):
        items = []
        while i < len(lines) and lines[i][0] == indent and lines[i][1].startswith('- '):
            rest = lines[i][1][2:]
            inner = indent + 2 + (len(rest) - len(rest.lstrip()))
            lines[i] = [inner, rest.strip()]
            item, i = block(i, inner)
            items.append(item)
        return items, i

    def mapping(i, indent):
        items = {}
        while i < len(lines) and lines[i][0] == indent:
            match = _KEY.match(lines[i][1])
            assert match, lines[i]
            key, rest = match.group(1), match.group(2)
            assert key not in items, key
            if rest is not None and rest.strip():
                items[key] = _value(rest)
                i += 1
            elif i + 1 < len(lines) and (
                lines[i + 1][0] > indent
                or (lines[i + 1][0] == indent and lines[i + 1][1].startswith('- '))
            ):
                items[key], i = block(i + 1, lines[i + 1][0])
            else:
                items[key] = None
                i += 1
        return items, i

    value, i = block(0, lines[0][0])
    assert i == len(lines), lines[i:]
    return value


def load_configuration(path):
    with open(path) as f:
        text = f.read()
    try:
        import yaml

        return yaml.safe_load(text)
    except (ImportError, AttributeError):
        return mini_yaml_load(text)


paths = sorted(
    glob.glob(os.path.join(ROOT, 'yaml', '*.yaml'))
    + glob.glob(os.path.join(ROOT, 'gym_gridverse', 'registered_envs', '*.yaml'))
    + glob.glob(os.path.join(ROOT, 'examples', '*.yaml'))
)
check(len(paths) >= 40, f'only {len(paths)} configuration files found')

# packaged copies are identical
for path in glob.glob(os.path.join(ROOT, 'yaml', '*.yaml')):
    packaged = os.path.join(ROOT, 'gym_gridverse', 'registered_envs', os.path.basename(path))
    check(
        os.path.exists(packaged) and filecmp.cmp(path, packaged, shallow=False),
        f'packaged copy of {os.path.basename(path)} differs',
    )


def rollout(env, seed, actions):
    env.set_seed(seed)
    env.reset()
    trace = [(env.state, env.observation)]
    for action in actions:
        reward, done = env.step(action)
        trace.append((reward, done, env.state, env.observation))
        if done:
            env.reset()
            trace.append((env.state, env.observation))
    return trace


def corruptions(data):
    """systematic corruptions of the list-shaped parts of a configuration"""
    for space in ['state_space', 'observation_space']:
        for field in ['objects', 'colors']:
            for mutate in [
                lambda xs: [],
                lambda xs: xs + xs[:1],
                lambda xs: tuple(xs),
                lambda xs: xs[0],
                lambda xs: xs + [None],
                lambda xs: None,
            ]:
                corrupt = copy.deepcopy(data)
                corrupt[space][field] = mutate(corrupt[space][field])
                yield f'{space}.{field}', corrupt
    if 'action_space' in data:
        for mutate in [
            lambda xs: [],
            lambda xs: xs + xs[:1],
            lambda xs: xs + ['JUMP'],
            lambda xs: [x.lower() for x in xs],
            lambda xs: {x: None for x in xs},
        ]:
            corrupt = copy.deepcopy(data)
            corrupt['action_space'] = mutate(corrupt['action_space'])
            yield 'action_space', corrupt
    for key in ['transition_functions', 'reward_functions']:
        for mutate in [
            lambda xs: [],
            lambda xs: xs[0],
            lambda xs: xs + [{}],
            lambda xs: xs + [{'reward': 1.0}],
            lambda xs: xs + ['move_agent'],
            lambda xs: None,
        ]:
            corrupt = copy.deepcopy(data)
            corrupt[key] = mutate(corrupt[key])
            yield key, corrupt
    if 'colors' in data['reset_function']:
        for mutate in [lambda xs: [], lambda xs: xs + xs[:1], lambda xs: xs + ['PURPLE']]:
            corrupt = copy.deepcopy(data)
            corrupt['reset_function']['colors'] = mutate(
                corrupt['reset_function']['colors']
            )
            yield 'reset_function.colors', corrupt


n_built = 0
for path in paths:
    name = os.path.relpath(path, ROOT)
    data = load_configuration(path)

    kind = same_outcome('env', data)[0]
    check(kind == 'ok', f'{name} does not validate')

    if name.startswith('examples'):
        # custom components live in modules next to the file
        sys.path.insert(0, os.path.dirname(path))
        os.chdir(os.path.dirname(path))

    before = copy.deepcopy(data)
    try:
        env1 = factory_env_from_data(data)
        check(data == before, f'{name}: building changed the input data')
        env2 = factory_env_from_data(data)
        check(data == before, f'{name}: rebuilding changed the input data')
    except Exception as error:  # noqa: BLE001
        if name.startswith('examples'):
            # custom modules may need optional dependencies
            continue
        check(False, f'{name}: building failed: {error!r}')
        continue
    finally:
        os.chdir(ROOT)
    n_built += 1

    expected_actions = (
        [Action[a] for a in data['action_space']]
        if 'action_space' in data
        else list(Action)
    )
    check(env1.action_space.actions == expected_actions, f'{name}: action space')
    check(
        env1.state_space.colors
        == {Color[c] for c in data['state_space']['colors']} | {Color.NONE},
        f'{name}: state-space colors',
    )
    check(
        [t.__name__ for t in env1.observation_space.object_types]
        == [d.split(':')[-1] for d in data['observation_space']['objects']],
        f'{name}: observation-space objects',
    )

    actions = env1.action_space.actions
    for seed in (0, 1, 17):
        sequence = [actions[(seed + 3 * i * i + i) % len(actions)] for i in range(25)]
        trace = rollout(env1, seed, sequence)
        check(
            trace == rollout(env2, seed, sequence),
            f'{name}: two builds disagree for seed {seed}',
        )
        check(
            trace == rollout(env1, seed, sequence),
            f'{name}: re-seeding does not reproduce for seed {seed}',
        )

    for where, corrupt in corruptions(data):
        kind = same_outcome('env', corrupt)[0]
        check(kind == 'error', f'{name}: corruption of {where} accepted by schema')
        try:
            factory_env_from_data(corrupt)
        except SchemaError:
            pass
        except Exception as error:  # noqa: BLE001
            check(False, f'{name}: corruption of {where} raised {error!r}')
        else:
            check(False, f'{name}: corruption of {where} built an environment')

if True:
    check(n_built >= 40, f'only {n_built} configurations built')

if failures:
    print(f'{len(failures)} FAILURES')
    for failure in failures[:40]:
        print(' -', failure[:600])
    sys.exit(1)

print(f'OK: {len(paths)} configuration files, {n_built} built, all schemas agree with the reference')
