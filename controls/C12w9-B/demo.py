"""C12 demo (change B): distance-based rewards.

Checks `proportional_to_distance`, `getting_closer` and
`getting_closer_shortest_path` against a reference implementation embedded
here (own object search, own breadth-first search), including the error cases
(no / several objects of the requested type -> ValueError), and checks the
other reward / terminating components which share the module on the same
transitions.  Runs identically on the pristine tree and with the patch applied;
exits 0 iff everything agrees.
"""
import copy
import itertools as itt
import math
import os
import random
import sys
import warnings

warnings.filterwarnings('ignore')
sys.path.insert(0, os.getcwd())  # run from the worktree root

import numpy.random as rnd  # noqa: E402

from gym_gridverse.action import Action  # noqa: E402
from gym_gridverse.agent import Agent  # noqa: E402
from gym_gridverse.envs import reset_functions as reset_fs  # noqa: E402
from gym_gridverse.envs import reward_functions as reward_fs  # noqa: E402
from gym_gridverse.envs import terminating_functions as term_fs  # noqa: E402
from gym_gridverse.envs import transition_functions as trans_fs  # noqa: E402
from gym_gridverse.geometry import Orientation, Position, Shape  # noqa: E402
from gym_gridverse.grid import Grid  # noqa: E402
from gym_gridverse.grid_object import (  # noqa: E402
    Beacon,
    Color,
    Door,
    Exit,
    Floor,
    Key,
    MovingObstacle,
    Wall,
)
from gym_gridverse.state import State  # noqa: E402

n_checks = 0


def check(condition, *info):
    global n_checks
    n_checks += 1
    if not condition:
        print('FAILED', *info)
        sys.exit(1)


# ---------------------------------------------------------------- reference


def ref_find(state, object_type):
    """(y, x) of all objects of the given type, row-major"""
    return [
        (y, x)
        for y, row in enumerate(state.grid.objects)
        for x, obj in enumerate(row)
        if isinstance(obj, object_type)
    ]


def ref_manhattan(p, q):
    return abs(p[0] - q[0]) + abs(p[1] - q[1])


def ref_euclidean(p, q):
    return math.sqrt((p[0] - q[0]) ** 2 + (p[1] - q[1]) ** 2)


def ref_shortest_path(state, source, target):
    """number of steps from source to target through non-blocking cells

    NOTE: mirrors the documented semantics: a search from the object's cell
    (whatever it contains) which only expands into cells which do not block
    movement.
    """
    objects = state.grid.objects
    height, width = len(objects), len(objects[0])
    distances = {source: 0}
    frontier = [source]
    while frontier:
        new_frontier = []
        for y, x in frontier:
            for dy, dx in ((-1, 0), (1, 0), (0, -1), (0, 1)):
                cell = (y + dy, x + dx)
                if (
                    0 <= cell[0] < height
                    and 0 <= cell[1] < width
                    and cell not in distances
                    and not objects[cell[0]][cell[1]].blocks_movement
                ):
                    distances[cell] = distances[(y, x)] + 1
                    new_frontier.append(cell)
        frontier = new_frontier
    return distances.get(target, math.inf)


def ref_sign_reward(distance_prev, distance_next, reward_closer, reward_further):
    if distance_next < distance_prev:
        return reward_closer
    if distance_next > distance_prev:
        return reward_further
    return 0.0


def agent_yx(state):
    return state.agent.position.y, state.agent.position.x


# ---------------------------------------------------------------- scenarios

FILLERS = [
    Floor,
    Floor,
    Floor,
    Wall,
    Wall,
    MovingObstacle,
    lambda: Door(Door.Status.OPEN, Color.NONE),
    lambda: Door(Door.Status.CLOSED, Color.RED),
    lambda: Key(Color.NONE),
]
SHAPES = [(1, 1), (1, 6), (6, 1), (2, 3), (4, 7), (7, 3)]
REWARD_PAIRS = [(1.0, -1.0), (0.5, -0.25), (-2.0, 3.0), (0.0, 0.0), (2, -2)]
UNIT_REWARDS = [-1.0, 0.1, 0.0, 3]


def random_grid(pyrng, height, width, num_exits=1, exit_color=Color.NONE):
    grid = Grid(
        [
            [pyrng.choice(FILLERS)() for _ in range(width)]
            for _ in range(height)
        ]
    )
    cells = [(y, x) for y in range(height) for x in range(width)]
    for y, x in pyrng.sample(cells, min(num_exits, len(cells))):
        grid[y, x] = Exit(exit_color)
    return grid


def random_state(pyrng, height, width, **kwargs):
    grid = random_grid(pyrng, height, width, **kwargs)
    position = Position(pyrng.randrange(height), pyrng.randrange(width))
    return State(grid, Agent(position, pyrng.choice(list(Orientation))))


def snapshot(state):
    return (
        [
            [(type(o), o.state_index, o.color) for o in row]
            for row in state.grid.objects
        ],
        state.agent.position,
        state.agent.orientation,
    )


def expect_value_error(function, *args, **kwargs):
    try:
        function(*args, **kwargs)
    except ValueError:
        check(True)
    except Exception as error:  # pylint: disable=broad-except
        check(False, 'wrong exception', type(error), error)
    else:
        check(False, 'no exception', function, kwargs)


def check_triple(state, action, next_state, object_type=Exit, rng=None):
    before = snapshot(state), snapshot(next_state)

    prev_objects = ref_find(state, object_type)
    next_objects = ref_find(next_state, object_type)

    # -- proportional_to_distance only looks at the next state
    if len(next_objects) != 1:
        expect_value_error(
            reward_fs.proportional_to_distance,
            state,
            action,
            next_state,
            object_type=object_type,
        )
    else:
        manhattan = ref_manhattan(agent_yx(next_state), next_objects[0])
        euclidean = ref_euclidean(agent_yx(next_state), next_objects[0])
        reward = reward_fs.proportional_to_distance(
            state, action, next_state, object_type=object_type, rng=rng
        )
        check(reward == -1.0 * manhattan, 'proportional default', reward)
        for unit in UNIT_REWARDS:
            reward = reward_fs.proportional_to_distance(
                state,
                action,
                next_state,
                object_type=object_type,
                reward_per_unit_distance=unit,
                rng=rng,
            )
            check(reward == unit * manhattan, 'proportional manhattan')
            reward = reward_fs.proportional_to_distance(
                state,
                action,
                next_state,
                object_type=object_type,
                distance_function=Position.euclidean_distance,
                reward_per_unit_distance=unit,
            )
            check(reward == unit * euclidean, 'proportional euclidean')

    # -- getting_closer(_shortest_path) look at both states
    if len(prev_objects) != 1 or len(next_objects) != 1:
        for function in (
            reward_fs.getting_closer,
            reward_fs.getting_closer_shortest_path,
        ):
            expect_value_error(
                function, state, action, next_state, object_type=object_type
            )
    else:
        prev_yx, next_yx = agent_yx(state), agent_yx(next_state)
        manhattans = (
            ref_manhattan(prev_yx, prev_objects[0]),
            ref_manhattan(next_yx, next_objects[0]),
        )
        euclideans = (
            ref_euclidean(prev_yx, prev_objects[0]),
            ref_euclidean(next_yx, next_objects[0]),
        )
        paths = (
            ref_shortest_path(state, prev_objects[0], prev_yx),
            ref_shortest_path(next_state, next_objects[0], next_yx),
        )

        reward = reward_fs.getting_closer(
            state, action, next_state, object_type=object_type
        )
        check(reward == ref_sign_reward(*manhattans, 1.0, -1.0), 'closer default')
        reward = reward_fs.getting_closer_shortest_path(
            state, action, next_state, object_type=object_type
        )
        check(reward == ref_sign_reward(*paths, 1.0, -1.0), 'path default', paths)

        for closer, further in REWARD_PAIRS:
            kwargs = dict(
                object_type=object_type,
                reward_closer=closer,
                reward_further=further,
                rng=rng,
            )
            reward = reward_fs.getting_closer(state, action, next_state, **kwargs)
            expected = ref_sign_reward(*manhattans, closer, further)
            check(reward is expected or reward == expected == 0.0, 'closer')
            check(type(reward) is type(expected), 'closer type')

            reward = reward_fs.getting_closer(
                state,
                action,
                next_state,
                distance_function=Position.euclidean_distance,
                **kwargs,
            )
            expected = ref_sign_reward(*euclideans, closer, further)
            check(reward is expected or reward == expected == 0.0, 'closer (e)')

            reward = reward_fs.getting_closer_shortest_path(
                state, action, next_state, **kwargs
            )
            expected = ref_sign_reward(*paths, closer, further)
            check(reward is expected or reward == expected == 0.0, 'path', paths)
            check(type(reward) is type(expected), 'path type')

            # sign of the change in distance
            if manhattans[1] < manhattans[0]:
                check(
                    reward_fs.getting_closer(state, action, next_state, **kwargs)
                    is closer
                )

        # composite: sum of the parts, built through the factory
        parts = [
            reward_fs.factory('getting_closer', object_type=object_type),
            reward_fs.factory(
                'getting_closer_shortest_path',
                object_type=object_type,
                reward_closer=0.5,
                reward_further=-0.125,
            ),
            reward_fs.factory(
                'proportional_to_distance',
                object_type=object_type,
                reward_per_unit_distance=-0.25,
            ),
            reward_fs.factory('reach_exit', reward_on=8.0),
            reward_fs.factory('living_reward', reward=-0.5),
        ]
        on_exit = isinstance(next_state.grid[next_state.agent.position], Exit)
        expected = (
            ref_sign_reward(*manhattans, 1.0, -1.0)
            + ref_sign_reward(*paths, 0.5, -0.125)
            - 0.25 * manhattans[1]
            + (8.0 if on_exit else 0.0)
            - 0.5
        )
        total = reward_fs.reduce_sum(
            state, action, next_state, reward_functions=parts, rng=rng
        )
        check(total == expected, 'reduce_sum', total, expected)
        check(term_fs.reach_exit(state, action, next_state) is on_exit)

    check(before == (snapshot(state), snapshot(next_state)), 'states modified')


def real_next_state(state, action, rng):
    next_state = copy.deepcopy(state)
    trans_fs.chain(
        next_state,
        action,
        transition_functions=[
            trans_fs.move_obstacles,
            trans_fs.move_agent,
            trans_fs.turn_agent,
            trans_fs.actuate_door,
        ],
        rng=rng,
    )
    return next_state


def sweep_small_grids():
    pyrng = random.Random(987654321)
    nprng = rnd.default_rng(11)
    for height, width in SHAPES:
        for repetition in range(2):
            exit_color = [Color.NONE, Color.RED][repetition % 2]
            grid = random_grid(pyrng, height, width, exit_color=exit_color)
            for y, x, heading in itt.product(
                range(height), range(width), Orientation
            ):
                state = State(grid, Agent(Position(y, x), heading))
                # arbitrary next state: other shape, exit somewhere else
                arbitrary = random_state(pyrng, *pyrng.choice(SHAPES))
                for action in Action:
                    check_triple(state, action, real_next_state(state, action, nprng))
                    check_triple(state, action, state)
                check_triple(state, Action.MOVE_FORWARD, arbitrary, rng=nprng)
                check_triple(arbitrary, Action.TURN_LEFT, state)


def wrong_number_of_objects():
    pyrng = random.Random(5)
    for height, width in [(1, 1), (2, 3), (5, 4)]:
        for num_prev, num_next in itt.product([0, 1, 2, 3], repeat=2):
            state = random_state(pyrng, height, width, num_exits=num_prev)
            next_state = random_state(pyrng, height, width, num_exits=num_next)
            check_triple(state, Action.MOVE_FORWARD, next_state)
            # a type which is not there at all, then exactly once in each state
            check_triple(state, Action.MOVE_FORWARD, next_state, object_type=Beacon)
            state.grid[0, 0] = Beacon(Color.NONE)
            next_state.grid[height - 1, width - 1] = Beacon(Color.BLUE)
            check_triple(state, Action.MOVE_FORWARD, next_state, object_type=Beacon)


def hand_written():
    #   0 1 2 3 4
    # 0 . . W . E       non-square, exit in a corner, wall in between
    # 1 . . W . .
    # 2 . . . . .
    grid = Grid.from_shape((3, 5))
    grid[0, 2] = Wall()
    grid[1, 2] = Wall()
    grid[0, 4] = Exit()

    def at(y, x, heading=Orientation.F):
        return State(grid, Agent(Position(y, x), heading))

    kwargs = dict(object_type=Exit)
    action = Action.MOVE_FORWARD
    # (1, 1) -> (0, 1): closer as the crow flies, further along the path
    check(reward_fs.getting_closer(at(1, 1), action, at(0, 1), **kwargs) == 1.0)
    check(
        reward_fs.getting_closer_shortest_path(at(1, 1), action, at(0, 1), **kwargs)
        == -1.0
    )
    # (1, 1) -> (2, 1): the other way round
    check(reward_fs.getting_closer(at(1, 1), action, at(2, 1), **kwargs) == -1.0)
    check(
        reward_fs.getting_closer_shortest_path(at(1, 1), action, at(2, 1), **kwargs)
        == 1.0
    )
    # turning on the spot: no change
    for heading in Orientation:
        check(
            reward_fs.getting_closer(at(2, 0), Action.TURN_LEFT, at(2, 0, heading), **kwargs)
            == 0.0
        )
        check(
            reward_fs.getting_closer_shortest_path(
                at(2, 0), Action.TURN_LEFT, at(2, 0, heading), **kwargs
            )
            == 0.0
        )
    check(reward_fs.proportional_to_distance(at(2, 0), action, at(2, 0), **kwargs) == -6.0)
    check(reward_fs.proportional_to_distance(at(2, 0), action, at(0, 4), **kwargs) == 0.0)
    check(
        reward_fs.proportional_to_distance(
            at(0, 0),
            action,
            at(0, 1),
            distance_function=Position.euclidean_distance,
            reward_per_unit_distance=2.0,
            **kwargs,
        )
        == 6.0
    )

    # agent walled in: unreachable before and after -> no change; freed -> closer
    walled = Grid.from_shape((3, 5))
    walled[0, 1] = Wall()
    walled[1, 0] = Wall()
    walled[1, 1] = Wall()
    walled[2, 4] = Exit()
    inside = State(walled, Agent(Position(0, 0), Orientation.B))
    outside = State(walled, Agent(Position(2, 0), Orientation.B))
    check(reward_fs.getting_closer_shortest_path(inside, action, inside, **kwargs) == 0.0)
    check(reward_fs.getting_closer_shortest_path(inside, action, outside, **kwargs) == 1.0)
    check(reward_fs.getting_closer_shortest_path(outside, action, inside, **kwargs) == -1.0)

    # the object moves, the agent does not
    far = Grid.from_shape((1, 4))
    far[0, 3] = Key(Color.NONE)
    near = Grid.from_shape((1, 4))
    near[0, 1] = Key(Color.NONE)
    agent = Agent(Position(0, 0), Orientation.R)
    for function in (reward_fs.getting_closer, reward_fs.getting_closer_shortest_path):
        check(function(State(far, agent), action, State(near, agent), object_type=Key) == 1.0)
        check(function(State(near, agent), action, State(far, agent), object_type=Key) == -1.0)


def trajectories():
    """distance shaping along real trajectories, several interleaved environments"""

    def run(seed, shape):
        rng = rnd.default_rng(seed)
        state = reset_fs.dynamic_obstacles(Shape(*shape), 2, random_agent=True, rng=rng)
        actions = list(Action)
        trace = []
        for _ in range(40):
            action = actions[rng.integers(len(actions))]
            next_state = real_next_state(state, action, rng)
            check_triple(state, action, next_state, rng=rng)
            trace.append(
                (
                    reward_fs.getting_closer(state, action, next_state, object_type=Exit),
                    reward_fs.getting_closer_shortest_path(
                        state, action, next_state, object_type=Exit
                    ),
                    reward_fs.proportional_to_distance(
                        state, action, next_state, object_type=Exit
                    ),
                    term_fs.reach_exit(state, action, next_state),
                )
            )
            state = next_state
        return trace

    configurations = [(0, (5, 8)), (1, (9, 5)), (2, (6, 6))]
    first = [run(*configuration) for configuration in configurations]
    second = [run(*configuration) for configuration in reversed(configurations)]
    check(first == second[::-1], 're-seeding changes the rewards')
    check(
        {reward for trace in first for reward, _, _, _ in trace} == {-1.0, 0.0, 1.0},
        'trajectories do not exercise all signs',
    )


def main():
    hand_written()
    wrong_number_of_objects()
    sweep_small_grids()
    trajectories()
    print(f'OK ({n_checks} checks)')


if __name__ == '__main__':
    main()
