#!/usr/bin/env python
"""Behavioural check of the object-conservation mechanisms of gym-gridverse.

Run as:  cd /tmp/wt3-C09 && /venv/bin/python -W ignore _seed/A/demo.py

The program drives the built-in transition functions (pickndrop,
move_obstacles, actuate_door, actuate_box, move_agent, turn_agent, teleport,
chain) and Grid.swap through the public API, and compares every single step
against an INDEPENDENT re-implementation (class `Model` below) which does not
call any library dynamics.  The comparison is by object *identity* wherever an
object is supposed to be merely moved, by value (and non-aliasing) wherever a
fresh object is supposed to be created, and it also compares the complete state
of the random generator after each step (number/order of random draws).

On top of the model comparison, an explicit conservation invariant is asserted
(multiset of non-floor objects on the grid + held item, boxes being replaced by
their content when opened;  scenery never moves).

The FOCUS variable only scales how deep each section is run.
"""
import os
import sys

sys.path.insert(0, os.getcwd())

import collections
import itertools
import random

import numpy as np

from gym_gridverse.action import Action
from gym_gridverse.agent import Agent
from gym_gridverse.envs import transition_functions as tf
from gym_gridverse.geometry import Orientation, Position, Shape
from gym_gridverse.grid import Grid
from gym_gridverse.grid_object import (
    Beacon,
    Box,
    Color,
    Door,
    Exit,
    Floor,
    GridObject,
    Key,
    MovingObstacle,
    NoneGridObject,
    Telepod,
    Wall,
)
from gym_gridverse.rng import reset_gv_rng
from gym_gridverse.state import State

FOCUS = 'pickndrop'  # one of: pickndrop, move_obstacles, actuate


class Gem(GridObject):
    """a second (custom) holdable object type, besides Key"""

    state_index = 0
    color = Color.NONE
    blocks_movement = False
    blocks_vision = False
    holdable = True

    @classmethod
    def can_be_represented_in_state(cls) -> bool:
        return True

    @classmethod
    def num_states(cls) -> int:
        return 1

    def __repr__(self):
        return 'Gem()'


# --------------------------------------------------------------------------
# independent reference model
# --------------------------------------------------------------------------

# clockwise numbering of orientations
ORI_INDEX = {'FORWARD': 0, 'RIGHT': 1, 'BACKWARD': 2, 'LEFT': 3}
ORI_NAME = {v: k for k, v in ORI_INDEX.items()}
ORI_DELTA = {0: (-1, 0), 1: (0, 1), 2: (1, 0), 3: (0, -1)}
MOVE_DIR = {
    'MOVE_FORWARD': 0,
    'MOVE_RIGHT': 1,
    'MOVE_BACKWARD': 2,
    'MOVE_LEFT': 3,
}
HOLDABLE_KINDS = {'Key', 'Gem'}
SCENERY_KINDS = {'Wall', 'Exit', 'Door', 'Telepod', 'Beacon'}


class Rec:
    """record describing one object (identity + value)"""

    __slots__ = ('ref', 'kind', 'color', 'door', 'content')

    def __init__(self, ref, kind, color, door, content):
        self.ref = ref  # library object, or None for a to-be-created object
        self.kind = kind
        self.color = color
        self.door = door
        self.content = content  # Rec or None

    def value(self):
        return (
            self.kind,
            self.color,
            self.door,
            None if self.content is None else self.content.value(),
        )

    def conserved_value(self):
        # door status may change;  type, colour and content may not
        return (
            self.kind,
            self.color,
            None if self.content is None else self.content.conserved_value(),
        )


def describe(obj) -> Rec:
    kind = type(obj).__name__
    return Rec(
        obj,
        kind,
        obj.color.name,
        obj.state.name if kind == 'Door' else None,
        describe(obj.content) if kind == 'Box' else None,
    )


def fresh(kind) -> Rec:
    return Rec(None, kind, 'NONE', None, None)


class Model:
    def __init__(self, state: State):
        self.h = len(state.grid.objects)
        self.w = len(state.grid.objects[0])
        self.cells = [
            [describe(state.grid.objects[y][x]) for x in range(self.w)]
            for y in range(self.h)
        ]
        self.pos = (state.agent.position.y, state.agent.position.x)
        self.ori = ORI_INDEX[state.agent.orientation.name]
        self.held = describe(state.agent.grid_object)
        # keep every pre-existing object alive (so that ids are not reused)
        self.keep = [r.ref for row in self.cells for r in row] + [self.held.ref]
        self.old_ids = {id(ref) for ref in self.keep}

    # ---- helpers
    def inside(self, p):
        return 0 <= p[0] < self.h and 0 <= p[1] < self.w

    def front(self):
        dy, dx = ORI_DELTA[self.ori]
        return (self.pos[0] + dy, self.pos[1] + dx)

    @staticmethod
    def blocks(rec):
        if rec.kind in ('Wall', 'Box'):
            return True
        if rec.kind == 'Door':
            return rec.door != 'OPEN'
        return False

    # ---- reference dynamics
    def move_agent(self, action, rng):
        if action not in MOVE_DIR:
            return
        dy, dx = ORI_DELTA[(self.ori + MOVE_DIR[action]) % 4]
        p = (self.pos[0] + dy, self.pos[1] + dx)
        if self.inside(p) and not self.blocks(self.cells[p[0]][p[1]]):
            self.pos = p

    def turn_agent(self, action, rng):
        if action == 'TURN_LEFT':
            self.ori = (self.ori + 3) % 4
        elif action == 'TURN_RIGHT':
            self.ori = (self.ori + 1) % 4

    def pickndrop(self, action, rng):
        if action != 'PICK_N_DROP':
            return
        p = self.front()
        if not self.inside(p):
            return
        there = self.cells[p[0]][p[1]]
        holding = self.held.kind != 'NoneGridObject'
        if there.kind in HOLDABLE_KINDS:
            # pick (leaving floor) or swap
            self.cells[p[0]][p[1]] = self.held if holding else fresh('Floor')
            self.held = there
        elif there.kind == 'Floor':
            # drop (or the empty-handed no-op, which refreshes the floor)
            self.cells[p[0]][p[1]] = self.held if holding else fresh('Floor')
            self.held = fresh('NoneGridObject')
        # anything else: untouched

    def move_obstacles(self, action, rng):
        obstacles = [
            (y, x)
            for y in range(self.h)
            for x in range(self.w)
            if self.cells[y][x].kind == 'MovingObstacle'
        ]
        for (y, x) in obstacles:
            free = []
            for q in ((y - 1, x), (y, x + 1), (y + 1, x), (y, x - 1)):
                if self.inside(q) and self.cells[q[0]][q[1]].kind == 'Floor':
                    free.append(q)
            if len(free) == 0:
                continue  # no random draw at all
            qy, qx = free[int(rng.choice(len(free)))]
            a, b = self.cells[y][x], self.cells[qy][qx]
            self.cells[y][x], self.cells[qy][qx] = b, a

    def actuate_door(self, action, rng):
        if action != 'ACTUATE':
            return
        p = self.front()
        if not self.inside(p):
            return
        there = self.cells[p[0]][p[1]]
        if there.kind != 'Door':
            return
        if there.door == 'CLOSED':
            there.door = 'OPEN'
        elif there.door == 'LOCKED':
            if self.held.kind == 'Key' and self.held.color == there.color:
                there.door = 'OPEN'

    def actuate_box(self, action, rng):
        if action != 'ACTUATE':
            return
        p = self.front()
        if not self.inside(p):
            return
        there = self.cells[p[0]][p[1]]
        if there.kind == 'Box':
            self.cells[p[0]][p[1]] = there.content

    def teleport(self, action, rng):
        here = self.cells[self.pos[0]][self.pos[1]]
        if here.kind != 'Telepod':
            return
        others = [
            (y, x)
            for y in range(self.h)
            for x in range(self.w)
            if (y, x) != self.pos
            and self.cells[y][x].kind == 'Telepod'
            and self.cells[y][x].color == here.color
        ]
        if others:
            self.pos = others[int(rng.choice(len(others)))]

    # ---- comparison with the library state
    def check_rec(self, rec, obj, where, by_identity):
        actual = describe(obj)
        assert actual.value() == rec.value(), (where, actual.value(), rec.value())
        if not by_identity:
            return
        if rec.ref is not None:
            assert obj is rec.ref, (where, 'object should have been moved, not copied')
            if rec.content is not None:
                self.check_rec(rec.content, obj.content, where, True)
        else:
            assert id(obj) not in self.old_ids, (where, 'fresh object expected')

    def verify(self, state: State, by_identity=True):
        assert len(state.grid.objects) == self.h
        assert state.grid.shape.height == self.h
        assert state.grid.shape.width == self.w
        for y in range(self.h):
            assert len(state.grid.objects[y]) == self.w
            for x in range(self.w):
                self.check_rec(
                    self.cells[y][x], state.grid.objects[y][x], (y, x), by_identity
                )
        self.check_rec(self.held, state.agent.grid_object, 'held', by_identity)
        assert (state.agent.position.y, state.agent.position.x) == self.pos
        assert state.agent.orientation.name == ORI_NAME[self.ori]
        if by_identity:
            # no aliasing between cells / hand
            ids = [id(o) for row in state.grid.objects for o in row]
            ids.append(id(state.agent.grid_object))
            assert len(ids) == len(set(ids)), 'aliased objects'


# --------------------------------------------------------------------------
# explicit conservation invariant (independent of the model above)
# --------------------------------------------------------------------------


def inventory(state: State):
    """multiset of conserved values of non-floor grid objects + held item,
    the set of their identities, and the placement of scenery"""
    values = collections.Counter()
    ids = set()
    scenery = {}
    for y, row in enumerate(state.grid.objects):
        for x, obj in enumerate(row):
            rec = describe(obj)
            if rec.kind != 'Floor':
                values[rec.conserved_value()] += 1
                ids.add(id(obj))
            if rec.kind in SCENERY_KINDS:
                scenery[(y, x)] = id(obj)
    held = describe(state.agent.grid_object)
    if held.kind != 'NoneGridObject':
        values[held.conserved_value()] += 1
        ids.add(id(state.agent.grid_object))
    return values, ids, scenery


def check_conservation(before, after, opened_box, by_identity=True):
    """`opened_box` is the (library) Box object which is expected to have been
    opened by this step, or None"""
    values0, ids0, scenery0 = before
    values1, ids1, scenery1 = after
    values0 = collections.Counter(values0)
    ids0 = set(ids0)
    if opened_box is not None:
        rec = describe(opened_box)
        values0[rec.conserved_value()] -= 1
        ids0.discard(id(opened_box))
        if rec.content.kind != 'Floor':
            values0[rec.content.conserved_value()] += 1
            ids0.add(id(opened_box.content))
        if rec.content.kind in SCENERY_KINDS:
            # scenery revealed from a box: appears where the box was
            scenery1 = {
                p: i for p, i in scenery1.items() if i != id(opened_box.content)
            }
    values0 = +values0
    assert values0 == +values1, ('multiset not conserved', values0, values1)
    if by_identity:
        assert ids0 == ids1, 'identities not conserved'
        assert scenery0 == scenery1, 'scenery moved'
    else:
        assert set(scenery0) == set(scenery1), 'scenery moved'


# --------------------------------------------------------------------------
# building blocks
# --------------------------------------------------------------------------

ORIENTATIONS = [
    Orientation.FORWARD,
    Orientation.RIGHT,
    Orientation.BACKWARD,
    Orientation.LEFT,
]
ACTIONS = list(Action)
COLORS = [Color.RED, Color.GREEN, Color.BLUE, Color.YELLOW]

OBJECT_MAKERS = {
    'floor': lambda: Floor(),
    'wall': lambda: Wall(),
    'exit': lambda: Exit(),
    'exit_red': lambda: Exit(Color.RED),
    'door_open_red': lambda: Door(Door.Status.OPEN, Color.RED),
    'door_closed_red': lambda: Door(Door.Status.CLOSED, Color.RED),
    'door_locked_red': lambda: Door(Door.Status.LOCKED, Color.RED),
    'door_locked_green': lambda: Door(Door.Status.LOCKED, Color.GREEN),
    'door_closed_yellow': lambda: Door(Door.Status.CLOSED, Color.YELLOW),
    'key_red': lambda: Key(Color.RED),
    'key_green': lambda: Key(Color.GREEN),
    'key_yellow': lambda: Key(Color.YELLOW),
    'gem': lambda: Gem(),
    'obstacle': lambda: MovingObstacle(),
    'box_floor': lambda: Box(Floor()),
    'box_key': lambda: Box(Key(Color.RED)),
    'box_box_key': lambda: Box(Box(Key(Color.GREEN))),
    'box_wall': lambda: Box(Wall()),
    'box_door': lambda: Box(Door(Door.Status.LOCKED, Color.RED)),
    'box_obstacle': lambda: Box(MovingObstacle()),
    'telepod_red': lambda: Telepod(Color.RED),
    'telepod_blue': lambda: Telepod(Color.BLUE),
    'beacon': lambda: Beacon(Color.GREEN),
}
HELD_MAKERS = {
    'none': lambda: None,
    'none_obj': lambda: NoneGridObject(),
    'key_red': lambda: Key(Color.RED),
    'key_green': lambda: Key(Color.GREEN),
    'gem': lambda: Gem(),
}

TRANSITIONS = {
    'move_agent': tf.move_agent,
    'turn_agent': tf.turn_agent,
    'pickndrop': tf.pickndrop,
    'move_obstacles': tf.move_obstacles,
    'actuate_door': tf.actuate_door,
    'actuate_box': tf.actuate_box,
    'teleport': tf.teleport,
}


def make_state(rows, pos, orientation, held):
    grid = Grid([list(row) for row in rows])
    agent = Agent(Position(pos[0], pos[1]), orientation, held)
    return State(grid, agent)


def rng_state(rng):
    s = rng.bit_generator.state
    return (s['state']['state'], s['state']['inc'], s['has_uint32'], s['uinteger'])


STEPS = collections.Counter()


def run_step(state, names, action, seed, use_global_rng=False):
    """runs transition functions `names` (in order) on `state` in place, and
    checks the result against the reference model and the invariant"""
    model = Model(state)
    before = inventory(state)

    ref_rng = np.random.default_rng(seed)
    if use_global_rng:
        lib_rng = reset_gv_rng(seed)
        rng_arg = None
    else:
        lib_rng = np.random.default_rng(seed)
        rng_arg = lib_rng

    for name in names:
        # which box is about to be opened (for the invariant)?
        opened = None
        if name == 'actuate_box' and action is Action.ACTUATE:
            p = model.front()
            if model.inside(p) and model.cells[p[0]][p[1]].kind == 'Box':
                opened = state.grid.objects[p[0]][p[1]]
                assert isinstance(opened, Box)
        result = TRANSITIONS[name](state, action, rng=rng_arg)
        assert result is None
        getattr(model, name)(action.name, ref_rng)
        model.verify(state)
        after = inventory(state)
        check_conservation(before, after, opened)
        before = after
        STEPS[name] += 1

    assert rng_state(lib_rng) == rng_state(ref_rng), 'random draws differ'
    return model


def random_rows(pyrng, h, w, names):
    return [[OBJECT_MAKERS[pyrng.choice(names)]() for _ in range(w)] for _ in range(h)]


# --------------------------------------------------------------------------
# section 1: exhaustive single steps around the agent
# --------------------------------------------------------------------------


def section_front_exhaustive(function_names, shapes, fillers_per_case):
    pyrng = random.Random(1234)
    names_all = sorted(OBJECT_MAKERS)
    for (h, w) in shapes:
        for y, x in itertools.product(range(h), range(w)):
            for ori_i, orientation in enumerate(ORIENTATIONS):
                dy, dx = ORI_DELTA[ori_i]
                fy, fx = y + dy, x + dx
                front_inside = 0 <= fy < h and 0 <= fx < w
                front_names = names_all if front_inside else [None]
                for front_name in front_names:
                    for held_name in sorted(HELD_MAKERS):
                        for _ in range(fillers_per_case):
                            for action in ACTIONS:
                                rows = random_rows(pyrng, h, w, names_all)
                                if front_inside:
                                    rows[fy][fx] = OBJECT_MAKERS[front_name]()
                                state = make_state(
                                    rows, (y, x), orientation, HELD_MAKERS[held_name]()
                                )
                                run_step(
                                    state,
                                    function_names,
                                    action,
                                    seed=pyrng.randrange(10 ** 6),
                                )


# --------------------------------------------------------------------------
# section 2: moving obstacles
# --------------------------------------------------------------------------


def section_obstacles_exhaustive(shapes, seeds):
    alphabet = ['floor', 'obstacle', 'wall']
    for (h, w) in shapes:
        for combo in itertools.product(alphabet, repeat=h * w):
            for seed in seeds:
                rows = [
                    [OBJECT_MAKERS[combo[y * w + x]]() for x in range(w)]
                    for y in range(h)
                ]
                state = make_state(rows, (0, 0), Orientation.FORWARD, None)
                run_step(
                    state,
                    ['move_obstacles'],
                    ACTIONS[seed % len(ACTIONS)],
                    seed=seed,
                    use_global_rng=(seed % 3 == 0),
                )


def section_obstacles_random(n, max_side):
    pyrng = random.Random(99)
    pool = ['floor'] * 6 + ['obstacle'] * 4 + sorted(OBJECT_MAKERS)
    for k in range(n):
        h, w = pyrng.randint(1, max_side), pyrng.randint(1, max_side)
        rows = random_rows(pyrng, h, w, pool)
        state = make_state(
            rows,
            (pyrng.randrange(h), pyrng.randrange(w)),
            pyrng.choice(ORIENTATIONS),
            HELD_MAKERS[pyrng.choice(sorted(HELD_MAKERS))](),
        )
        # several consecutive steps on the same state
        for t in range(4):
            run_step(
                state,
                ['move_obstacles'],
                pyrng.choice(ACTIONS),
                seed=pyrng.randrange(10 ** 6),
                use_global_rng=(k % 5 == 0),
            )


# --------------------------------------------------------------------------
# section 3: Grid.swap
# --------------------------------------------------------------------------


def section_swap():
    pyrng = random.Random(5)
    names_all = sorted(OBJECT_MAKERS)
    for (h, w) in [(1, 1), (1, 3), (2, 2), (3, 2), (3, 4)]:
        cells = list(itertools.product(range(h), range(w)))
        for p, q in itertools.product(cells, repeat=2):
            for as_position in (True, False):
                rows = random_rows(pyrng, h, w, names_all)
                grid = Grid(rows)
                snapshot = [list(row) for row in grid.objects]
                expected = [list(row) for row in snapshot]
                expected[p[0]][p[1]], expected[q[0]][q[1]] = (
                    snapshot[q[0]][q[1]],
                    snapshot[p[0]][p[1]],
                )
                if as_position:
                    out = grid.swap(Position(*p), Position(*q))
                else:
                    out = grid.swap(p, q)
                assert out is None
                for y, x in cells:
                    assert grid.objects[y][x] is expected[y][x], (p, q, y, x)
                STEPS['swap'] += 1
        # positions outside of the grid: error, and nothing has been written
        for p, q in [((0, 0), (h, 0)), ((h, 0), (0, 0)), ((0, w), (h, w)), ((0, 0), (0, w))]:
            rows = random_rows(pyrng, h, w, names_all)
            grid = Grid(rows)
            snapshot = [list(row) for row in grid.objects]
            try:
                grid.swap(Position(*p), Position(*q))
            except IndexError:
                pass
            else:
                assert False, 'IndexError expected'
            for y, x in cells:
                assert grid.objects[y][x] is snapshot[y][x]
            STEPS['swap_error'] += 1


# --------------------------------------------------------------------------
# section 4: compositions (chain) over long random histories
# --------------------------------------------------------------------------


def section_chains(n_histories, n_steps, max_side):
    pyrng = random.Random(2024)
    names = sorted(TRANSITIONS)
    pool = ['floor'] * 10 + sorted(OBJECT_MAKERS)
    for k in range(n_histories):
        h, w = pyrng.randint(1, max_side), pyrng.randint(1, max_side)
        rows = random_rows(pyrng, h, w, pool)
        state = make_state(
            rows,
            (pyrng.randrange(h), pyrng.randrange(w)),
            pyrng.choice(ORIENTATIONS),
            HELD_MAKERS[pyrng.choice(sorted(HELD_MAKERS))](),
        )
        order = pyrng.sample(names, pyrng.randint(1, len(names)))
        if k % 2 == 0:
            chained = tf.factory(
                'chain',
                transition_functions=[tf.factory(name) for name in order],
            )
        else:
            chained = None

        for t in range(n_steps):
            action = pyrng.choice(ACTIONS)
            seed = pyrng.randrange(10 ** 6)
            if chained is None:
                run_step(state, order, action, seed)
                continue

            # through `chain` (+ transition_with_copy every other step)
            model = Model(state)
            before = inventory(state)
            ref_rng = np.random.default_rng(seed)
            lib_rng = np.random.default_rng(seed)
            opened = []
            for name in order:
                if name == 'actuate_box' and action is Action.ACTUATE:
                    p = model.front()
                    if model.inside(p) and model.cells[p[0]][p[1]].kind == 'Box':
                        opened.append(model.cells[p[0]][p[1]].ref)
                getattr(model, name)(action.name, ref_rng)
            if t % 2 == 0:
                chained(state, action, rng=lib_rng)
                model.verify(state)
                if len(opened) <= 1 and all(o is not None for o in opened):
                    check_conservation(
                        before, inventory(state), opened[0] if opened else None
                    )
            else:
                next_state = tf.transition_with_copy(chained, state, action, rng=lib_rng)
                # the original is untouched ...
                Model(state)  # (still describable)
                values0, ids0, scenery0 = inventory(state)
                assert (values0, ids0, scenery0) == before
                # ... and the copy agrees with the model by value
                model.verify(next_state, by_identity=False)
                state = next_state
            assert rng_state(lib_rng) == rng_state(ref_rng), 'random draws differ'
            STEPS['chain'] += 1


# --------------------------------------------------------------------------
# section 5: histories of the shipped key-door and obstacle environments
# --------------------------------------------------------------------------

KEYDOOR = {
    'state_space': {
        'objects': ['Wall', 'Floor', 'Exit', 'Door', 'Key'],
        'colors': ['NONE', 'YELLOW'],
    },
    'observation_space': {
        'objects': ['Wall', 'Floor', 'Exit', 'Door', 'Key'],
        'colors': ['NONE', 'YELLOW'],
    },
    'reset_function': {'name': 'keydoor', 'shape': [7, 7]},
    'transition_functions': [
        {'name': 'move_agent'},
        {'name': 'turn_agent'},
        {'name': 'actuate_door'},
        {'name': 'pickndrop'},
    ],
    'reward_functions': [
        {'name': 'reach_exit', 'reward_on': 5.0, 'reward_off': 0.0},
        {'name': 'living_reward', 'reward': -0.05},
    ],
    'observation_function': {
        'name': 'partially_occluded',
        'area': [[-6, 0], [-3, 3]],
    },
    'terminating_function': {'name': 'reach_exit'},
}

OBSTACLES = {
    'state_space': {
        'objects': ['Wall', 'Floor', 'Exit', 'MovingObstacle'],
        'colors': ['NONE'],
    },
    'action_space': [
        'MOVE_FORWARD',
        'MOVE_BACKWARD',
        'MOVE_LEFT',
        'MOVE_RIGHT',
        'TURN_LEFT',
        'TURN_RIGHT',
    ],
    'observation_space': {
        'objects': ['Wall', 'Floor', 'Exit', 'MovingObstacle'],
        'colors': ['NONE'],
    },
    'reset_function': {
        'name': 'dynamic_obstacles',
        'shape': [7, 7],
        'num_obstacles': 2,
        'random_agent': False,
    },
    'transition_functions': [
        {'name': 'move_agent'},
        {'name': 'turn_agent'},
        {'name': 'move_obstacles'},
    ],
    'reward_functions': [
        {'name': 'reach_exit', 'reward_on': 5.0, 'reward_off': 0.0},
        {'name': 'bump_moving_obstacle', 'reward': -1.0},
        {'name': 'living_reward', 'reward': -0.05},
    ],
    'observation_function': {
        'name': 'partially_occluded',
        'area': [[-6, 0], [-3, 3]],
    },
    'terminating_function': {
        'name': 'reduce_any',
        'terminating_functions': [
            {'name': 'reach_exit'},
            {'name': 'bump_moving_obstacle'},
            {'name': 'bump_into_wall'},
        ],
    },
}


def copy_config(data):
    if isinstance(data, dict):
        return {k: copy_config(v) for k, v in data.items()}
    if isinstance(data, list):
        return [copy_config(v) for v in data]
    return data


def section_env_histories(config, shapes, order, actions, seeds, n_steps, extra):
    from gym_gridverse.envs.yaml.factory import factory_env_from_data

    pyrng = random.Random(7)
    for shape in shapes:
        data = copy_config(config)
        data['reset_function']['shape'] = list(shape)
        data['reset_function'].update(extra.get(shape, {}))
        env = factory_env_from_data(data)
        for seed in seeds:
            env.set_seed(seed)
            env.reset()
            initial = inventory(env.state)[0]
            for t in range(n_steps):
                state = env.state
                action = pyrng.choice(actions)
                model = Model(state)
                before = inventory(state)
                lib_rng = getattr(env, '_rng', None)
                if lib_rng is not None:
                    ref_rng = np.random.default_rng(0)
                    ref_rng.bit_generator.state = lib_rng.bit_generator.state
                    for name in order:
                        getattr(model, name)(action.name, ref_rng)
                _, done = env.step(action)
                next_state = env.state
                after = inventory(next_state)
                # the stepped-from state object is never modified
                assert inventory(state) == before
                check_conservation(before, after, None, by_identity=False)
                assert +after[0] == +initial, 'objects not conserved in history'
                if lib_rng is not None:
                    model.verify(next_state, by_identity=False)
                    assert rng_state(lib_rng) == rng_state(ref_rng)
                STEPS['env:' + config['reset_function']['name']] += 1
                if done:
                    env.reset()
                    initial = inventory(env.state)[0]


# --------------------------------------------------------------------------


def main():
    deep = FOCUS

    # exhaustive front-of-agent single steps
    small = [(1, 1), (1, 2), (2, 1), (2, 2)]
    big = [(3, 3), (2, 4)]
    section_front_exhaustive(
        ['pickndrop'], small + (big if deep == 'pickndrop' else []), 2 if deep == 'pickndrop' else 1
    )
    section_front_exhaustive(
        ['actuate_door'], small + (big if deep == 'actuate' else []), 1
    )
    section_front_exhaustive(
        ['actuate_box'], small + (big if deep == 'actuate' else []), 1
    )
    # typical two/three function compositions used by shipped environments
    section_front_exhaustive(['actuate_door', 'actuate_box', 'pickndrop'], small, 1)
    section_front_exhaustive(['pickndrop', 'actuate_box', 'actuate_door'], small, 1)

    # obstacles
    if deep == 'move_obstacles':
        section_obstacles_exhaustive([(1, 1), (1, 2), (1, 3), (3, 1), (2, 2), (2, 3), (3, 3)], [0, 1])
        section_obstacles_exhaustive([(1, 4), (2, 2), (2, 3)], range(2, 8))
        section_obstacles_random(3000, 7)
    else:
        section_obstacles_exhaustive([(1, 1), (1, 3), (2, 2), (2, 3)], [0, 1, 2])
        section_obstacles_random(600, 6)

    section_swap()

    section_chains(400, 30, 5)

    actions_all = list(Action)
    actions_obst = [Action[name] for name in OBSTACLES['action_space']]
    section_env_histories(
        KEYDOOR,
        [(7, 7), (5, 5), (9, 9), (4, 6)],
        ['move_agent', 'turn_agent', 'actuate_door', 'pickndrop'],
        actions_all,
        range(6),
        120,
        {},
    )
    section_env_histories(
        OBSTACLES,
        [(7, 7), (5, 5), (6, 9)],
        ['move_agent', 'turn_agent', 'move_obstacles'],
        actions_obst,
        range(6),
        120,
        {(6, 9): {'num_obstacles': 9, 'random_agent': True}},
    )

    for name in sorted(STEPS):
        print(f'{name:24s} {STEPS[name]:8d} checked steps')
    print('OK: all checks passed')


if __name__ == '__main__':
    main()
