"""Check program for property C18 (geometry is a consistent algebra of quarter
turns and rigid motions).

Run as:  cd /tmp/wt3-C18 && /venv/bin/python -W ignore _seed/<X>/demo.py

All reference values are computed by an independent re-implementation inside
this file (quarter turns as integers mod 4, rotations as 2x2 integer matrices,
grids as dictionaries of cells); the library is only used as the system under
test.  The program exits 0 iff every assertion holds.
"""
import itertools as itt
import os
import random
import sys

sys.path.insert(0, os.getcwd())

from gym_gridverse.action import Action  # noqa: E402
from gym_gridverse.agent import Agent  # noqa: E402
from gym_gridverse.envs.utils import get_next_position  # noqa: E402
from gym_gridverse.geometry import (  # noqa: E402
    Area,
    Orientation,
    Position,
    Transform,
)
from gym_gridverse.grid import Grid  # noqa: E402
from gym_gridverse.grid_object import (  # noqa: E402
    Color,
    Floor,
    Hidden,
    Key,
    Wall,
)

FOCUS = 'A'  # which refactoring this copy accompanies (documentation only)

# --------------------------------------------------------------------------
# independent reference model
# --------------------------------------------------------------------------

O = Orientation
ORIENTATIONS = [O.FORWARD, O.RIGHT, O.BACKWARD, O.LEFT]

# number of clockwise quarter turns
TURNS = {O.FORWARD: 0, O.RIGHT: 1, O.BACKWARD: 2, O.LEFT: 3}
FROM_TURNS = {v: k for k, v in TURNS.items()}

# one clockwise quarter turn, acting on column vectors (y, x), y pointing down:
# forward (-1, 0) -> right (0, 1) -> backward (1, 0) -> left (0, -1)
QUARTER = ((0, 1), (-1, 0))
IDENTITY = ((1, 0), (0, 1))


def matmul(a, b):
    return tuple(
        tuple(sum(a[i][k] * b[k][j] for k in range(2)) for j in range(2))
        for i in range(2)
    )


def matpow(a, n):
    result = IDENTITY
    for _ in range(n):
        result = matmul(result, a)
    return result


MATRICES = {o: matpow(QUARTER, TURNS[o]) for o in ORIENTATIONS}


def ref_compose(a, b):
    return FROM_TURNS[(TURNS[a] + TURNS[b]) % 4]


def ref_inverse(a):
    return FROM_TURNS[(-TURNS[a]) % 4]


def ref_rotate(o, yx):
    m = MATRICES[o]
    y, x = yx
    return (m[0][0] * y + m[0][1] * x, m[1][0] * y + m[1][1] * x)


def ref_pose_act(pose, yx):
    """pose = ((ty, tx), orientation)"""
    (ty, tx), o = pose
    ry, rx = ref_rotate(o, yx)
    return (ty + ry, tx + rx)


def ref_pose_compose(p, q):
    (_, po) = p
    (qt, qo) = q
    return (ref_pose_act(p, qt), ref_compose(po, qo))


def ref_pose_inverse(p):
    (t, o) = p
    inv = ref_inverse(o)
    ry, rx = ref_rotate(inv, t)
    return ((-ry, -rx), inv)


def area_cells(ys, xs):
    return {
        (y, x)
        for y in range(ys[0], ys[1] + 1)
        for x in range(xs[0], xs[1] + 1)
    }


# --------------------------------------------------------------------------
# helpers
# --------------------------------------------------------------------------

CHECKS = 0


def check(condition, *info):
    global CHECKS
    CHECKS += 1
    if not condition:
        raise AssertionError(repr(info))


def yx(position):
    check(type(position) is Position, position)
    return (position.y, position.x)


def pose(transform):
    check(type(transform) is Transform, transform)
    return (yx(transform.position), transform.orientation)


def cells(area):
    check(type(area) is Area, area)
    got = {yx(p) for p in area.positions()}
    check(got == area_cells(area.ys, area.xs), area)
    return got


def raises(exception_type, f):
    try:
        f()
    except exception_type:
        return True
    except Exception:  # pylint: disable=broad-except
        return False
    return False


rng = random.Random(18)

SMALL = range(-3, 4)
COORDS = [(y, x) for y in SMALL for x in SMALL]
BIG = [
    (10**12, -(10**12)),
    (-(2**70), 2**65 + 1),
    (0, 10**30),
    (-7, 123456789),
]
for _ in range(60):
    BIG.append((rng.randint(-(10**9), 10**9), rng.randint(-(10**9), 10**9)))
ALL_COORDS = COORDS + BIG


# --------------------------------------------------------------------------
# 1. orientations: cyclic group of quarter turns, FORWARD identity
# --------------------------------------------------------------------------


def test_orientation_group():
    check(O.F is O.FORWARD and O.B is O.BACKWARD)
    check(O.L is O.LEFT and O.R is O.RIGHT)
    check(len(list(Orientation)) == 4)

    for a in ORIENTATIONS:
        check(a * O.FORWARD is a and O.FORWARD * a is a, a)
        check(-a is ref_inverse(a), a)
        check(a * -a is O.FORWARD and -a * a is O.FORWARD, a)
        check(-(-a) is a, a)
        check(a * a * a * a is O.FORWARD, a)

    for a, b in itt.product(ORIENTATIONS, repeat=2):
        check(a * b is ref_compose(a, b), a, b)
        check(a * b is b * a, a, b)
        check(-(a * b) is -b * -a, a, b)
        # __rmul__ is __mul__
        check(a.__rmul__(b) is a * b, a, b)

    for a, b, c in itt.product(ORIENTATIONS, repeat=3):
        check((a * b) * c is a * (b * c), a, b, c)

    # generator
    check(O.RIGHT * O.RIGHT is O.BACKWARD)
    check(O.RIGHT * O.RIGHT * O.RIGHT is O.LEFT)
    check(O.LEFT * O.LEFT is O.BACKWARD)
    check(-O.LEFT is O.RIGHT and -O.RIGHT is O.LEFT)
    check(-O.FORWARD is O.FORWARD and -O.BACKWARD is O.BACKWARD)

    # unsupported operands
    for junk in [3, 'F', None, (0, 1), 1.5, [O.F]]:
        check(raises(TypeError, lambda: O.RIGHT * junk), junk)
        check(raises(TypeError, lambda: junk * O.RIGHT), junk)
        check(O.RIGHT.__mul__(junk) is NotImplemented, junk)
        check(O.RIGHT.__rmul__(junk) is NotImplemented, junk)


# --------------------------------------------------------------------------
# 2. orientations act linearly and isometrically on positions
# --------------------------------------------------------------------------


def test_orientation_on_positions():
    for o in ORIENTATIONS:
        for c in ALL_COORDS:
            p = Position(*c)
            q = o * p
            check(yx(q) == ref_rotate(o, c), o, c)
            check(q is not p, o, c)  # always a fresh instance
            check(yx(p * o) == ref_rotate(o, c), o, c)  # __rmul__
            check(yx(p) == c)  # operand untouched
            # isometry
            check(q.y**2 + q.x**2 == c[0] ** 2 + c[1] ** 2, o, c)
            check(
                Position.manhattan_distance(q, Position(0, 0))
                == abs(c[0]) + abs(c[1]),
                o,
                c,
            )
            # inverse
            check(-o * q == p, o, c)
            # negation commutes with rotation
            check(o * -p == -(o * p), o, c)

    check(yx(O.FORWARD * Position(2, 5)) == (2, 5))
    check(yx(O.BACKWARD * Position(2, 5)) == (-2, -5))
    check(yx(O.RIGHT * Position(2, 5)) == (5, -2))
    check(yx(O.LEFT * Position(2, 5)) == (-5, 2))

    # unit vectors
    expected_units = {
        O.FORWARD: (-1, 0),
        O.RIGHT: (0, 1),
        O.BACKWARD: (1, 0),
        O.LEFT: (0, -1),
    }
    for o in ORIENTATIONS:
        check(yx(Position.from_orientation(o)) == expected_units[o], o)
        check(ref_rotate(o, (-1, 0)) == expected_units[o], o)
        check(o * Position.from_orientation(O.FORWARD) == Position(*expected_units[o]))
        for a in ORIENTATIONS:
            check(
                a * Position.from_orientation(o)
                == Position.from_orientation(a * o),
                a,
                o,
            )
    check(raises(TypeError, lambda: Position.from_orientation(0)))
    check(raises(TypeError, lambda: Position.from_orientation('FORWARD')))

    # linearity and group action
    pairs = [(rng.choice(ALL_COORDS), rng.choice(ALL_COORDS)) for _ in range(400)]
    pairs += list(itt.product(COORDS[::5], repeat=2))
    for o in ORIENTATIONS:
        for c, d in pairs:
            p, q = Position(*c), Position(*d)
            check(o * (p + q) == o * p + o * q, o, c, d)
            check(o * (p - q) == o * p - o * q, o, c, d)
            check(
                Position.manhattan_distance(o * p, o * q)
                == Position.manhattan_distance(p, q)
                == abs(c[0] - d[0]) + abs(c[1] - d[1]),
                o,
                c,
                d,
            )
            if abs(c[0]) < 10**6 and abs(d[0]) < 10**6 and abs(c[1]) < 10**6 and abs(d[1]) < 10**6:
                check(
                    Position.euclidean_distance(o * p, o * q)
                    == Position.euclidean_distance(p, q),
                    o,
                    c,
                    d,
                )
    for a, b in itt.product(ORIENTATIONS, repeat=2):
        for c in ALL_COORDS:
            p = Position(*c)
            check((a * b) * p == a * (b * p), a, b, c)
            check(yx(a * (b * p)) == ref_rotate(ref_compose(a, b), c), a, b, c)


# --------------------------------------------------------------------------
# 3. areas: transforming an area transforms exactly its set of positions
# --------------------------------------------------------------------------


def small_areas():
    for y0, x0 in itt.product(range(-3, 3), repeat=2):
        for h, w in itt.product(range(1, 4), repeat=2):
            yield (y0, y0 + h - 1), (x0, x0 + w - 1)


def big_areas():
    for _ in range(80):
        y0 = rng.randint(-(10**15), 10**15)
        x0 = rng.randint(-(10**15), 10**15)
        yield (y0, y0 + rng.randint(0, 5)), (x0, x0 + rng.randint(0, 5))
    yield (-(2**80), -(2**80) + 2), (2**90, 2**90)


def test_areas():
    areas = list(small_areas()) + list(big_areas())
    translations = [(0, 0), (1, -2), (-5, 7), (10**20, -(10**21))]

    for ys, xs in areas:
        area = Area(ys, xs)
        reference = area_cells(ys, xs)
        check(cells(area) == reference)
        check(area.height * area.width == len(reference))

        for o in ORIENTATIONS:
            rotated = o * area
            check(rotated is not area)
            check(rotated.ys[0] <= rotated.ys[1] and rotated.xs[0] <= rotated.xs[1])
            check(type(rotated.ys) is tuple and type(rotated.xs) is tuple)
            check(cells(rotated) == {ref_rotate(o, c) for c in reference}, o, ys, xs)
            check(area * o == rotated)  # __rmul__
            check(-o * rotated == area, o, ys, xs)
            check(area.ys == ys and area.xs == xs)  # operand untouched
            # consistent with acting position-wise through the library
            check(
                cells(rotated) == {yx(o * p) for p in area.positions()},
                o,
                ys,
                xs,
            )
            check(
                rotated == Area.from_positions([o * p for p in area.positions()]),
                o,
                ys,
                xs,
            )
            if o in (O.FORWARD, O.BACKWARD):
                check((rotated.height, rotated.width) == (area.height, area.width))
            else:
                check((rotated.height, rotated.width) == (area.width, area.height))

            for t in translations:
                transform = Transform(Position(*t), o)
                moved = transform * area
                check(
                    cells(moved) == {ref_pose_act((t, o), c) for c in reference},
                    t,
                    o,
                    ys,
                    xs,
                )
                check(area * transform == moved)
                check(-transform * moved == area, t, o, ys, xs)
                check(moved == Position(*t) + o * area)
                check(moved == o * area + Position(*t))

    for a, b in itt.product(ORIENTATIONS, repeat=2):
        for ys, xs in areas[::7]:
            area = Area(ys, xs)
            check((a * b) * area == a * (b * area), a, b, ys, xs)

    # explicit examples
    area = Area((1, 2), (3, 5))
    check(O.FORWARD * area == Area((1, 2), (3, 5)))
    check(O.BACKWARD * area == Area((-2, -1), (-5, -3)))
    check(O.RIGHT * area == Area((3, 5), (-2, -1)))
    check(O.LEFT * area == Area((-5, -3), (1, 2)))


# --------------------------------------------------------------------------
# 4. pose transforms: monoid with inverses acting on positions
# --------------------------------------------------------------------------


def test_transforms():
    translations = COORDS[::3] + BIG[:12]
    poses = [(t, o) for t in translations for o in ORIENTATIONS]
    identity = Transform(Position(0, 0), O.FORWARD)

    for t, o in poses:
        transform = Transform(Position(*t), o)
        check(pose(transform * identity) == (t, o))
        check(pose(identity * transform) == (t, o))
        check(transform * identity == transform == identity * transform)
        inverse = -transform
        check(pose(inverse) == ref_pose_inverse((t, o)), t, o)
        check(inverse * transform == identity, t, o)
        check(transform * inverse == identity, t, o)
        check(-inverse == transform, t, o)
        check(pose(transform) == (t, o))  # operand untouched
        check(inverse is not transform)
        check(hash(transform) == hash(Transform(Position(*t), o)))

        # on orientations
        for a in ORIENTATIONS:
            check(transform * a is ref_compose(o, a), t, o, a)
            check(a * transform is ref_compose(o, a), t, o, a)

        for c in COORDS[::2] + BIG[:6]:
            p = Position(*c)
            q = transform * p
            check(yx(q) == ref_pose_act((t, o), c), t, o, c)
            check(yx(p * transform) == ref_pose_act((t, o), c), t, o, c)
            check(inverse * q == p, t, o, c)
            check(q == Position(*t) + o * p)

    sample = [rng.choice(poses) for _ in range(40)]
    sample += [((0, 0), o) for o in ORIENTATIONS]
    for p, q in itt.product(sample, repeat=2):
        tp = Transform(Position(*p[0]), p[1])
        tq = Transform(Position(*q[0]), q[1])
        composed = tp * tq
        check(pose(composed) == ref_pose_compose(p, q), p, q)
        check(composed is not tp and composed is not tq)
        check(pose(tp) == p and pose(tq) == q)  # operands untouched
        check(-composed == -tq * -tp, p, q)
        for c in COORDS[::6] + BIG[:3]:
            x = Position(*c)
            check(composed * x == tp * (tq * x), p, q, c)
            check(
                yx(composed * x) == ref_pose_act(p, ref_pose_act(q, c)),
                p,
                q,
                c,
            )
        for a in ORIENTATIONS:
            check(composed * a is tp * (tq * a))

    triples = [tuple(rng.choice(poses) for _ in range(3)) for _ in range(600)]
    for p, q, r in triples:
        tp = Transform(Position(*p[0]), p[1])
        tq = Transform(Position(*q[0]), q[1])
        tr = Transform(Position(*r[0]), r[1])
        check((tp * tq) * tr == tp * (tq * tr), p, q, r)
        check(
            pose((tp * tq) * tr)
            == ref_pose_compose(ref_pose_compose(p, q), r)
            == ref_pose_compose(p, ref_pose_compose(q, r)),
            p,
            q,
            r,
        )

    transform = Transform(Position(1, 2), O.RIGHT)
    for junk in [3, 'x', None, (0, 1), 2.5]:
        check(raises(TypeError, lambda: transform * junk), junk)
        check(raises(TypeError, lambda: junk * transform), junk)
        check(transform.__mul__(junk) is NotImplemented, junk)

    # mutable pose: results are recomputed from current fields
    transform = Transform(Position(1, 2), O.RIGHT)
    transform.position = Position(-4, 9)
    transform.orientation = O.LEFT
    check(yx(transform * Position(3, 1)) == ref_pose_act(((-4, 9), O.LEFT), (3, 1)))
    check(pose(-transform) == ref_pose_inverse(((-4, 9), O.LEFT)))

    # Position.__add__ / __sub__ fallbacks
    check(raises(TypeError, lambda: Position(0, 0) + 1))
    check(raises(TypeError, lambda: 1 + Position(0, 0)))
    check(raises(TypeError, lambda: Position(0, 0) - 1))
    check(Position(0, 0).__add__(1) is NotImplemented)
    check(Position(1, 2) + Area((0, 1), (0, 1)) == Area((1, 2), (2, 3)))
    check(Area((0, 1), (0, 1)) + Position(1, 2) == Area((1, 2), (2, 3)))


# --------------------------------------------------------------------------
# 5. grids: rotation rearranges but preserves objects
# --------------------------------------------------------------------------


def make_grid(height, width):
    objects = []
    for y in range(height):
        row = []
        for x in range(width):
            kind = (3 * y + x) % 3
            if kind == 0:
                row.append(Floor())
            elif kind == 1:
                row.append(Wall())
            else:
                row.append(Key(Color.RED if (y + x) % 2 else Color.BLUE))
        objects.append(row)
    return Grid(objects)


def ref_rotated_cell(o, height, width, i, j):
    """cell of the source grid found at (i, j) of `o * grid`

    The grid content is rotated about its centre by the rotation which maps
    the viewer's frame with orientation `o` onto the forward frame, i.e., a
    source cell at offset d from the centre ends at offset rotate(-o, d).
    Computed with doubled coordinates to stay in the integers.
    """
    if o in (O.FORWARD, O.BACKWARD):
        new_height, new_width = height, width
    else:
        new_height, new_width = width, height
    # doubled offsets from the centre of the rotated grid
    dy, dx = 2 * i - (new_height - 1), 2 * j - (new_width - 1)
    sy, sx = ref_rotate(o, (dy, dx))
    y2, x2 = sy + (height - 1), sx + (width - 1)
    assert y2 % 2 == 0 and x2 % 2 == 0
    return y2 // 2, x2 // 2


def test_grids():
    shapes = [(h, w) for h in range(1, 7) for w in range(1, 7)]
    shapes += [(1, 13), (13, 1), (9, 4), (2, 11)]

    for height, width in shapes:
        grid = make_grid(height, width)
        source_rows = grid.objects
        source = {
            (y, x): grid.objects[y][x]
            for y in range(height)
            for x in range(width)
        }
        snapshot = [list(row) for row in grid.objects]

        for o in ORIENTATIONS:
            rotated = o * grid
            check(type(rotated) is Grid)
            if o in (O.FORWARD, O.BACKWARD):
                check(rotated.shape.as_tuple == (height, width), o)
            else:
                check(rotated.shape.as_tuple == (width, height), o)
            check(rotated.area == Area((0, rotated.shape.height - 1), (0, rotated.shape.width - 1)))
            check(type(rotated.objects) is list)
            check(all(type(row) is list for row in rotated.objects))
            check(all(len(row) == rotated.shape.width for row in rotated.objects))

            # exact arrangement, by identity
            for i in range(rotated.shape.height):
                for j in range(rotated.shape.width):
                    y, x = ref_rotated_cell(o, height, width, i, j)
                    check(rotated.objects[i][j] is source[y, x], o, height, width, i, j)
                    check(rotated[Position(i, j)] is source[y, x])
                    check(rotated[i, j] is source[y, x])

            # same objects, each exactly once
            got = sorted(id(obj) for row in rotated.objects for obj in row)
            check(got == sorted(id(obj) for obj in source.values()), o)

            # source untouched
            check(grid.objects is source_rows)
            check(all(a is b for r, s in zip(grid.objects, snapshot) for a, b in zip(r, s)))
            check([len(r) for r in grid.objects] == [width] * height)

            # aliasing behaviour: identity rotation shares the rows, the
            # others build new row lists
            if o is O.FORWARD:
                check(rotated is not grid)
                check(rotated.objects is grid.objects)
            else:
                check(rotated.objects is not grid.objects)
                check(
                    all(
                        new_row is not old_row
                        for new_row in rotated.objects
                        for old_row in grid.objects
                    )
                )

            # undone by the inverse rotation
            back = -o * rotated
            check(back.shape == grid.shape, o)
            check(
                all(
                    back.objects[y][x] is source[y, x]
                    for y in range(height)
                    for x in range(width)
                ),
                o,
            )
            check(back == grid and hash(back) == hash(grid))
            check(grid * o == rotated)  # __rmul__
            check(all(a is b for r, s in zip((grid * o).objects, rotated.objects) for a, b in zip(r, s)))

        for a, b in itt.product(ORIENTATIONS, repeat=2):
            one = (a * b) * grid
            two = a * (b * grid)
            check(one.shape == two.shape, a, b)
            check(
                all(
                    p is q
                    for r, s in zip(one.objects, two.objects)
                    for p, q in zip(r, s)
                ),
                a,
                b,
            )

    # docstring example
    letters = [[Key(Color.RED) for _ in range(3)] for _ in range(3)]
    (A, B, C), (D, E, F), (G, H, I) = letters
    rotated = O.RIGHT * Grid(letters)
    expected = [[C, F, I], [B, E, H], [A, D, G]]
    check(all(p is q for r, s in zip(rotated.objects, expected) for p, q in zip(r, s)))
    rotated = O.LEFT * Grid(letters)
    expected = [[G, D, A], [H, E, B], [I, F, C]]
    check(all(p is q for r, s in zip(rotated.objects, expected) for p, q in zip(r, s)))
    rotated = O.BACKWARD * Grid(letters)
    expected = [[I, H, G], [F, E, D], [C, B, A]]
    check(all(p is q for r, s in zip(rotated.objects, expected) for p, q in zip(r, s)))

    grid = make_grid(2, 3)
    for junk in [3, 'R', None, (0, 1), 0, Position(0, 0)]:
        check(raises(TypeError, lambda: grid * junk), junk)
        check(raises(TypeError, lambda: junk * grid), junk)
        check(grid.__mul__(junk) is NotImplemented, junk)
    # unhashable operand: the table lookup itself fails
    check(raises(TypeError, lambda: grid.__mul__([O.F])))
    check(raises(TypeError, lambda: grid.__mul__({})))


# --------------------------------------------------------------------------
# 6. egocentric view = subgrid of transformed area, rotated (integration)
# --------------------------------------------------------------------------


def test_views():
    view_areas = [Area((-3, 0), (-2, 2)), Area((-1, 1), (-1, 1)), Area((-2, 0), (0, 3))]
    for height, width in [(4, 5), (6, 3), (1, 1), (5, 5)]:
        grid = make_grid(height, width)
        for y, x, o, area in itt.product(
            range(height), range(width), ORIENTATIONS, view_areas
        ):
            agent = Agent(Position(y, x), o)
            check(yx(agent.front()) == ref_pose_act(((y, x), o), (-1, 0)))
            world_area = agent.transform * area
            view = grid.subgrid(world_area) * agent.orientation
            check(view.shape.as_tuple == (area.height, area.width), y, x, o)
            for i, ry in enumerate(range(area.ymin, area.ymax + 1)):
                for j, rx in enumerate(range(area.xmin, area.xmax + 1)):
                    wy, wx = ref_pose_act(((y, x), o), (ry, rx))
                    obj = view.objects[i][j]
                    if 0 <= wy < height and 0 <= wx < width:
                        check(obj is grid.objects[wy][wx], y, x, o, i, j)
                    else:
                        check(type(obj) is Hidden, y, x, o, i, j)


# --------------------------------------------------------------------------
# 7. tentative next position agrees with the pose algebra
# --------------------------------------------------------------------------


def test_next_position():
    move = {
        Action.MOVE_FORWARD: O.FORWARD,
        Action.MOVE_RIGHT: O.RIGHT,
        Action.MOVE_BACKWARD: O.BACKWARD,
        Action.MOVE_LEFT: O.LEFT,
    }
    check(len(list(Action)) == 8)
    for c in ALL_COORDS:
        for o in ORIENTATIONS:
            position = Position(*c)
            for action in Action:
                result = get_next_position(position, o, action)
                check(yx(position) == c)
                if action in move:
                    check(action.is_move())
                    expected = ref_pose_act((c, o), ref_rotate(move[action], (-1, 0)))
                    check(yx(result) == expected, c, o, action)
                    check(result is not position)
                    # through the library's own algebra
                    transform = Transform(position, o)
                    check(
                        result
                        == transform * (move[action] * Position.from_orientation(O.F))
                    )
                    check(
                        result
                        == (transform * Transform(Position(0, 0), move[action]))
                        * Position(-1, 0)
                    )
                    check(Position.manhattan_distance(result, position) == 1)
                    if action is Action.MOVE_FORWARD:
                        check(result == Agent(position, o).front())
                else:
                    check(not action.is_move())
                    check(result is position, c, o, action)
            # forward then backward / left then right return to start
            there = get_next_position(position, o, Action.MOVE_FORWARD)
            check(get_next_position(there, o, Action.MOVE_BACKWARD) == position)
            there = get_next_position(position, o, Action.MOVE_LEFT)
            check(get_next_position(there, o, Action.MOVE_RIGHT) == position)

    # non-action arguments are treated as "no movement"
    position = Position(3, 4)
    for junk in [None, 0, 'MOVE_FORWARD', O.FORWARD, (1, 2)]:
        check(get_next_position(position, O.LEFT, junk) is position, junk)
    check(raises(TypeError, lambda: get_next_position(position, O.LEFT, [])))


def main():
    test_orientation_group()
    test_orientation_on_positions()
    test_areas()
    test_transforms()
    test_grids()
    test_views()
    test_next_position()
    print(f'demo {FOCUS}: OK ({CHECKS} checks)')


if __name__ == '__main__':
    main()
