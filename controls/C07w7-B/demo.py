"""Demo / check program for commit B (`from_visibility` accepts the name of a
registered visibility function, as well as the function itself).

Run as:  cd /tmp/wt7-C07 && /venv/bin/python -W ignore _seed/B/demo.py

Everything is checked against an independent re-implementation (contained in
this file) of ray casting, ray counting, the deterministic visibility
functions, and of the egocentric observation itself.  The program exits 0 both
on the clean tree (where names are not supported, which is detected and
checked) and with the commit applied.
"""
import functools
import itertools as itt
import math
import os
import sys
import types

sys.path.insert(0, os.getcwd())

import numpy as np  # noqa: E402
import numpy.random as rnd  # noqa: E402

from gym_gridverse.agent import Agent  # noqa: E402
from gym_gridverse.envs import observation_functions as ofs  # noqa: E402
from gym_gridverse.envs import visibility_functions as vfs  # noqa: E402
from gym_gridverse.geometry import Area, Orientation, Position  # noqa: E402
from gym_gridverse.grid import Grid  # noqa: E402
from gym_gridverse.grid_object import (  # noqa: E402
    Beacon,
    Box,
    Color,
    Door,
    Exit,
    Floor,
    Hidden,
    Key,
    MovingObstacle,
    Telepod,
    Wall,
)
from gym_gridverse.rng import reset_gv_rng  # noqa: E402
from gym_gridverse.state import State  # noqa: E402

checks = 0


def check(condition, message):
    global checks
    checks += 1
    if not condition:
        print('FAILED:', message)
        sys.exit(1)


# ---------------------------------------------------------------------------
# independent reference implementation
# ---------------------------------------------------------------------------

_ref_rays_cache = {}


def ref_rays(y0, x0, height, width):
    """rays (lists of (y, x)) from (y0, x0) in a height x width grid"""
    key = (y0, x0, height, width)
    if key in _ref_rays_cache:
        return _ref_rays_cache[key]

    if not (0 <= y0 < height and 0 <= x0 < width):
        raise ValueError('outside')

    ys = np.linspace(0, height, num=height + 1) - 0.5 - y0
    xs = np.linspace(0, width, num=width + 1) - 0.5 - x0
    yys, xxs = np.meshgrid(ys, xs)
    angles = np.sort(np.arctan2(yys, xxs), axis=None)

    rays = []
    for radians in angles:
        dy = 0.01 * math.sin(radians)
        dx = 0.01 * math.cos(radians)
        ray = []
        seen = set()
        i = 0
        while True:
            y, x = round(float(y0) + i * dy), round(float(x0) + i * dx)
            if not (0 <= y < height and 0 <= x < width):
                break
            if (y, x) not in seen:
                seen.add((y, x))
                ray.append((y, x))
            i += 1
        rays.append(ray)

    _ref_rays_cache[key] = rays
    return rays


def ref_counts(objects, y0, x0):
    height, width = len(objects), len(objects[0])
    num = [[0] * width for _ in range(height)]
    den = [[0] * width for _ in range(height)]
    for ray in ref_rays(y0, x0, height, width):
        light = True
        for y, x in ray:
            if light:
                num[y][x] += 1
            den[y][x] += 1
            if objects[y][x].blocks_vision:
                light = False
    return np.array(num, dtype=int), np.array(den, dtype=int)


def ref_raytracing(objects, y0, x0, absolute_counts=True, threshold=1):
    num, den = ref_counts(objects, y0, x0)
    if absolute_counts:
        return num >= threshold
    with np.errstate(all='ignore'):
        return (num / den) >= threshold


def ref_probs(objects, y0, x0):
    num, den = ref_counts(objects, y0, x0)
    with np.errstate(all='ignore'):
        return np.nan_to_num(num / den)


def ref_fully_transparent(objects, y0, x0):
    return np.ones((len(objects), len(objects[0])), dtype=bool)


def ref_partially_occluded(objects, y0, x0):
    height, width = len(objects), len(objects[0])
    if y0 != height - 1:
        raise NotImplementedError
    result = np.zeros((height, width), dtype=bool)
    for dx in (-1, +1):
        seen = np.zeros((height, width), dtype=bool)
        stack = [(y0, x0)]
        while stack:
            y, x = stack.pop()
            if not (0 <= y < height and 0 <= x < width) or seen[y, x]:
                continue
            seen[y, x] = True
            if not objects[y][x].blocks_vision:
                stack.extend([(y - 1, x), (y, x + dx), (y - 1, x + dx)])
        result |= seen
    return result


REF_VISIBILITY = {
    'fully_transparent': ref_fully_transparent,
    'partially_occluded': ref_partially_occluded,
    'raytracing': ref_raytracing,
}

# orientation algebra (independent):  quarter turns clockwise from FORWARD
TURNS = {
    Orientation.F: 0,
    Orientation.R: 1,
    Orientation.B: 2,
    Orientation.L: 3,
}
FROM_TURNS = {v: k for k, v in TURNS.items()}


def rotate_vector(y, x, turns):
    for _ in range(turns % 4):
        y, x = x, -y  # clockwise quarter turn:  up (-1, 0) -> right (0, 1)
    return y, x


def ref_observation(objects, agent_yx, agent_orientation, area, visibility):
    """returns matrix of entries, where an entry is either ('obj', obj) for a
    visible object of the state, or 'hidden'.  Also returns the agent cell."""
    height, width = len(objects), len(objects[0])
    (ymin, ymax), (xmin, xmax) = area
    turns = TURNS[agent_orientation]

    view = []
    for ay in range(ymin, ymax + 1):
        row = []
        for ax in range(xmin, xmax + 1):
            dy, dx = rotate_vector(ay, ax, turns)
            y, x = agent_yx[0] + dy, agent_yx[1] + dx
            if 0 <= y < height and 0 <= x < width:
                row.append(objects[y][x])
            else:
                row.append(Hidden())
        view.append(row)

    pov = (-ymin, -xmin)
    visible = visibility(view, pov[0], pov[1])
    entries = [
        [
            ('obj', view[i][j]) if visible[i, j] else 'hidden'
            for j in range(len(view[0]))
        ]
        for i in range(len(view))
    ]
    return entries, pov


def rotate_world(objects, agent_yx, agent_orientation, turns):
    """rotates the world (objects matrix and agent pose) clockwise"""
    for _ in range(turns % 4):
        height = len(objects)
        objects = [list(row) for row in zip(*objects[::-1])]
        agent_yx = (agent_yx[1], height - 1 - agent_yx[0])
        agent_orientation = FROM_TURNS[(TURNS[agent_orientation] + 1) % 4]
    return objects, agent_yx, agent_orientation


# ---------------------------------------------------------------------------
# random worlds
# ---------------------------------------------------------------------------

COLORS = [Color.RED, Color.GREEN, Color.BLUE, Color.YELLOW]


def random_object(rng):
    k = rng.integers(14)
    color = COLORS[rng.integers(len(COLORS))]
    if k < 5:
        return Floor()
    if k < 8:
        return Wall()
    if k == 8:
        status = list(Door.Status)[rng.integers(len(Door.Status))]
        return Door(status, color)
    if k == 9:
        return Key(color)
    if k == 10:
        return MovingObstacle()
    if k == 11:
        return Box(Key(color))
    if k == 12:
        return [Exit(), Hidden(), Telepod(color)][rng.integers(3)]
    return Beacon(color)


def random_objects(rng, height, width, density):
    return [
        [
            random_object(rng) if rng.random() < density else Floor()
            for _ in range(width)
        ]
        for _ in range(height)
    ]


def copy_matrix(objects):
    return [list(row) for row in objects]


# ---------------------------------------------------------------------------
# visibility functions given to `from_visibility`
# ---------------------------------------------------------------------------

registry = vfs.visibility_function_registry
from_visibility = ofs.observation_function_registry['from_visibility']


def demo_checker(grid, position, *, rng=None):
    """custom visibility function; returns an *integer* mask"""
    mask = np.zeros((grid.shape.height, grid.shape.width), dtype=int)
    for y in range(grid.shape.height):
        for x in range(grid.shape.width):
            distance = abs(y - position.y) + abs(x - position.x)
            if distance % 3 != 2 or isinstance(grid[y, x], Wall):
                mask[y, x] = 1 + distance
    return mask


def ref_demo_checker(objects, y0, x0):
    return np.array(
        [
            [
                (abs(y - y0) + abs(x - x0)) % 3 != 2 or type(obj) is Wall
                for x, obj in enumerate(row)
            ]
            for y, row in enumerate(objects)
        ],
        dtype=bool,
    )


registry.register(demo_checker, name='demo_checker')
# makes `seedb_custom_module:demo_checker` a valid custom name
sys.modules['seedb_custom_module'] = types.ModuleType('seedb_custom_module')


def wrong_shape(grid, position, *, rng=None):
    return np.ones((grid.shape.height + 1, grid.shape.width), dtype=bool)


def detect_names_supported():
    state = State(Grid([[Floor(), Wall()], [Floor(), Floor()]]), Agent(Position(1, 0), Orientation.F))
    try:
        from_visibility(
            state,
            area=Area((-1, 0), (0, 1)),
            visibility_function='fully_transparent',
        )
    except TypeError:
        return False
    return True


NAMES_SUPPORTED = detect_names_supported()

# (label, registered observation function or None, visibility function given
# to `from_visibility` or None, name given to `from_visibility` or None,
# reference visibility, requires agent at the bottom of the area)
raytracing_relative = functools.partial(
    registry['raytracing'], absolute_counts=False, threshold=0.5
)
VARIANTS = [
    (
        'fully_transparent',
        registry['fully_transparent'],
        'fully_transparent',
        ref_fully_transparent,
        False,
    ),
    (
        'partially_occluded',
        registry['partially_occluded'],
        'partially_occluded',
        ref_partially_occluded,
        True,
    ),
    (
        'raytracing',
        registry['raytracing'],
        'raytracing',
        ref_raytracing,
        False,
    ),
    (
        None,
        raytracing_relative,
        None,
        lambda objects, y0, x0: ref_raytracing(objects, y0, x0, False, 0.5),
        False,
    ),
    (None, demo_checker, 'demo_checker', ref_demo_checker, False),
    (
        None,
        demo_checker,
        'seedb_custom_module:demo_checker',
        ref_demo_checker,
        False,
    ),
]

AREAS = [
    ((-6, 0), (-3, 3)),  # default minigrid-like view
    ((-2, 0), (-1, 1)),
    ((-3, 0), (-2, 1)),  # asymmetric
    ((-1, 0), (0, 3)),
    ((0, 0), (0, 0)),  # agent cell only
    ((0, 0), (-4, 4)),  # single row
    ((-5, 0), (0, 0)),  # single column
    ((-2, 2), (-2, 2)),  # agent in the middle (not partially_occluded)
    ((-1, 3), (-4, 1)),
    ((-9, 0), (-8, 8)),  # larger than any world
]

WORLD_SHAPES = [(1, 1), (1, 4), (3, 3), (3, 5), (5, 3), (6, 4)]


def check_entries(observation, entries, pov, held, label):
    grid = observation.grid
    check(
        grid.shape.as_tuple == (len(entries), len(entries[0])),
        f'observation shape {label}',
    )
    for i, row in enumerate(entries):
        for j, entry in enumerate(row):
            obj = grid[i, j]
            if entry == 'hidden':
                check(type(obj) is Hidden, f'hidden cell {(i, j)} {label}')
            else:
                expected = entry[1]
                check(obj == expected, f'cell {(i, j)} {label}')
                check(
                    type(obj) is type(expected),
                    f'cell type {(i, j)} {label}',
                )
                if type(expected) is not Hidden:
                    # visible objects are the very objects of the state
                    check(obj is expected, f'cell identity {(i, j)} {label}')
    check(observation.agent.position == Position(*pov), f'pov {label}')
    check(observation.agent.orientation is Orientation.F, f'front {label}')
    check(observation.agent.grid_object is held, f'held object {label}')


def observation_functions_of(variant, area):
    """all the ways to obtain the observation function of a variant"""
    registered_name, function, name, _, _ = variant
    functions = {}
    if registered_name is not None:
        functions['registered'] = functools.partial(
            ofs.observation_function_registry[registered_name], area=area
        )
        functions['factory registered'] = ofs.factory(
            registered_name, area=area
        )
    functions['from_visibility(function)'] = functools.partial(
        from_visibility, area=area, visibility_function=function
    )
    functions['factory from_visibility(function)'] = ofs.factory(
        'from_visibility', area=area, visibility_function=function
    )
    if NAMES_SUPPORTED and name is not None:
        functions['from_visibility(name)'] = functools.partial(
            from_visibility, area=area, visibility_function=name
        )
        functions['factory from_visibility(name)'] = ofs.factory(
            'from_visibility', area=area, visibility_function=name
        )
    return functions


def check_observation_functions():
    rng = rnd.default_rng(777)
    n_observations = 0

    for height, width in WORLD_SHAPES:
        for density in (0.25, 0.6)[(height + width) % 2 :][:1]:
            objects = random_objects(rng, height, width, density)
            held = Key(Color.RED) if density > 0.5 else None

            for (y, x), orientation in itt.product(
                itt.product(range(height), range(width)), TURNS
            ):
                worlds = [
                    rotate_world(objects, (y, x), orientation, turns)
                    for turns in range(4)
                ]
                states = [
                    State(
                        Grid(copy_matrix(w_objects)),
                        Agent(Position(*w_yx), w_orientation, held),
                    )
                    for w_objects, w_yx, w_orientation in worlds
                ]

                for area_spec, variant in itt.product(AREAS, VARIANTS):
                    _, _, name, ref_visibility, needs_bottom = variant
                    if needs_bottom and area_spec[0][1] != 0:
                        continue
                    n_cells = (area_spec[0][1] - area_spec[0][0] + 1) * (
                        area_spec[1][1] - area_spec[1][0] + 1
                    )
                    if 'raytracing' in repr(variant[1]) and n_cells > 60:
                        continue

                    area = Area(*area_spec)
                    entries, pov = ref_observation(
                        objects, (y, x), orientation, area_spec, ref_visibility
                    )

                    first = None
                    for how, function in observation_functions_of(
                        variant, area
                    ).items():
                        label = (
                            f'{how} {name} {height}x{width} pose {(y, x)} '
                            f'{orientation.name} area {area_spec}'
                        )
                        for turns, state in enumerate(states):
                            observation = function(state)
                            n_observations += 1
                            # against the reference (cells, identity, agent)
                            check_entries(
                                observation,
                                entries,
                                pov,
                                state.agent.grid_object,
                                f'{label} turns={turns}',
                            )
                            # the property: equal for all quarter turns (and
                            # for all the ways of naming the function)
                            first = observation if first is None else first
                            check(
                                observation == first,
                                f'rotation invariance turns={turns} {label}',
                            )

                # states are not modified by observing
                for state, (w_objects, w_yx, w_orientation) in zip(
                    states, worlds
                ):
                    check(
                        all(
                            state.grid.objects[i][j] is w_objects[i][j]
                            for i in range(len(w_objects))
                            for j in range(len(w_objects[0]))
                        ),
                        'state grid untouched',
                    )
                    check(
                        state.agent.position == Position(*w_yx)
                        and state.agent.orientation is w_orientation,
                        'state agent untouched',
                    )

    return n_observations


def check_stochastic():
    """same samples and same number of draws, however the function is given"""
    rng = rnd.default_rng(31337)
    objects = random_objects(rng, 5, 6, 0.4)
    area_spec = ((-3, 0), (-2, 2))
    area = Area(*area_spec)

    functions = {
        'registered': ofs.factory('stochastic_raytracing', area=area),
        'function': ofs.factory(
            'from_visibility',
            area=area,
            visibility_function=registry['stochastic_raytracing'],
        ),
    }
    if NAMES_SUPPORTED:
        functions['name'] = ofs.factory(
            'from_visibility',
            area=area,
            visibility_function='stochastic_raytracing',
        )

    for (y, x), orientation in itt.product(
        [(0, 0), (4, 5), (2, 3), (0, 5), (4, 0)], TURNS
    ):
        view_entries, pov = ref_observation(
            objects, (y, x), orientation, area_spec, ref_fully_transparent
        )
        view = [[entry[1] for entry in row] for row in view_entries]
        probs = ref_probs(view, pov[0], pov[1])
        for turns, (how, function) in itt.product(
            range(4), functions.items()
        ):
            w_objects, w_yx, w_orientation = rotate_world(
                objects, (y, x), orientation, turns
            )
            state = State(
                Grid(copy_matrix(w_objects)),
                Agent(Position(*w_yx), w_orientation),
            )
            for seed in (5, 99):
                rng_actual = rnd.default_rng(seed)
                rng_expected = rnd.default_rng(seed)
                observation = function(state, rng=rng_actual)
                visible = rng_expected.random(probs.shape) < probs
                entries = [
                    [
                        view_entries[i][j] if visible[i, j] else 'hidden'
                        for j in range(len(view[0]))
                    ]
                    for i in range(len(view))
                ]
                check_entries(
                    observation,
                    entries,
                    pov,
                    state.agent.grid_object,
                    f'stochastic {how} {(y, x)} {orientation.name} {turns}',
                )
                check(
                    rng_actual.bit_generator.state
                    == rng_expected.bit_generator.state,
                    f'stochastic rng state {how}',
                )

    # library rng when rng is None
    state = State(Grid(copy_matrix(objects)), Agent(Position(4, 2), Orientation.F))
    view_entries, pov = ref_observation(
        objects, (4, 2), Orientation.F, area_spec, ref_fully_transparent
    )
    view = [[entry[1] for entry in row] for row in view_entries]
    probs = ref_probs(view, pov[0], pov[1])
    for how, function in functions.items():
        gv_rng = reset_gv_rng(2024)
        rng_expected = rnd.default_rng(2024)
        for _ in range(3):
            observation = function(state)
            visible = rng_expected.random(probs.shape) < probs
            check(
                all(
                    (type(observation.grid[i, j]) is Hidden)
                    == (
                        not visible[i, j] or type(view[i][j]) is Hidden
                    )
                    for i in range(len(view))
                    for j in range(len(view[0]))
                ),
                f'library rng samples {how}',
            )
        check(
            gv_rng.bit_generator.state == rng_expected.bit_generator.state,
            f'library rng state {how}',
        )


def check_errors():
    state = State(
        Grid([[Floor(), Wall(), Floor()], [Floor(), Floor(), Key(Color.RED)]]),
        Agent(Position(1, 1), Orientation.R),
    )
    area = Area((-2, 0), (-1, 1))

    def raised(function, **kwargs):
        try:
            function(state, **kwargs)
        except Exception as error:  # pylint: disable=broad-except
            return type(error)
        return None

    # incorrect visibility shape
    check(
        raised(from_visibility, area=area, visibility_function=wrong_shape)
        is ValueError,
        'wrong shape raises ValueError',
    )
    # partially occluded with agent not at the bottom of the area
    for function in [registry['partially_occluded']] + (
        ['partially_occluded'] if NAMES_SUPPORTED else []
    ):
        check(
            raised(
                from_visibility,
                area=Area((-1, 1), (-1, 1)),
                visibility_function=function,
            )
            is NotImplementedError,
            'partially_occluded not at the bottom',
        )
    # non-callable, non-string visibility functions keep raising TypeError
    for bad in (None, 3, ('raytracing',), b'raytracing'):
        check(
            raised(from_visibility, area=area, visibility_function=bad)
            is TypeError,
            f'{bad!r} raises TypeError',
        )
    # missing required arguments
    check(
        raised(from_visibility, area=area) is TypeError,
        'missing visibility function raises TypeError',
    )
    try:
        ofs.factory('from_visibility', area=area)
    except ValueError:
        check(True, 'factory missing key')
    else:
        check(False, 'factory should require visibility_function')

    # names
    for name in ('nonexistent', '', 'Raytracing', 'from_visibility'):
        expected = ValueError if NAMES_SUPPORTED else TypeError
        check(
            raised(from_visibility, area=area, visibility_function=name)
            is expected,
            f'unknown name {name!r} raises {expected.__name__}',
        )
    expected = ModuleNotFoundError if NAMES_SUPPORTED else TypeError
    check(
        raised(
            from_visibility,
            area=area,
            visibility_function='seedb_no_such_module:raytracing',
        )
        is expected,
        f'unknown custom module raises {expected.__name__}',
    )
    if not NAMES_SUPPORTED:
        check(
            raised(from_visibility, area=area, visibility_function='raytracing')
            is TypeError,
            'clean tree: names are not callable',
        )

    # registry contents and registered names are as before
    check(
        list(ofs.observation_function_registry)
        == [
            'from_visibility',
            'fully_transparent',
            'partially_occluded',
            'raytracing',
            'stochastic_raytracing',
        ],
        'registered observation functions',
    )
    import inspect

    parameters = inspect.signature(from_visibility).parameters
    check(
        list(parameters) == ['state', 'area', 'visibility_function', 'rng'],
        'from_visibility signature',
    )
    check(
        parameters['visibility_function'].default is inspect.Parameter.empty
        and parameters['area'].default is inspect.Parameter.empty
        and parameters['rng'].default is None,
        'from_visibility defaults',
    )


if __name__ == '__main__':
    n_observations = check_observation_functions()
    check_stochastic()
    check_errors()
    print(
        f'OK: {checks} checks, {n_observations} observations, '
        f'names supported: {NAMES_SUPPORTED}'
    )
