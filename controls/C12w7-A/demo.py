"""Check program for commit A (faster `dijkstra` / `getting_closer_shortest_path`).

Run as:  cd /tmp/wt7-C12 && /venv/bin/python -W ignore _seed/A/demo.py

Everything is compared against references that live in this file:
  * `old_dijkstra`            -- the numpy/deque search as it was before the commit
  * `relaxation_distances`    -- an unrelated shortest-path algorithm (Bellman-Ford
                                 style relaxation until a fixed point)
  * `ref_shortest_path_reward`-- the documented meaning of the reward: sign of the
                                 change of the walking distance to the unique object
"""
import os
import sys

sys.path.insert(0, os.getcwd())

import itertools as itt
import math
from collections import deque

import numpy as np

from gym_gridverse.action import Action
from gym_gridverse.agent import Agent
from gym_gridverse.envs import reset_functions as reset_fs
from gym_gridverse.envs import reward_functions as reward_fs
from gym_gridverse.envs import transition_functions as transition_fs
from gym_gridverse.envs.yaml import factory as yaml_factory
from gym_gridverse.geometry import Orientation, Position, Shape
from gym_gridverse.grid import Grid
from gym_gridverse.grid_object import (
    Beacon,
    Box,
    Color,
    Door,
    Exit,
    Floor,
    Key,
    MovingObstacle,
    Telepod,
    Wall,
)
from gym_gridverse.rng import make_rng
from gym_gridverse.state import State
from gym_gridverse.utils.fast_copy import fast_copy

INF = float('inf')
checks = 0


def check(condition, message=''):
    global checks
    checks += 1
    if not condition:
        raise AssertionError(message)


# ---------------------------------------------------------------- references


def old_dijkstra(layout, source_position):
    """the implementation before the commit, verbatim (without the cache)"""
    layout_array = np.array(layout)

    visited = np.zeros(layout_array.shape, dtype=bool)
    visited[source_position] = True
    distances = np.full(layout_array.shape, float('inf'))
    distances[source_position] = 0.0

    frontier = deque([source_position])
    while frontier:
        y_old, x_old = frontier.popleft()

        for dy, dx in [(-1, 0), (1, 0), (0, -1), (0, 1)]:
            y_new = y_old + dy
            x_new = x_old + dx

            if (
                0 <= y_new < layout_array.shape[0]
                and 0 <= x_new < layout_array.shape[1]
                and layout_array[y_new, x_new]
                and not visited[y_new, x_new]
            ):
                distances[y_new, x_new] = distances[y_old, x_old] + 1
                visited[y_new, x_new] = True
                frontier.append((y_new, x_new))

    return distances


def relaxation_distances(layout, source):
    """number of steps from `source` to every cell, walking only *into*
    walkable cells (the source itself need not be walkable); computed by
    relaxation to a fixed point, i.e., not by a breadth-first search."""
    height, width = len(layout), len(layout[0])
    dist = {(y, x): INF for y in range(height) for x in range(width)}
    dist[source] = 0.0
    changed = True
    while changed:
        changed = False
        for (y, x) in dist:
            if (y, x) == source or not layout[y][x]:
                continue
            best = min(
                dist.get((y + dy, x + dx), INF)
                for dy, dx in [(0, 1), (1, 0), (0, -1), (-1, 0)]
            )
            if best + 1 < dist[y, x]:
                dist[y, x] = best + 1
                changed = True
    return dist


def same_array(a, b):
    return (
        isinstance(a, np.ndarray)
        and a.dtype == b.dtype
        and a.shape == b.shape
        and np.array_equal(a, b)  # inf == inf is True
    )


def outcome(f, *args, **kwargs):
    """(kind, payload) describing a call, exceptions included"""
    try:
        return ('ok', f(*args, **kwargs))
    except Exception as error:  # pylint: disable=broad-except
        return ('raise', (type(error), str(error)))


# ------------------------------------------------------- part 1: `dijkstra`


def all_layouts(height, width):
    for bits in itt.product([False, True], repeat=height * width):
        yield tuple(
            tuple(bits[y * width + x] for x in range(width))
            for y in range(height)
        )


def check_dijkstra_on(layout, sources):
    height, width = len(layout), len(layout[0])
    for source in sources:
        result = reward_fs.dijkstra(layout, source)
        expected = old_dijkstra(layout, source)
        check(
            same_array(result, expected),
            f'dijkstra differs from the old one {layout} {source}',
        )
        if 0 <= source[0] and 0 <= source[1]:
            relaxed = relaxation_distances(layout, source)
            check(
                all(
                    result[y, x] == relaxed[y, x]
                    for y in range(height)
                    for x in range(width)
                ),
                f'dijkstra differs from relaxation {layout} {source}',
            )
        # a cache hit hands out the very same array, before and after
        again = reward_fs.dijkstra(layout, source)
        check(same_array(again, expected))


def part_dijkstra():
    # exhaustive over all small layouts (incl. 1xN, Nx1, non-square), all
    # sources, incl. non-walkable sources
    for height, width in [
        (1, 1),
        (1, 2),
        (2, 1),
        (1, 5),
        (5, 1),
        (2, 2),
        (2, 3),
        (3, 2),
        (3, 3),
        (2, 5),
        (4, 3),
    ]:
        for layout in all_layouts(height, width):
            sources = list(itt.product(range(height), range(width)))
            check_dijkstra_on(layout, sources)

    # random bigger layouts, non-square, different densities
    rng = np.random.default_rng(12345)
    for _ in range(400):
        height, width = (int(v) for v in rng.integers(1, 14, size=2))
        density = rng.choice([0.2, 0.5, 0.7, 0.9, 1.0])
        layout = tuple(
            tuple(bool(rng.random() < density) for _ in range(width))
            for _ in range(height)
        )
        corners = [
            (0, 0),
            (0, width - 1),
            (height - 1, 0),
            (height - 1, width - 1),
        ]
        randoms = [
            (int(rng.integers(height)), int(rng.integers(width)))
            for _ in range(4)
        ]
        # numpy-style wrapping indices used to be accepted
        negatives = [(-1, -1), (-height, -width), (-1, 0), (0, -1)]
        check_dijkstra_on(layout, corners + randoms + negatives)

    # int layouts and numpy-integer sources used to be accepted as well
    layout = ((1, 1, 0, 1), (0, 1, 1, 1), (1, 0, 1, 0))
    for source in itt.product(range(3), range(4)):
        check(
            same_array(
                reward_fs.dijkstra(layout, source),
                old_dijkstra(layout, source),
            )
        )
        np_source = (np.int64(source[0]), np.int64(source[1]))
        check(
            same_array(
                reward_fs.dijkstra(layout, np_source),
                old_dijkstra(layout, source),
            )
        )

    # sources outside of the layout: same exception as before
    layout = ((True, True, True), (True, False, True))
    for source in [(2, 0), (0, 3), (-3, 0), (0, -4), (5, 5)]:
        new = outcome(reward_fs.dijkstra, layout, source)
        old = outcome(old_dijkstra, layout, source)
        check(new[0] == old[0] == 'raise' and new[1] == old[1], (new, old))
    # degenerate layouts: same exception as before
    for layout, source in [((), (0, 0)), (((),), (0, 0)), ((True, True), (0, 0))]:
        new = outcome(reward_fs.dijkstra, layout, source)
        old = outcome(old_dijkstra, layout, source)
        check(new[0] == old[0] == 'raise' and new[1] == old[1], (new, old))

    # caching: (layout, source) is the full key;  more than `maxsize`
    # different keys, revisited in several orders
    layouts = [
        tuple(
            tuple(bool((y * 7 + x * 3 + k) % 5) for x in range(4 + k % 3))
            for y in range(3 + k % 4)
        )
        for k in range(25)
    ]
    for _ in range(3):
        for k, layout in itt.chain(
            enumerate(layouts), reversed(list(enumerate(layouts)))
        ):
            source = (k % len(layout), k % len(layout[0]))
            first = reward_fs.dijkstra(layout, source)
            second = reward_fs.dijkstra(layout, source)
            check(first is second, 'consecutive identical calls hit the cache')
            check(same_array(first, old_dijkstra(layout, source)))


# ------------------------------- part 2: `getting_closer_shortest_path`


def ref_unique_position(state, object_type):
    found = [
        Position(y, x)
        for y in range(state.grid.shape.height)
        for x in range(state.grid.shape.width)
        if isinstance(state.grid[Position(y, x)], object_type)
    ]
    if len(found) != 1:
        raise ValueError
    return found[0]


def ref_walking_distance(state, object_type):
    target = ref_unique_position(state, object_type)
    layout = [
        [
            not state.grid[Position(y, x)].blocks_movement
            for x in range(state.grid.shape.width)
        ]
        for y in range(state.grid.shape.height)
    ]
    return relaxation_distances(layout, target.yx)[state.agent.position.yx]


def ref_shortest_path_reward(
    state, next_state, object_type, reward_closer, reward_further
):
    before = ref_walking_distance(state, object_type)
    after = ref_walking_distance(next_state, object_type)
    if after < before:
        return reward_closer
    if after > before:
        return reward_further
    return 0.0


def old_error_message(state, object_type):
    """message of the ValueError the old code raised (it came from
    `more_itertools.one` over the matching `Position`s, in row-major order)"""
    import more_itertools as mitt

    try:
        mitt.one(
            position
            for position in state.grid.area.positions()
            if isinstance(state.grid[position], object_type)
        )
    except ValueError as error:
        return str(error)
    return None


def same_value(a, b):
    if isinstance(a, float) and isinstance(b, float) and math.isnan(a):
        return math.isnan(b)
    return type(a) is type(b) and a == b


def random_cell(rng):
    kind = rng.integers(12)
    if kind < 5:
        return Floor()
    if kind < 8:
        return Wall()
    if kind == 8:
        status = list(Door.Status)[rng.integers(3)]
        return Door(status, Color.RED)
    if kind == 9:
        return Key(Color.RED)
    if kind == 10:
        return MovingObstacle()
    return Box(Floor())


def random_state(rng, height, width, num_exits=1):
    grid = Grid(
        [[random_cell(rng) for _ in range(width)] for _ in range(height)]
    )
    cells = [(y, x) for y in range(height) for x in range(width)]
    rng.shuffle(cells)
    for y, x in cells[:num_exits]:
        grid[y, x] = Exit()
    # the agent may stand anywhere, incl. on blocking cells (arbitrary states)
    y, x = cells[rng.integers(len(cells))]
    orientation = list(Orientation)[rng.integers(4)]
    return State(grid, Agent(Position(y, x), orientation))


def check_reward(state, action, next_state, kwargs):
    object_type = kwargs['object_type']
    state_before = fast_copy(state)
    next_state_before = fast_copy(next_state)

    got = outcome(
        reward_fs.getting_closer_shortest_path,
        state,
        action,
        next_state,
        **kwargs,
    )
    expected = outcome(
        ref_shortest_path_reward,
        state,
        next_state,
        object_type,
        kwargs.get('reward_closer', 1.0),
        kwargs.get('reward_further', -1.0),
    )
    check(got[0] == expected[0], (got, expected))
    if got[0] == 'ok':
        check(same_value(got[1], expected[1]), (got, expected))
    else:
        check(got[1][0] is ValueError, got)
        message = old_error_message(state, object_type)
        if message is None:
            message = old_error_message(next_state, object_type)
        check(got[1][1] == message, (got, message))

    # pure: the arguments are left alone
    check(state == state_before and next_state == next_state_before)
    return got


ALL_ACTIONS = list(Action)

DYNAMICS = yaml_factory.factory_transition_function(
    {
        'name': 'chain',
        'transition_functions': [
            {'name': 'move_obstacles'},
            {'name': 'move_agent'},
            {'name': 'turn_agent'},
            {'name': 'actuate_door'},
            {'name': 'pickndrop'},
        ],
    }
)


def part_reward_random_states():
    rng = np.random.default_rng(2024)
    shapes = [
        (1, 1),
        (1, 2),
        (2, 1),
        (1, 6),
        (6, 1),
        (2, 2),
        (3, 3),
        (3, 7),
        (7, 3),
        (5, 5),
        (4, 9),
        (9, 4),
    ]
    parameter_sets = [
        {'object_type': Exit},
        {'object_type': Exit, 'reward_closer': 0.25, 'reward_further': -7.5},
        {'object_type': Exit, 'reward_closer': -3.0, 'reward_further': 3.0},
        {'object_type': Exit, 'reward_closer': 0.0, 'reward_further': 0.0},
        {'object_type': Exit, 'reward_closer': 5, 'reward_further': -5},
        {'object_type': Exit, 'reward_closer': INF, 'reward_further': -INF},
        {'object_type': Exit, 'reward_closer': float('nan')},
    ]
    outcomes = {'closer': 0, 'further': 0, 'same': 0, 'raise': 0}
    for height, width in shapes:
        for trial in range(60):
            state = random_state(rng, height, width)
            kwargs = parameter_sets[trial % len(parameter_sets)]
            for action in ALL_ACTIONS:
                # next state of the real dynamics
                next_state = transition_fs.transition_with_copy(
                    DYNAMICS, state, action, rng=make_rng(trial)
                )
                got = check_reward(state, action, next_state, kwargs)
                # the same call through the factories
                for function in [
                    reward_fs.factory('getting_closer_shortest_path', **kwargs),
                    yaml_factory.factory_reward_function(
                        {
                            'name': 'getting_closer_shortest_path',
                            **kwargs,
                            'object_type': 'Exit',
                        }
                    ),
                ]:
                    again = outcome(function, state, action, next_state)
                    check(
                        again[0] == got[0]
                        and (
                            same_value(again[1], got[1])
                            if got[0] == 'ok'
                            else again[1] == got[1]
                        ),
                        (again, got),
                    )

            # arbitrary next state: unrelated grid of the same or another shape
            for other_shape in [(height, width), (width, height), (3, 4)]:
                next_state = random_state(rng, *other_shape)
                got = check_reward(state, Action.MOVE_FORWARD, next_state, kwargs)
                check(got[0] == 'ok')
                plain = reward_fs.getting_closer_shortest_path(
                    state, Action.MOVE_FORWARD, next_state, object_type=Exit
                )
                outcomes[
                    {1.0: 'closer', -1.0: 'further', 0.0: 'same'}[plain]
                ] += 1

            # wrong number of objects: ValueError, as before
            for num_exits in [0, 2, 3]:
                if num_exits > height * width:
                    continue
                broken = random_state(rng, height, width, num_exits=num_exits)
                got = check_reward(broken, Action.ACTUATE, state, kwargs)
                check(got[0] == 'raise')
                got = check_reward(state, Action.ACTUATE, broken, kwargs)
                check(got[0] == 'raise')
                outcomes['raise'] += 1

    # all the branches were exercised
    check(all(count > 50 for count in outcomes.values()), outcomes)


def part_reward_other_object_types():
    """object types other than Exit, incl. blocking ones (the source of the
    search is then not walkable itself) and a base class"""
    rng = np.random.default_rng(77)
    for object_type, make in [
        (Beacon, lambda: Beacon(Color.BLUE)),
        (Telepod, lambda: Telepod(Color.GREEN)),
        (Wall, Wall),
        (Key, lambda: Key(Color.YELLOW)),
    ]:
        for height, width in [(1, 4), (4, 1), (3, 5), (6, 4)]:
            for _ in range(40):
                grid = Grid.from_shape((height, width))
                cells = [(y, x) for y in range(height) for x in range(width)]
                rng.shuffle(cells)
                for y, x in cells[: len(cells) // 3]:
                    grid[y, x] = Door(Door.Status.CLOSED, Color.RED)
                grid[cells[-1]] = make()
                state = State(
                    grid, Agent(Position(*cells[-2]), Orientation.F)
                )
                for action in ALL_ACTIONS:
                    for orientation in Orientation:
                        state.agent.orientation = orientation
                        next_state = transition_fs.transition_with_copy(
                            DYNAMICS, state, action, rng=make_rng(0)
                        )
                        check_reward(
                            state,
                            action,
                            next_state,
                            {'object_type': object_type},
                        )


def part_reward_exhaustive_small():
    """every agent pose x every action on a few hand-written maps"""
    maps = [
        ['E'],
        ['.E'],
        ['.', 'E'],
        ['....E'],
        ['.#.', '.#E', '...'],
        ['#####', '#..E#', '#.#.#', '#...#', '#####'],
        ['.....#E', '.###.#.', '...#...'],
        ['..', '#.', '..', '.#', '.E'],
        ['E#.', '##.', '...'],  # exit walled in: everything is infinitely far
        ['.D.E', '.#..', '.d..'],  # D closed door, d open door
    ]
    for rows in maps:
        objects = []
        for row in rows:
            objects.append(
                [
                    {
                        '.': Floor,
                        '#': Wall,
                        'E': Exit,
                        'D': lambda: Door(Door.Status.CLOSED, Color.RED),
                        'd': lambda: Door(Door.Status.OPEN, Color.RED),
                    }[c]()
                    for c in row
                ]
            )
        grid = Grid(objects)
        for position in grid.area.positions():
            for orientation in Orientation:
                state = State(fast_copy(grid), Agent(position, orientation))
                for action in ALL_ACTIONS:
                    next_state = transition_fs.transition_with_copy(
                        DYNAMICS, state, action, rng=make_rng(0)
                    )
                    got = check_reward(
                        state, action, next_state, {'object_type': Exit}
                    )
                    check(got[0] == 'ok')
                    # on these maps moves change the distance by at most one
                    # step, and non-moves not at all (except opening doors)
                    if not action.is_move() and action is not Action.ACTUATE:
                        check(got[1] == 0.0)


# ------------------------------------- part 3: trajectories, composites


def part_trajectories():
    """trajectories of reset functions + real dynamics;  the shaping reward is
    a term of a `reduce_sum`, next to the exit reward;  two independent
    "environments" (sets of components) are interleaved in the same process"""

    def make_components():
        shaping = yaml_factory.factory_reward_function(
            {
                'name': 'getting_closer_shortest_path',
                'object_type': 'Exit',
                'reward_closer': 0.5,
                'reward_further': -0.25,
            }
        )
        total = yaml_factory.factory_reward_function(
            {
                'name': 'reduce_sum',
                'reward_functions': [
                    {'name': 'reach_exit', 'reward_on': 10.0},
                    {
                        'name': 'getting_closer_shortest_path',
                        'object_type': 'Exit',
                        'reward_closer': 0.5,
                        'reward_further': -0.25,
                    },
                    {'name': 'living_reward', 'reward': -0.125},
                ],
            }
        )
        terminating = yaml_factory.factory_terminating_function(
            {'name': 'reach_exit'}
        )
        return shaping, total, terminating

    resets = [
        lambda rng: reset_fs.empty(Shape(4, 7), True, True, rng=rng),
        lambda rng: reset_fs.empty(Shape(7, 4), True, False, rng=rng),
        lambda rng: reset_fs.rooms(Shape(7, 9), (2, 2), rng=rng),
        lambda rng: reset_fs.rooms(Shape(11, 7), (3, 2), rng=rng),
        lambda rng: reset_fs.dynamic_obstacles(Shape(6, 8), 4, True, rng=rng),
        lambda rng: reset_fs.keydoor(Shape(6, 9), rng=rng),
        lambda rng: reset_fs.crossing(Shape(7, 9), 2, Wall, rng=rng),
        lambda rng: reset_fs.teleport(Shape(7, 8), rng=rng),
    ]
    envs = [make_components(), make_components()]
    for reset_index, reset in enumerate(resets):
        for seed in range(6):
            rng = make_rng(1000 * reset_index + seed)
            action_rng = np.random.default_rng(seed)
            state = reset(rng)
            for step in range(40):
                shaping, total, terminating = envs[(seed + step) % 2]
                action = ALL_ACTIONS[action_rng.integers(len(ALL_ACTIONS))]
                next_state = transition_fs.transition_with_copy(
                    DYNAMICS, state, action, rng=rng
                )

                rng_before = fast_copy(rng.bit_generator.state)
                shaped = shaping(state, action, next_state, rng=rng)
                summed = total(state, action, next_state, rng=rng)
                terminal = terminating(state, action, next_state, rng=rng)
                # rewards do not draw random numbers
                check(rng.bit_generator.state == rng_before)

                expected = ref_shortest_path_reward(
                    state, next_state, Exit, 0.5, -0.25
                )
                check(same_value(shaped, expected), (shaped, expected))

                on_exit = isinstance(
                    next_state.grid[next_state.agent.position], Exit
                )
                check(terminal is on_exit)
                check(
                    summed
                    == (10.0 if on_exit else 0.0) + expected + -0.125,
                    (summed, on_exit, expected),
                )
                # the exit reward is paid exactly when exit-termination fires
                check((summed - expected + 0.125 == 10.0) == terminal)

                state = reset(rng) if terminal else next_state


if __name__ == '__main__':
    part_dijkstra()
    part_reward_exhaustive_small()
    part_reward_random_states()
    part_reward_other_object_types()
    part_trajectories()
    print(f'OK ({checks} checks)')
