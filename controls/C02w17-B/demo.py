"""Demo for change B (factories: shared `partial_from_kwargs` helper).

Run from the worktree root:  /venv/bin/python _seed/B/demo.py

Exits 0 on the pristine tree and with the patch applied.  A reference
implementation of the pristine `factory(name, **kwargs)` algorithm is embedded
below;  the demo checks that

* for every registered reset / transition / observation function (and for the
  other registries too) and for many keyword combinations (exact, only
  required, missing, superfluous, protocol names such as `rng` / `state`, in
  any order) the library factory returns the same `functools.partial` (same
  function, no positional arguments, same keywords in the same order) or
  raises the same error as the reference;
* `rng` is never bound by a factory, such that the generator given at call
  time (the environment's own) is the one which is used, and the parts of a
  `chain` run exactly once, in order, with that generator;
* environments assembled with the library factories behave exactly like
  environments assembled with the reference factories:  same seed -> same
  states, observations, rewards, termination flags;  with the debug flag on
  or off;  with operations interleaved among many live environments;  after
  re-seeding;  across interpreter processes with different PYTHONHASHSEED;
* seeded environments never read or perturb the library-level generator,
  numpy's global generator or python's `random`.
"""
import functools
import hashlib
import inspect
import itertools as itt
import os
import random
import subprocess
import sys
import warnings

warnings.filterwarnings('ignore')

sys.path.insert(0, os.getcwd())

import numpy as np  # noqa: E402
import numpy.random as rnd  # noqa: E402

import gym_gridverse.rng as gv_rng_module  # noqa: E402
from gym_gridverse.action import Action  # noqa: E402
from gym_gridverse.debugging import reset_gv_debug  # noqa: E402
from gym_gridverse.envs import observation_functions as observation_fs
from gym_gridverse.envs import reset_functions as reset_fs  # noqa: E402
from gym_gridverse.envs import reward_functions as reward_fs  # noqa: E402
from gym_gridverse.envs import terminating_functions as terminating_fs
from gym_gridverse.envs import transition_functions as transition_fs
from gym_gridverse.envs import visibility_functions as visibility_fs
from gym_gridverse.envs.gridworld import GridWorld  # noqa: E402
from gym_gridverse.geometry import Area, Shape  # noqa: E402
from gym_gridverse.grid_object import (  # noqa: E402
    Beacon,
    Color,
    Door,
    Exit,
    Floor,
    Key,
    MovingObstacle,
    Telepod,
    Wall,
)
from gym_gridverse.rng import make_rng, reset_gv_rng  # noqa: E402
from gym_gridverse.spaces import (  # noqa: E402
    ActionSpace,
    ObservationSpace,
    StateSpace,
)

REGISTRIES = {
    'reset': (reset_fs, reset_fs.reset_function_registry),
    'transition': (transition_fs, transition_fs.transition_function_registry),
    'observation': (
        observation_fs,
        observation_fs.observation_function_registry,
    ),
    'reward': (reward_fs, reward_fs.reward_function_registry),
    'terminating': (
        terminating_fs,
        terminating_fs.terminating_function_registry,
    ),
    'visibility': (visibility_fs, visibility_fs.visibility_function_registry),
}

# --------------------------------------------------------------------------
# reference implementation:  the pristine factory algorithm, verbatim
# --------------------------------------------------------------------------


def reference_factory(kind: str, name: str, **kwargs):
    _, registry = REGISTRIES[kind]

    try:
        function = registry[name]
    except KeyError as error:
        raise ValueError(f'invalid {kind} function name {name}') from error

    signature = inspect.signature(function)
    required_keys = [
        parameter.name
        for parameter in registry.get_nonprotocol_parameters(signature)
        if parameter.default is inspect.Parameter.empty
    ]
    optional_keys = [
        parameter.name
        for parameter in registry.get_nonprotocol_parameters(signature)
        if parameter.default is not inspect.Parameter.empty
    ]

    for key in required_keys:
        if key not in kwargs:
            raise ValueError(f'missing keyword argument `{key}`')
    keys = required_keys + optional_keys
    kwargs = {key: value for key, value in kwargs.items() if key in keys}
    return functools.partial(function, **kwargs)


def library_factory(kind: str, name: str, **kwargs):
    module, _ = REGISTRIES[kind]
    return module.factory(name, **kwargs)


# --------------------------------------------------------------------------
# part 1:  the factories, on every registered function
# --------------------------------------------------------------------------


def outcome(factory, kind, name, kwargs):
    """canonical description of what a factory does with these inputs"""
    kwargs_before = list(kwargs.items())
    try:
        function = factory(kind, name, **kwargs)
    except Exception as error:  # pylint: disable=broad-except
        result = ('raise', type(error).__name__, str(error))
    else:
        assert type(function) is functools.partial
        result = (
            'partial',
            function.func,
            function.args,
            # NOTE: order matters
            [(key, id(value)) for key, value in function.keywords.items()],
        )
    assert list(kwargs.items()) == kwargs_before
    return result


SENTINEL_RNG = rnd.default_rng(0)


def check_factories_on_registries():
    num_cases = 0
    for kind, (_, registry) in REGISTRIES.items():
        assert len(registry) > 0
        for name, function in registry.items():
            signature = inspect.signature(function)
            parameters = registry.get_nonprotocol_parameters(signature)
            protocol = [
                p.name for p in registry.get_protocol_parameters(signature)
            ]
            assert 'rng' in protocol
            required = [
                p.name
                for p in parameters
                if p.default is inspect.Parameter.empty
            ]
            optional = [
                p.name
                for p in parameters
                if p.default is not inspect.Parameter.empty
            ]
            values = {
                key: object()
                for key in required + optional + protocol + ['junk']
            }
            values['rng'] = SENTINEL_RNG

            cases = []
            # every subset of the optional ones, with all the required ones
            for n in range(len(optional) + 1):
                for subset in itt.combinations(optional, n):
                    cases.append(required + list(subset))
                    cases.append(list(subset)[::-1] + required[::-1])
            # each required one missing (and several missing)
            for key in required:
                cases.append([k for k in required if k != key] + optional)
                cases.append(optional + [k for k in required if k != key])
            cases.append([])
            cases.append(optional)
            cases.append(required[1:])
            cases.append(required[:-1])
            # superfluous items, among which the protocol's (e.g. rng)
            cases.append(['junk'] + required + ['rng'] + optional)
            cases.append(protocol + required + optional + ['junk'])
            cases.append(['rng'] + required)
            cases.append(['rng'] + required[1:] + ['junk'])
            cases.append(protocol)

            for keys in cases:
                kwargs = {key: values[key] for key in keys}
                expected = outcome(reference_factory, kind, name, kwargs)
                result = outcome(library_factory, kind, name, kwargs)
                assert result == expected, (kind, name, keys, result, expected)

                if result[0] == 'partial':
                    bound = [key for key, _ in result[3]]
                    # protocol parameters (rng!) and junk are never bound
                    assert not set(bound) & set(protocol + ['junk'])
                    assert set(required) <= set(bound)
                    assert result[1] is function and result[2] == ()
                else:
                    missing = [key for key in required if key not in kwargs]
                    assert result == (
                        'raise',
                        'ValueError',
                        f'missing keyword argument `{missing[0]}`',
                    )
                num_cases += 1

        # invalid names
        for name in ('', 'nope', 'Chain', 'factory'):
            expected = outcome(reference_factory, kind, name, {})
            result = outcome(library_factory, kind, name, {'junk': 1})
            assert result == expected, (kind, name, result, expected)
            assert result[:2] == ('raise', 'ValueError')

    assert num_cases > 500, num_cases

    # custom names (`<module>:<name>`) import the module and strip the name
    assert (
        transition_fs.factory('json:move_agent', junk=0).func
        is transition_fs.transition_function_registry['move_agent']
    )


def check_factories_on_custom_functions():
    """awkward signatures: positional-or-keyword, mixed defaults"""

    @transition_fs.transition_function_registry.register
    def _demo_b_transition(  # pylint: disable=unused-argument
        state, action, gamma, alpha=1, *, zeta, beta=2, rng=None
    ):
        return (alpha, beta, gamma, zeta, rng)

    @reset_fs.reset_function_registry.register
    def _demo_b_reset(  # pylint: disable=unused-argument
        alpha=1, *, beta, rng=None
    ):
        return (alpha, beta, rng)

    @observation_fs.observation_function_registry.register
    def _demo_b_observation(  # pylint: disable=unused-argument
        state, *, rng=None
    ):
        return (state, rng)

    for kind, name, keys in [
        ('transition', '_demo_b_transition', 'gamma alpha zeta beta'),
        ('reset', '_demo_b_reset', 'alpha beta'),
        ('observation', '_demo_b_observation', ''),
    ]:
        keys = keys.split() + ['rng', 'state', 'junk']
        for n in range(len(keys) + 1):
            for subset in itt.permutations(keys, n):
                kwargs = {key: object() for key in subset}
                expected = outcome(reference_factory, kind, name, kwargs)
                result = outcome(library_factory, kind, name, kwargs)
                assert result == expected, (kind, name, subset)

    # error for the *first* missing one, in signature order
    assert outcome(library_factory, 'transition', '_demo_b_transition', {}) == (
        'raise',
        'ValueError',
        'missing keyword argument `gamma`',
    )
    assert outcome(
        library_factory, 'transition', '_demo_b_transition', {'gamma': 0}
    ) == ('raise', 'ValueError', 'missing keyword argument `zeta`')

    # the products are called with the generator given at call time
    rng = rnd.default_rng(1)
    f = transition_fs.factory(
        '_demo_b_transition', zeta='z', gamma='g', rng=SENTINEL_RNG
    )
    assert f('s', 'a') == (1, 2, 'g', 'z', None)
    assert f('s', 'a', rng=rng) == (1, 2, 'g', 'z', rng)
    f = reset_fs.factory('_demo_b_reset', beta='b', rng=SENTINEL_RNG, alpha=0)
    assert f() == (0, 'b', None)
    assert f(rng=rng)[2] is rng
    f = observation_fs.factory('_demo_b_observation', rng=SENTINEL_RNG)
    assert f('s') == ('s', None)
    assert f('s', rng=rng)[1] is rng

    # repeated calls give independent partials
    f = transition_fs.factory('_demo_b_transition', zeta=1, gamma=2)
    g = transition_fs.factory('_demo_b_transition', zeta=3, gamma=4, beta=5)
    assert f.keywords == {'zeta': 1, 'gamma': 2}
    assert g.keywords == {'zeta': 3, 'gamma': 4, 'beta': 5}

    for _, registry in REGISTRIES.values():
        for name in list(registry):
            if name.startswith('_demo_b_'):
                del registry.data[name]


def check_chain_runs_parts_once_in_order():
    log = []

    def part(label):
        def transition(state, action, *, rng=None):
            log.append((label, state, action, rng))

        return transition

    rng = rnd.default_rng(3)
    for n in (0, 1, 2, 5):
        parts = [part(i) for i in range(n)]
        chain = transition_fs.factory(
            'chain', transition_functions=parts, rng=SENTINEL_RNG
        )
        assert list(chain.keywords) == ['transition_functions']
        assert chain.keywords['transition_functions'] is parts

        for call_rng in (rng, None):
            log.clear()
            assert chain('state', 'action', rng=call_rng) is None
            assert log == [(i, 'state', 'action', call_rng) for i in range(n)]
        log.clear()
        chain('state', 'action')
        assert log == [(i, 'state', 'action', None) for i in range(n)]


# --------------------------------------------------------------------------
# part 2:  whole environments, assembled with either factory
# --------------------------------------------------------------------------

ALL_ACTIONS = list(Action)
MOVE_TURN = [
    Action.MOVE_FORWARD,
    Action.MOVE_BACKWARD,
    Action.MOVE_LEFT,
    Action.MOVE_RIGHT,
    Action.TURN_LEFT,
    Action.TURN_RIGHT,
]

_COMMON_REWARDS = [
    ('reach_exit', dict(reward_on=5.0, reward_off=0.0)),
    (
        'getting_closer',
        dict(object_type=Exit, reward_closer=0.2, reward_further=-0.2),
    ),
    ('living_reward', dict(reward=-0.05)),
]

_MEMORY_REWARDS = [
    ('reach_exit_memory', dict(reward_good=5.0, reward_bad=-5.0)),
    ('living_reward', dict(reward=-0.05)),
]

_RGB = {Color.RED, Color.GREEN, Color.BLUE}

# python counterparts of the shipped yaml files, plus awkward ones (non-square
# grids, asymmetric view areas, empty color lists, superfluous / reordered
# keyword arguments, an `rng` keyword which has to be ignored)
CONFIGS = {
    'empty_4x4': dict(
        objects=[Wall, Floor, Exit],
        colors=[Color.NONE],
        actions=MOVE_TURN,
        reset=('empty', dict(random_agent=True, shape=Shape(4, 4))),
        transitions=['move_agent', 'turn_agent'],
        rewards=_COMMON_REWARDS,
        observation=('partially_occluded', dict(area=Area((-6, 0), (-3, 3)))),
        terminating=['reach_exit'],
    ),
    'empty_5x9_random_exit': dict(
        objects=[Wall, Floor, Exit],
        colors=[],
        actions=ALL_ACTIONS,
        reset=(
            'empty',
            dict(
                random_exit=True,
                junk=None,
                shape=Shape(5, 9),
                rng=SENTINEL_RNG,
                random_agent=True,
            ),
        ),
        transitions=['move_agent', 'turn_agent'],
        rewards=_COMMON_REWARDS + [('bump_into_wall', dict(reward=-1.0))],
        observation=(
            'raytracing',
            dict(rng=SENTINEL_RNG, area=Area((-2, 1), (-1, 1))),
        ),
        terminating=['reach_exit'],
    ),
    'dynamic_obstacles_7x7': dict(
        objects=[Wall, Floor, Exit, MovingObstacle],
        colors=[Color.NONE],
        actions=MOVE_TURN,
        reset=(
            'dynamic_obstacles',
            dict(shape=Shape(7, 7), num_obstacles=2, random_agent=False),
        ),
        transitions=['move_agent', 'turn_agent', 'move_obstacles'],
        rewards=_COMMON_REWARDS
        + [
            ('bump_moving_obstacle', dict(reward=-1.0)),
            ('bump_into_wall', dict(reward=-1.0)),
        ],
        observation=('partially_occluded', dict(area=Area((-6, 0), (-3, 3)))),
        terminating=['reach_exit', 'bump_moving_obstacle', 'bump_into_wall'],
    ),
    'dynamic_obstacles_6x11_stochastic_obs': dict(
        objects=[Wall, Floor, Exit, MovingObstacle],
        colors=[Color.NONE],
        actions=ALL_ACTIONS,
        reset=(
            'dynamic_obstacles',
            dict(random_agent=True, num_obstacles=5, shape=Shape(6, 11)),
        ),
        transitions=[
            'move_obstacles',
            'move_agent',
            'turn_agent',
            'move_obstacles',
        ],
        rewards=_COMMON_REWARDS + [('bump_moving_obstacle', dict(reward=-1.0))],
        observation=(
            'stochastic_raytracing',
            dict(area=Area((-4, 2), (-3, 3))),
        ),
        terminating=['reach_exit'],
    ),
    'keydoor_7x7': dict(
        objects=[Wall, Floor, Exit, Door, Key],
        colors=[Color.NONE, Color.YELLOW],
        actions=ALL_ACTIONS,
        reset=('keydoor', dict(shape=Shape(7, 7))),
        transitions=['move_agent', 'turn_agent', 'actuate_door', 'pickndrop'],
        rewards=_COMMON_REWARDS
        + [
            (
                'pickndrop',
                dict(object_type=Key, reward_pick=1.0, reward_drop=-1.0),
            ),
            ('actuate_door', dict(reward_open=1.0, reward_close=-1.0)),
        ],
        observation=('partially_occluded', dict(area=Area((-6, 0), (-3, 3)))),
        terminating=['reach_exit'],
    ),
    'four_rooms_9x9': dict(
        objects=[Wall, Floor, Exit],
        colors=[Color.NONE],
        actions=MOVE_TURN,
        reset=('rooms', dict(layout=(2, 2), shape=Shape(9, 9))),
        transitions=['move_agent', 'turn_agent'],
        rewards=_COMMON_REWARDS,
        observation=('fully_transparent', dict(area=Area((-3, 0), (-1, 1)))),
        terminating=['reach_exit'],
    ),
    'crossing_7x9': dict(
        objects=[Wall, Floor, Exit],
        colors=[Color.NONE],
        actions=MOVE_TURN,
        reset=(
            'crossing',
            dict(shape=Shape(7, 9), num_rivers=2, object_type=Wall),
        ),
        transitions=['move_agent', 'turn_agent'],
        rewards=_COMMON_REWARDS + [('bump_into_wall', dict(reward=-1.0))],
        observation=(
            'stochastic_raytracing',
            dict(area=Area((-6, 0), (-3, 3))),
        ),
        terminating=['reach_exit', 'bump_into_wall'],
    ),
    'teleport_7x7': dict(
        objects=[Wall, Floor, Exit, Telepod],
        colors=list(Color),
        actions=MOVE_TURN,
        reset=('teleport', dict(shape=Shape(7, 7))),
        transitions=['move_agent', 'turn_agent', 'teleport'],
        rewards=_COMMON_REWARDS,
        observation=('partially_occluded', dict(area=Area((-6, 0), (-3, 3)))),
        terminating=['reach_exit'],
    ),
    'memory_5x9': dict(
        objects=[Wall, Floor, Exit, Beacon],
        colors=[Color.NONE, Color.RED, Color.GREEN, Color.BLUE],
        actions=MOVE_TURN,
        reset=('memory', dict(colors=_RGB, shape=Shape(5, 9))),
        transitions=['move_agent', 'turn_agent'],
        rewards=_MEMORY_REWARDS,
        observation=('raytracing', dict(area=Area((-6, 0), (-3, 3)))),
        terminating=['reach_exit'],
    ),
    'memory_nine_rooms_10x10': dict(
        objects=[Wall, Floor, Exit, Beacon],
        colors=[Color.NONE, Color.RED, Color.GREEN, Color.BLUE],
        actions=MOVE_TURN,
        reset=(
            'memory_rooms',
            dict(
                num_exits=3,
                num_beacons=3,
                colors=_RGB,
                layout=(3, 3),
                shape=Shape(10, 10),
            ),
        ),
        transitions=['move_agent', 'turn_agent'],
        rewards=_MEMORY_REWARDS,
        observation=('partially_occluded', dict(area=Area((-6, 0), (-3, 3)))),
        terminating=['reach_exit'],
    ),
    'from_visibility_7x5': dict(
        objects=[Wall, Floor, Exit, MovingObstacle],
        colors=[Color.NONE],
        actions=MOVE_TURN,
        reset=(
            'dynamic_obstacles',
            dict(shape=Shape(7, 5), num_obstacles=1, random_agent=True),
        ),
        transitions=['turn_agent', 'move_obstacles', 'move_agent'],
        rewards=_COMMON_REWARDS,
        observation=(
            'from_visibility',
            dict(
                visibility_function='stochastic_raytracing',
                area=Area((-1, 1), (-2, 2)),
            ),
        ),
        terminating=['reach_exit'],
    ),
}


def make_env(name: str, factory=library_factory) -> GridWorld:
    config = CONFIGS[name]

    reset_function = factory('reset', config['reset'][0], **config['reset'][1])
    transition_function = factory(
        'transition',
        'chain',
        transition_functions=[
            factory('transition', transition_name)
            for transition_name in config['transitions']
        ],
    )
    reward_function = factory(
        'reward',
        'reduce_sum',
        reward_functions=[
            factory('reward', reward_name, **kwargs)
            for reward_name, kwargs in config['rewards']
        ],
    )
    observation_name, observation_kwargs = config['observation']
    observation_kwargs = dict(observation_kwargs)
    if 'visibility_function' in observation_kwargs:
        observation_kwargs['visibility_function'] = factory(
            'visibility', observation_kwargs['visibility_function']
        )
    observation_function = factory(
        'observation', observation_name, **observation_kwargs
    )
    terminating_function = factory(
        'terminating',
        'reduce_any',
        terminating_functions=[
            factory('terminating', terminating_name)
            for terminating_name in config['terminating']
        ],
    )

    # NOTE: a private generator, so that building touches no global generator
    build_rng = make_rng(0)
    state = reset_function(rng=build_rng)
    observation = observation_function(state, rng=build_rng)

    return GridWorld(
        StateSpace(state.grid.shape, config['objects'], config['colors']),
        ActionSpace(config['actions']),
        ObservationSpace(
            observation.grid.shape, config['objects'], config['colors']
        ),
        reset_function,
        transition_function,
        observation_function,
        reward_function,
        terminating_function,
    )


# canonical encodings (independent of hash() and of object identity)


def encode_object(obj):
    return (type(obj).__name__, int(obj.state_index), obj.color.name)


def encode_grid_agent(x):
    return (
        (x.grid.shape.height, x.grid.shape.width),
        tuple(
            encode_object(x.grid[position])
            for position in x.grid.area.positions()
        ),
        (x.agent.position.y, x.agent.position.x),
        x.agent.orientation.name,
        encode_object(x.agent.grid_object),
    )


def action_sequence(env, seed: int, n: int):
    rng = rnd.default_rng(seed)
    actions = env.action_space.actions
    return [actions[i] for i in rng.integers(len(actions), size=n)]


def trace_generator(env, actions, reseed=None):
    """yields one trace item per env operation (so that it can be interleaved)"""
    env.reset()
    yield ('reset', encode_grid_agent(env.state))
    yield ('obs', encode_grid_agent(env.observation))
    for i, action in enumerate(actions):
        if reseed is not None and i == reseed[0]:
            env.set_seed(reseed[1])
            yield ('reseed', reseed[1])
        reward, done = env.step(action)
        yield ('step', action.name, encode_grid_agent(env.state), reward, done)
        yield ('obs', encode_grid_agent(env.observation))
        if done:
            env.reset()
            yield ('reset', encode_grid_agent(env.state))
            yield ('obs', encode_grid_agent(env.observation))


def trace(env, actions, reseed=None):
    return list(trace_generator(env, actions, reseed))


def global_rng_snapshot():
    gv = gv_rng_module._gv_rng
    return (
        None if gv is None else repr(gv.bit_generator.state),
        repr(np.random.get_state()),
        repr(random.getstate()),
    )


NUM_STEPS = 60
SEEDS = [0, 1, 2**32 - 1, 1234567890123]


def check_environments_match_reference_and_reproducible():
    for debug in (True, False):
        reset_gv_debug(debug)
        for name in CONFIGS:
            for seed in SEEDS:
                env_a = make_env(name)
                env_b = make_env(name)
                env_ref = make_env(name, reference_factory)
                actions = action_sequence(env_a, seed + 1, NUM_STEPS)
                reseed = (NUM_STEPS // 2, seed + 17)

                for env in (env_a, env_b, env_ref):
                    env.set_seed(seed)
                trace_a = trace(env_a, actions, reseed)
                trace_b = trace(env_b, actions, reseed)
                trace_ref = trace(env_ref, actions, reseed)
                assert trace_a == trace_b, (name, seed, debug)
                assert trace_a == trace_ref, (name, seed, debug)

                # re-seeding the same (used) instance restarts the sequence
                env_a.set_seed(seed)
                assert trace(env_a, actions, reseed) == trace_ref

    # (the scenarios are sensitive to the seed)
    reset_gv_debug(True)
    for name in CONFIGS:
        env = make_env(name)
        actions = action_sequence(env, 1, NUM_STEPS)
        digests = set()
        for seed in range(4):
            env.set_seed(seed)
            digests.add(repr(trace(env, actions)))
        assert len(digests) > 1, name


def check_interleaving_and_isolation():
    reset_gv_debug(True)
    reset_gv_rng(123)
    np.random.seed(5)
    random.seed(5)

    names = list(CONFIGS)
    schedule_rng = rnd.default_rng(99)

    # expected, each environment on its own
    expected = {}
    for i, name in enumerate(names):
        env = make_env(name, reference_factory)
        env.set_seed(i % 3)
        expected[name] = trace(env, action_sequence(env, i, NUM_STEPS))

    snapshot = global_rng_snapshot()

    # all environments alive at once, operations randomly interleaved;  some
    # of them share the same seed
    generators = {}
    for i, name in enumerate(names):
        env = make_env(name)
        env.set_seed(i % 3)
        generators[name] = trace_generator(
            env, action_sequence(env, i, NUM_STEPS)
        )
    assert global_rng_snapshot() == snapshot, 'building/seeding drew globally'

    results = {name: [] for name in names}
    alive = list(names)
    while alive:
        name = alive[schedule_rng.integers(len(alive))]
        try:
            results[name].append(next(generators[name]))
        except StopIteration:
            alive.remove(name)
        assert global_rng_snapshot() == snapshot, f'{name} drew globally'

    for name in names:
        assert results[name] == expected[name], name

    # perturbing the global generators in between does not matter either
    for i, name in enumerate(names):
        env = make_env(name)
        env.set_seed(i % 3)
        result = []
        for item in trace_generator(env, action_sequence(env, i, NUM_STEPS)):
            result.append(item)
            gv_rng_module.get_gv_rng().random()
            np.random.random()
            random.random()
        assert result == expected[name], name


def check_unseeded_uses_library_generator():
    """no generator is baked in: without seed the library generator is used"""
    reset_gv_debug(True)
    for name in ('dynamic_obstacles_6x11_stochastic_obs', 'from_visibility_7x5'):
        traces = []
        for factory in (library_factory, reference_factory):
            env = make_env(name, factory)
            reset_gv_rng(31)
            traces.append(trace(env, action_sequence(env, 0, NUM_STEPS)))
        assert traces[0] == traces[1], name


def digest() -> str:
    """digest of seeded trajectories of every configuration"""
    h = hashlib.sha256()
    for debug in (True, False):
        reset_gv_debug(debug)
        for name in CONFIGS:
            for factory in (library_factory, reference_factory):
                env = make_env(name, factory)
                env.set_seed(42)
                h.update(repr(trace(env, action_sequence(env, 1, 40))).encode())
    reset_gv_debug(True)
    return h.hexdigest()


def check_across_processes():
    digests = {digest()}
    for hashseed in ('0', '1', '4242', 'random'):
        env = dict(os.environ, PYTHONHASHSEED=hashseed)
        output = subprocess.run(
            [sys.executable, os.path.abspath(__file__), '--digest'],
            env=env,
            cwd=os.getcwd(),
            check=True,
            stdout=subprocess.PIPE,
            stderr=subprocess.DEVNULL,
            universal_newlines=True,
        ).stdout
        digests.add(output.strip().splitlines()[-1])
    assert len(digests) == 1, digests


def main():
    if '--digest' in sys.argv:
        print(digest())
        return

    check_factories_on_registries()
    check_factories_on_custom_functions()
    check_chain_runs_parts_once_in_order()
    check_environments_match_reference_and_reproducible()
    check_interleaving_and_isolation()
    check_unseeded_uses_library_generator()
    check_across_processes()
    print('OK')


if __name__ == '__main__':
    main()
