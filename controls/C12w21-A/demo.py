"""Demo for C12: rewards and termination mean what they say and agree.

Self-contained; exits 0 on the pristine tree and with the patch applied.
Every library answer is compared with a reference implementation embedded
here (explicit displacement tables, explicit bounds checks).
"""
import copy
import itertools
import os
import sys
import warnings

sys.path.insert(0, os.getcwd())  # run from the worktree root

warnings.filterwarnings('ignore')

import numpy.random as rnd  # noqa: E402

from gym_gridverse.action import Action  # noqa: E402
from gym_gridverse.agent import Agent  # noqa: E402
from gym_gridverse.envs import reset_functions as reset_fs  # noqa: E402
from gym_gridverse.envs import reward_functions as reward_fs  # noqa: E402
from gym_gridverse.envs import terminating_functions as term_fs  # noqa: E402
from gym_gridverse.envs import transition_functions as trans_fs  # noqa: E402
from gym_gridverse.geometry import Orientation, Position, Shape  # noqa: E402
from gym_gridverse.grid import Grid  # noqa: E402
from gym_gridverse.grid_object import (  # noqa: E402
    Beacon,
    Color,
    Door,
    Exit,
    Floor,
    Key,
    MovingObstacle,
    Telepod,
    Wall,
)
from gym_gridverse.state import State  # noqa: E402

CHECKS = 0


def check(cond, *info):
    global CHECKS
    CHECKS += 1
    if not cond:
        print('FAILED', *info)
        sys.exit(1)


# ---------------------------------------------------------------- reference
HEADINGS = [Orientation.F, Orientation.R, Orientation.B, Orientation.L]
DELTA = {
    Orientation.F: (-1, 0),
    Orientation.R: (0, 1),
    Orientation.B: (1, 0),
    Orientation.L: (0, -1),
}
MOVE_TURNS = {
    Action.MOVE_FORWARD: 0,
    Action.MOVE_RIGHT: 1,
    Action.MOVE_BACKWARD: 2,
    Action.MOVE_LEFT: 3,
}


def ref_target(y, x, orientation, action):
    """cell targeted by the action: own cell for non-moves"""
    if action not in MOVE_TURNS:
        return y, x
    heading = HEADINGS[(HEADINGS.index(orientation) + MOVE_TURNS[action]) % 4]
    dy, dx = DELTA[heading]
    return y + dy, x + dx


def ref_inside(grid, y, x):
    return 0 <= y < len(grid.objects) and 0 <= x < len(grid.objects[0])


def ref_bump_wall(state, action):
    y, x = ref_target(
        state.agent.position.y,
        state.agent.position.x,
        state.agent.orientation,
        action,
    )
    return ref_inside(state.grid, y, x) and type(
        state.grid.objects[y][x]
    ) is Wall


def ref_move_agent(state, action):
    """expected agent position after move_agent"""
    y0, x0 = state.agent.position.y, state.agent.position.x
    if action not in MOVE_TURNS:
        return y0, x0
    y, x = ref_target(y0, x0, state.agent.orientation, action)
    if not ref_inside(state.grid, y, x):
        return y0, x0
    if state.grid.objects[y][x].blocks_movement:
        return y0, x0
    return y, x


def ref_under_agent(state):
    # plain list indexing, exactly like Grid.__getitem__ (negative wraps)
    return state.grid.objects[state.agent.position.y][state.agent.position.x]


def ref_on(state, object_type):
    return isinstance(ref_under_agent(state), object_type)


def ref_memory(next_state, good, bad):
    under = ref_under_agent(next_state)
    beacon_color = None
    for row in next_state.grid.objects:
        for obj in row:
            if isinstance(obj, Beacon):
                beacon_color = obj.color
                break
        if beacon_color is not None:
            break
    if not isinstance(under, Exit):
        return 0.0
    return good if under.color is beacon_color else bad


# ---------------------------------------------------------------- scenarios
def make_grid(height, width, cells):
    objects = [[Floor() for _ in range(width)] for _ in range(height)]
    for (y, x), factory in cells.items():
        objects[y % height][x % width] = factory()
    return Grid(objects)


def hand_made_grids():
    """non-square grids, walls on borders / interior, 1-wide and 1-high"""
    yield make_grid(1, 1, {})
    yield make_grid(1, 1, {(0, 0): Wall})
    yield make_grid(1, 4, {(0, 2): Wall, (0, 3): Exit})
    yield make_grid(5, 1, {(0, 0): Wall, (3, 0): Exit})
    yield make_grid(
        3,
        5,
        {
            (0, 0): Wall,
            (0, 4): Wall,
            (2, 0): Wall,
            (2, 4): Exit,
            (1, 2): Wall,
            (1, 3): MovingObstacle,
            (0, 2): lambda: Door(Door.Status.CLOSED, Color.RED),
            (2, 2): lambda: Door(Door.Status.OPEN, Color.NONE),
            (2, 1): lambda: Key(Color.NONE),
        },
    )
    walls = {(0, x): Wall for x in range(3)}
    walls.update({(5, x): Wall for x in range(3)})
    walls.update({(y, 0): Wall for y in range(6)})
    walls.update({(y, 2): Wall for y in range(6)})
    walls[(4, 1)] = lambda: Exit(Color.NONE)
    walls[(2, 1)] = lambda: Telepod(Color.BLUE)
    yield make_grid(6, 3, walls)


ALL_ACTIONS = list(Action)
PARAMS = [(-1.0,), (0.0,), (2.5,), (-1e9,)]


def check_triple(state, action, next_state):
    """all single-component claims of the property for one triple"""
    # bump into wall: fires iff attempted move targets a wall (in-grid)
    expected_bump = ref_bump_wall(state, action)
    got_term = term_fs.bump_into_wall(state, action, next_state)
    check(got_term == expected_bump, 'term bump', state, action)
    check(isinstance(got_term, bool), 'term bump type', got_term)
    check(
        reward_fs.bump_into_wall(state, action, next_state)
        == (-1.0 if expected_bump else 0.0),
        'reward bump default',
    )
    for (r,) in PARAMS:
        check(
            reward_fs.bump_into_wall(state, action, next_state, reward=r)
            == (r if expected_bump else 0.0),
            'reward bump',
            r,
        )

    # overlap family: depends on next state only
    for object_type in (Exit, MovingObstacle, Wall, Floor, Telepod, Beacon):
        on = ref_on(next_state, object_type)
        check(
            term_fs.overlap(state, action, next_state, object_type=object_type)
            is on,
            'term overlap',
            object_type,
        )
        check(
            reward_fs.overlap(
                state,
                action,
                next_state,
                object_type=object_type,
                reward_on=3.0,
                reward_off=-0.25,
            )
            == (3.0 if on else -0.25),
            'reward overlap',
            object_type,
        )
    on_exit = ref_on(next_state, Exit)
    on_obstacle = ref_on(next_state, MovingObstacle)
    check(term_fs.reach_exit(state, action, next_state) is on_exit)
    check(term_fs.bump_moving_obstacle(state, action, next_state) is on_obstacle)
    check(reward_fs.reach_exit(state, action, next_state) == float(on_exit))
    check(
        reward_fs.reach_exit(
            state, action, next_state, reward_on=7.0, reward_off=-2.0
        )
        == (7.0 if on_exit else -2.0)
    )
    check(
        reward_fs.bump_moving_obstacle(state, action, next_state, reward=-4.0)
        == (-4.0 if on_obstacle else 0.0)
    )

    # composites: sum / any / all of the parts; exit reward iff exit termination
    parts_r = [
        lambda s, a, n, *, rng=None: reward_fs.reach_exit(
            s, a, n, reward_on=5.0, reward_off=0.0, rng=rng
        ),
        lambda s, a, n, *, rng=None: reward_fs.bump_into_wall(
            s, a, n, reward=-0.5, rng=rng
        ),
        lambda s, a, n, *, rng=None: reward_fs.living_reward(
            s, a, n, reward=-0.125, rng=rng
        ),
        lambda s, a, n, *, rng=None: reward_fs.bump_moving_obstacle(
            s, a, n, reward=-2.0, rng=rng
        ),
    ]
    total = reward_fs.reduce_sum(state, action, next_state, reward_functions=parts_r)
    expected_total = (
        (5.0 if on_exit else 0.0)
        + (-0.5 if expected_bump else 0.0)
        - 0.125
        + (-2.0 if on_obstacle else 0.0)
    )
    check(total == expected_total, 'reduce_sum', total, expected_total)
    check(reward_fs.reduce_sum(state, action, next_state, reward_functions=[]) == 0)

    parts_t = [term_fs.reach_exit, term_fs.bump_into_wall, term_fs.bump_moving_obstacle]
    check(
        term_fs.reduce_any(state, action, next_state, terminating_functions=parts_t)
        is (on_exit or expected_bump or on_obstacle)
    )
    check(
        term_fs.reduce_all(state, action, next_state, terminating_functions=parts_t)
        is (on_exit and expected_bump and on_obstacle)
    )
    check(term_fs.reduce_any(state, action, next_state, terminating_functions=[]) is False)
    check(term_fs.reduce_all(state, action, next_state, terminating_functions=[]) is True)
    # exit reward paid on exactly the steps exit-termination fires
    check(
        (parts_r[0](state, action, next_state) == 5.0)
        is term_fs.reach_exit(state, action, next_state)
    )

    # pick / drop: fires exactly on the change of the held object
    had = isinstance(state.agent.grid_object, Key)
    has = isinstance(next_state.agent.grid_object, Key)
    check(
        reward_fs.pickndrop(
            state, action, next_state, object_type=Key, reward_pick=2.0, reward_drop=-3.0
        )
        == (2.0 if (not had and has) else -3.0 if (had and not has) else 0.0)
    )


def check_move_agent(state, action):
    expected = ref_move_agent(state, action)
    before_grid = copy.deepcopy(state.grid)
    before_orientation = state.agent.orientation
    next_state = copy.deepcopy(state)
    trans_fs.move_agent(next_state, action)
    check(
        (next_state.agent.position.y, next_state.agent.position.x) == expected,
        'move_agent',
        state,
        action,
        expected,
    )
    check(next_state.agent.orientation is before_orientation)
    check(next_state.grid == before_grid, 'move_agent touched grid')
    check(isinstance(next_state.agent.position, Position))
    return next_state


def exhaustive_hand_made():
    for grid in hand_made_grids():
        height, width = grid.shape.height, grid.shape.width
        for y, x, orientation, action in itertools.product(
            range(height), range(width), HEADINGS, ALL_ACTIONS
        ):
            state = State(copy.deepcopy(grid), Agent(Position(y, x), orientation))
            # next state from the real move dynamics
            next_state = check_move_agent(state, action)
            check_triple(state, action, next_state)
            # repeated call: deterministic, inputs untouched
            snapshot = copy.deepcopy(state)
            check_triple(state, action, next_state)
            check(state == snapshot, 'state mutated by reward/termination')
            # arbitrary next state: agent anywhere, different grid contents
            for ny, nx in ((0, 0), (height - 1, width - 1), (height // 2, width // 2)):
                other = State(
                    copy.deepcopy(grid),
                    Agent(Position(ny, nx), Orientation.B, Key(Color.NONE)),
                )
                check_triple(state, action, other)


def memory_cases():
    for color_exit, color_beacon in itertools.product(
        [Color.NONE, Color.RED, Color.GREEN], repeat=2
    ):
        grid = make_grid(
            2,
            4,
            {
                (0, 0): lambda: Beacon(color_beacon),
                (0, 3): lambda: Exit(color_exit),
                (1, 3): lambda: Exit(Color.YELLOW),
            },
        )
        for y, x, orientation in itertools.product(range(2), range(4), HEADINGS):
            next_state = State(grid, Agent(Position(y, x), orientation))
            for action in ALL_ACTIONS:
                got = reward_fs.reach_exit_memory(
                    next_state, action, next_state, reward_good=4.0, reward_bad=-6.0
                )
                check(got == ref_memory(next_state, 4.0, -6.0), 'memory', y, x)
                if (y, x) == (0, 3):
                    check(got == (4.0 if color_exit is color_beacon else -6.0))
                elif (y, x) == (1, 3):
                    check(got == -6.0)
                else:
                    check(got == 0.0)
                # exit termination fires on exactly the steps memory reward pays
                check(
                    (got != 0.0)
                    is term_fs.reach_exit(next_state, action, next_state)
                )


def door_and_distance_cases():
    closed = lambda: Door(Door.Status.CLOSED, Color.NONE)  # noqa: E731
    opened = lambda: Door(Door.Status.OPEN, Color.NONE)  # noqa: E731
    for before, after, expected in (
        (closed, opened, 1.5),
        (opened, closed, -2.5),
        (closed, closed, 0.0),
        (opened, opened, 0.0),
    ):
        state = State(make_grid(3, 2, {(0, 1): before}), Agent(Position(1, 1), Orientation.F))
        next_state = State(make_grid(3, 2, {(0, 1): after}), Agent(Position(1, 1), Orientation.F))
        for action in ALL_ACTIONS:
            got = reward_fs.actuate_door(
                state, action, next_state, reward_open=1.5, reward_close=-2.5
            )
            check(got == (expected if action is Action.ACTUATE else 0.0), 'door')
    # facing off-grid: no reward
    state = State(make_grid(3, 2, {}), Agent(Position(0, 1), Orientation.F))
    check(reward_fs.actuate_door(state, Action.ACTUATE, state) == 0.0)

    # distance shaping has the sign of the change in distance
    grid = make_grid(4, 7, {(3, 6): Exit})
    for (y0, x0), (y1, x1) in itertools.product(
        [(0, 0), (3, 5), (2, 6), (0, 6), (3, 0)], repeat=2
    ):
        state = State(grid, Agent(Position(y0, x0), Orientation.F))
        next_state = State(grid, Agent(Position(y1, x1), Orientation.L))
        d0 = abs(3 - y0) + abs(6 - x0)
        d1 = abs(3 - y1) + abs(6 - x1)
        expected = 0.75 if d1 < d0 else -0.5 if d1 > d0 else 0.0
        for f in (reward_fs.getting_closer, reward_fs.getting_closer_shortest_path):
            got = f(
                state,
                Action.MOVE_FORWARD,
                next_state,
                object_type=Exit,
                reward_closer=0.75,
                reward_further=-0.5,
            )
            check(got == expected, f.__name__, (y0, x0), (y1, x1))
        check(
            reward_fs.proportional_to_distance(
                state, Action.MOVE_LEFT, next_state, object_type=Exit, reward_per_unit_distance=-0.5
            )
            == -0.5 * d1
        )


def trajectories():
    """shipped reset functions + shipped dynamics, several seeds, re-seeding"""
    configs = [
        (lambda rng: reset_fs.empty(Shape(4, 7), random_agent=True, random_exit=True, rng=rng),
         [trans_fs.move_agent, trans_fs.turn_agent]),
        (lambda rng: reset_fs.rooms(Shape(7, 9), (2, 2), rng=rng),
         [trans_fs.move_agent, trans_fs.turn_agent]),
        (lambda rng: reset_fs.dynamic_obstacles(Shape(6, 8), 3, random_agent=True, rng=rng),
         [trans_fs.move_obstacles, trans_fs.move_agent, trans_fs.turn_agent]),
        (lambda rng: reset_fs.keydoor(Shape(6, 9), rng=rng),
         [trans_fs.move_agent, trans_fs.turn_agent, trans_fs.actuate_door, trans_fs.pickndrop]),
        (lambda rng: reset_fs.crossing(Shape(7, 9), 2, Wall, rng=rng),
         [trans_fs.move_agent, trans_fs.turn_agent]),
        (lambda rng: reset_fs.teleport(Shape(6, 9), rng=rng),
         [trans_fs.move_agent, trans_fs.turn_agent, trans_fs.teleport]),
        (lambda rng: reset_fs.memory(Shape(5, 9), {Color.RED, Color.GREEN, Color.BLUE}, rng=rng),
         [trans_fs.move_agent, trans_fs.turn_agent]),
    ]
    for (reset, parts), seed in itertools.product(configs, [0, 1, 7]):
        runs = []
        for _ in range(2):  # re-seeding reproduces the very same trajectory
            rng = rnd.default_rng(seed)
            action_rng = rnd.default_rng(seed + 1000)
            state = reset(rng)
            trace = []
            for _ in range(60):
                action = ALL_ACTIONS[action_rng.integers(len(ALL_ACTIONS))]
                next_state = copy.deepcopy(state)
                trans_fs.chain(next_state, action, transition_functions=parts, rng=rng)
                check_triple(state, action, next_state)
                check(ref_inside(next_state.grid, next_state.agent.position.y, next_state.agent.position.x))
                trace.append(
                    (
                        action,
                        next_state.agent.position,
                        next_state.agent.orientation,
                        reward_fs.reach_exit(state, action, next_state),
                        term_fs.bump_into_wall(state, action, next_state),
                    )
                )
                done = term_fs.reach_exit(state, action, next_state)
                state = reset(rng) if done else next_state
            runs.append(trace)
        check(runs[0] == runs[1], 're-seeding changed the trajectory')


def off_grid_attempts():
    """arbitrary states: agent just outside / far outside the grid"""
    grid = make_grid(3, 4, {(0, 0): Wall, (0, 3): Wall, (2, 3): Wall, (1, 0): Exit})
    inside = State(grid, Agent(Position(1, 1), Orientation.F))
    for y, x in itertools.product(range(-2, 5), range(-2, 6)):
        if ref_inside(grid, y, x):
            continue
        for orientation, action in itertools.product(HEADINGS, ALL_ACTIONS):
            state = State(copy.deepcopy(grid), Agent(Position(y, x), orientation))
            ty, tx = ref_target(y, x, orientation, action)
            expected = ref_inside(grid, ty, tx) and type(grid.objects[ty][tx]) is Wall
            got = term_fs.bump_into_wall(state, action, inside)
            check(got == expected and isinstance(got, bool), 'off-grid bump', y, x)
            check(
                reward_fs.bump_into_wall(state, action, inside, reward=-3.0)
                == (-3.0 if expected else 0.0)
            )
            next_state = copy.deepcopy(state)
            trans_fs.move_agent(next_state, action)
            check(
                (next_state.agent.position.y, next_state.agent.position.x)
                == ref_move_agent(state, action),
                'off-grid move',
                y,
                x,
                orientation,
                action,
            )


if __name__ == '__main__':
    off_grid_attempts()
    exhaustive_hand_made()
    memory_cases()
    door_and_distance_cases()
    trajectories()
    print(f'OK ({CHECKS} checks)')
