"""C15 demo for change B (Space.dtype used by the gym layer).

Runs from the worktree root:  /venv/bin/python _seed/B/demo.py
Exits 0 on the pristine tree and with _seed/B/patch.diff applied.

It checks that
 * the scalar type advertised for a Space at the gym layer is int64 for
   categorical and discrete spaces and float64 for continuous ones, with
   bounds equal to the Space bounds, for hand-made spaces of every type and
   shape (scalars-as-arrays, empty arrays, degenerate bounds included);
 * if Space offers a `dtype` attribute, it is the python type `int` / `float`
   matching the space type, is compatible with is_dtype_compatible, and does
   not interfere with equality, `shape` or `contains`;
 * whole states / observations (non-square grids, every agent position and
   heading, every held item, asymmetric views) convert key by key to arrays of
   the declared shape, dtype and bounds, both for the library's Space and for
   the gym Box / Dict built from it (dtype equal, not merely castable);
 * the same along trajectories of the shipped configurations, including
   through GymEnvironment, with several environments alive at once, after
   re-seeding and after switching representations.
"""
import itertools
import os
import random
import sys
import warnings

# run from the worktree root:  the library under test is the one in the cwd
sys.path.insert(0, os.getcwd())
warnings.filterwarnings('ignore')

import numpy as np

from gym_gridverse.action import Action
from gym_gridverse.agent import Agent
from gym_gridverse.envs.yaml.factory import factory_env_from_data
from gym_gridverse.geometry import Orientation, Position, Shape
from gym_gridverse.grid import Grid
from gym_gridverse.grid_object import (
    Beacon,
    Box,
    Color,
    Door,
    Exit,
    Floor,
    Hidden,
    Key,
    MovingObstacle,
    NoneGridObject,
    Telepod,
    Wall,
    grid_object_registry,
)
from gym_gridverse.observation import Observation
from gym_gridverse.outer_env import OuterEnv
from gym_gridverse.representations import representation as R
from gym_gridverse.representations.observation_representations import (
    CompactGridObjectObservationRepresentation,
    DefaultGridObjectObservationRepresentation,
    NoOverlapGridObjectObservationRepresentation,
    make_observation_representation,
)
from gym_gridverse.representations.spaces import Space, SpaceType
from gym_gridverse.representations.state_representations import (
    CompactGridObjectStateRepresentation,
    DefaultGridObjectStateRepresentation,
    NoOverlapGridObjectStateRepresentation,
    make_state_representation,
)
from gym_gridverse.spaces import ObservationSpace, StateSpace
from gym_gridverse.state import State

try:
    from gym_gridverse.gym import GymEnvironment, outer_space_to_gym_space

    HAVE_GYM = True
except Exception:  # the gym layer is optional for this demo
    HAVE_GYM = False

NAMES = ('default', 'no-overlap', 'compact')
ALL_TYPES = list(grid_object_registry)
NON_NONE_COLORS = [c for c in Color if c is not Color.NONE]
CHECKS = 0


def check(condition, *message):
    global CHECKS
    CHECKS += 1
    if not condition:
        print('FAILED:', *message)
        sys.exit(1)


# ---------------------------------------------------------------------------
# members of the spaces


def instances(object_type, colors):
    """every instance (status x colour) of a type, colours within `colors`"""
    colors = sorted(colors, key=lambda c: c.value)
    if object_type in (NoneGridObject, Hidden, Floor, Wall, MovingObstacle):
        return [object_type()]
    if object_type is Exit:
        return [Exit(c) for c in colors]
    if object_type is Door:
        return [Door(s, c) for s in Door.Status for c in colors]
    if object_type in (Key, Telepod, Beacon):
        return [object_type(c) for c in colors]
    if object_type is Box:
        return [Box(Floor()), Box(Key(colors[-1])), Box(Box(Wall()))]
    raise AssertionError(object_type)


# ---------------------------------------------------------------------------
# reference implementation (independent, closed form) of the three grid-object
# representations:  `types` and `colors` are the complete sets the
# representation ranges over (NoneGridObject / Hidden / Color.NONE included)


def ref_upper(name, types, colors):
    mt = max(t.type_index() for t in types)
    ms = max(t.num_states() for t in types)  # sic: num_states, not minus one
    mc = max(c.value for c in colors)
    if name == 'default':
        return [mt, ms, mc]
    if name == 'no-overlap':
        return [mt, mt + ms + 1, mt + ms + mc + 2]
    n_types = len(types)
    n_states = sum(t.num_states() for t in types)
    return [n_types - 1, n_types + n_states - 1, n_types + n_states + len(colors) - 1]


def ref_convert(name, types, colors, obj):
    ti, si, cv = obj.type_index(), obj.state_index, obj.color.value
    if name == 'default':
        return [ti, si, cv]
    mt = max(t.type_index() for t in types)
    ms = max(t.num_states() for t in types)
    if name == 'no-overlap':
        return [ti, mt + si + 1, mt + ms + cv + 2]
    n_types = len(types)
    n_states = sum(t.num_states() for t in types)
    type_rank = sum(1 for t in types if t.type_index() < ti)
    states_before = sum(
        t.num_states() for t in types if t.type_index() < ti
    )
    color_rank = sum(1 for c in colors if c.value < cv)
    return [
        type_rank,
        n_types + states_before + si,
        n_types + n_states + color_rank,
    ]


def state_sets(object_types, colors):
    return set(object_types) | {NoneGridObject}, set(colors) | {Color.NONE}


def observation_sets(object_types, colors):
    return (
        set(object_types) | {NoneGridObject, Hidden},
        set(colors) | {Color.NONE},
    )


def check_array_in_space(space, array, *where):
    """the property, spelled out without Space.contains, then with it"""
    check(isinstance(array, np.ndarray), 'not an array', *where)
    check(array.shape == space.lower_bound.shape, 'shape', array.shape, *where)
    check(array.shape == space.upper_bound.shape, 'shape', array.shape, *where)
    if space.space_type is SpaceType.CONTINUOUS:
        check(np.issubdtype(array.dtype, np.floating), 'dtype', array.dtype, *where)
    else:
        check(np.issubdtype(array.dtype, np.integer), 'dtype', array.dtype, *where)
    check(bool(np.all(space.lower_bound <= array)), 'lower bound', *where)
    check(bool(np.all(array <= space.upper_bound)), 'upper bound', *where)
    check(bool(space.contains(array)), 'Space.contains', *where)


def check_object_space(space, name, types, colors, *where):
    check(space.space_type is SpaceType.CATEGORICAL, 'space type', *where)
    check(space.lower_bound.dtype == np.int64, 'dtype', *where)
    check(space.upper_bound.dtype == np.int64, 'dtype', *where)
    check(space.lower_bound.tolist() == [0, 0, 0], 'lower', *where)
    check(
        space.upper_bound.tolist() == ref_upper(name, types, colors),
        'upper bound differs from reference',
        space.upper_bound.tolist(),
        ref_upper(name, types, colors),
        *where,
    )


def check_object_convert(rep, space, name, types, colors, obj, *where):
    array = rep.convert(obj)
    expected = ref_convert(name, types, colors, obj)
    check(array.dtype == np.int64, 'dtype', array.dtype, obj, *where)
    check(
        array.tolist() == expected,
        'convert differs from reference',
        array.tolist(),
        expected,
        obj,
        *where,
    )
    check_array_in_space(space, array, obj, *where)


# ---------------------------------------------------------------------------
# part 1:  grid-object level, all subsets of the registered types


STATE_OBJECT_REPS = {
    'default': DefaultGridObjectStateRepresentation,
    'no-overlap': NoOverlapGridObjectStateRepresentation,
    'compact': CompactGridObjectStateRepresentation,
}
OBSERVATION_OBJECT_REPS = {
    'default': DefaultGridObjectObservationRepresentation,
    'no-overlap': NoOverlapGridObjectObservationRepresentation,
    'compact': CompactGridObjectObservationRepresentation,
}


def grid_object_level(object_types, colors):
    where = ([t.__name__ for t in object_types], [c.name for c in colors])
    state_space = StateSpace(Shape(2, 2), object_types, colors)
    observation_space = ObservationSpace(Shape(2, 3), object_types, colors)

    for space_, reps, (types, all_colors) in (
        (state_space, STATE_OBJECT_REPS, state_sets(object_types, colors)),
        (
            observation_space,
            OBSERVATION_OBJECT_REPS,
            observation_sets(object_types, colors),
        ),
    ):
        members = [
            obj for t in sorted(types, key=lambda t: t.type_index())
            for obj in instances(t, all_colors)
        ]
        for name in NAMES:
            try:
                rep = reps[name](space_)
            except ValueError:
                # compact state representation over no object type at all:
                # StateSpace.max_grid_object_type has nothing to maximise
                check(
                    name == 'compact' and not object_types and space_ is state_space,
                    'unexpected ValueError',
                    name,
                    *where,
                )
                continue
            space = rep.space
            check_object_space(space, name, types, all_colors, name, *where)
            # repeated calls give equal, independent spaces
            check(rep.space == space, 'space not repeatable', name, *where)
            for obj in members:
                check_object_convert(
                    rep, space, name, types, all_colors, obj, name, *where
                )


def part_grid_objects():
    rng = random.Random(15)
    subsets = [
        [t for i, t in enumerate(ALL_TYPES) if mask >> i & 1]
        for mask in range(2 ** len(ALL_TYPES))
    ]
    all_color_subsets = [
        list(cs)
        for n in range(len(NON_NONE_COLORS) + 1)
        for cs in itertools.combinations(NON_NONE_COLORS, n)
    ]
    # every subset of the registered types (in registration order and
    # shuffled), with two colour subsets each
    for object_types in subsets:
        grid_object_level(object_types, rng.choice(all_color_subsets))
        shuffled = list(object_types)
        rng.shuffle(shuffled)
        grid_object_level(shuffled, [Color.NONE] + rng.choice(all_color_subsets))
    # every colour subset, with a few type subsets each
    for colors in all_color_subsets:
        for object_types in (
            [],
            [Floor],
            [Door],
            [Wall, Floor, Exit, Door, Key],
            [Beacon, Exit, Floor, Wall],
            ALL_TYPES,
            rng.choice(subsets),
        ):
            grid_object_level(object_types, colors)
            grid_object_level(object_types, colors + colors[:1])


def part_functions_directly():
    """the module-level functions, called with raw sets"""
    rng = random.Random(16)
    for _ in range(300):
        types = set(rng.sample(ALL_TYPES, rng.randint(1, len(ALL_TYPES))))
        colors = set(rng.sample(list(Color), rng.randint(1, len(Color))))
        where = (sorted(t.__name__ for t in types), sorted(c.name for c in colors))
        s = R.default_grid_object_representation_space(types, colors)
        check_object_space(s, 'default', types, colors, *where)
        s = R.no_overlap_grid_object_representation_space(types, colors)
        check_object_space(s, 'no-overlap', types, colors, *where)
        for t in types:
            for obj in instances(t, colors):
                a = R.default_grid_object_representation_convert(obj)
                check(a.tolist() == ref_convert('default', types, colors, obj), *where)
                a = R.no_overlap_grid_object_representation_convert(
                    types, colors, obj
                )
                check(a.dtype == np.int64, 'dtype', *where)
                check(
                    a.tolist() == ref_convert('no-overlap', types, colors, obj),
                    'no-overlap function',
                    obj,
                    *where,
                )
                check_array_in_space(s, a, obj, *where)
                # the colour set is not looked at by the conversion
                b = R.no_overlap_grid_object_representation_convert(
                    types, set(), obj
                )
                check(a.tolist() == b.tolist(), 'colours matter?', *where)

    # nothing to maximise over:  ValueError, as always
    for f, args in (
        (R.default_grid_object_representation_space, (set(), {Color.NONE})),
        (R.default_grid_object_representation_space, ({Floor}, set())),
        (R.no_overlap_grid_object_representation_space, (set(), {Color.NONE})),
        (R.no_overlap_grid_object_representation_space, ({Floor}, set())),
        (R.no_overlap_grid_object_representation_convert, (set(), set(), Floor())),
    ):
        try:
            f(*args)
        except ValueError:
            check(True)
        else:
            check(False, 'no ValueError', f.__name__, args)


# ---------------------------------------------------------------------------
# part 2:  whole states and observations


def ref_grid_array(name, types, colors, grid):
    return [
        [
            ref_convert(name, types, colors, grid[y, x])
            for x in range(grid.shape.width)
        ]
        for y in range(grid.shape.height)
    ]


def ref_agent_id_grid(shape, position):
    return [
        [int((y, x) == (position.y, position.x)) for x in range(shape.width)]
        for y in range(shape.height)
    ]


def check_dict(rep_space, arrays, keys, *where):
    check(list(rep_space.keys()) == keys, 'space keys', list(rep_space), *where)
    check(list(arrays.keys()) == keys, 'array keys', list(arrays), *where)
    for key in keys:
        check_array_in_space(rep_space[key], arrays[key], key, *where)


def check_gym(rep_space, arrays, *where):
    if not HAVE_GYM:
        return
    gym_space = outer_space_to_gym_space(rep_space)
    check(list(gym_space.spaces.keys()) == sorted(rep_space.keys()) or
          set(gym_space.spaces.keys()) == set(rep_space.keys()), 'gym keys', *where)
    for key, space in rep_space.items():
        box = gym_space.spaces[key]
        expected = (
            np.float64 if space.space_type is SpaceType.CONTINUOUS else np.int64
        )
        check(box.dtype == expected, 'gym dtype', key, box.dtype, *where)
        check(box.shape == space.lower_bound.shape, 'gym shape', key, *where)
        check(np.array_equal(box.low, space.lower_bound), 'gym low', key, *where)
        check(np.array_equal(box.high, space.upper_bound), 'gym high', key, *where)
        check(box.low.dtype == expected and box.high.dtype == expected, 'gym bound dtype', key, *where)
        check(bool(box.contains(arrays[key])), 'gym Box.contains', key, *where)
        # dtype as advertised, not merely castable
        check(arrays[key].dtype == box.dtype, 'gym array dtype', key, *where)
    check(bool(gym_space.contains(arrays)), 'gym Dict.contains', *where)


def random_grid(rng, shape, pool):
    return Grid(
        [[rng.choice(pool) for _ in range(shape.width)] for _ in range(shape.height)]
    )


def whole_level(rng, state_shape, view_shape, object_types, colors):
    where = (state_shape, view_shape, [t.__name__ for t in object_types])
    state_space = StateSpace(state_shape, object_types, colors)
    observation_space = ObservationSpace(view_shape, object_types, colors)
    s_types, s_colors = state_sets(object_types, colors)
    o_types, o_colors = observation_sets(object_types, colors)

    s_pool = [o for t in object_types for o in instances(t, s_colors)]
    o_pool = [o for t in list(object_types) + [Hidden] for o in instances(t, o_colors)]
    items = [
        o for t in list(object_types) + [NoneGridObject]
        for o in instances(t, s_colors)
    ]

    representable = all(t.can_be_represented_in_state() for t in object_types)

    for name in NAMES:
        # --- states
        if not representable:
            try:
                make_state_representation(name, state_space)
            except ValueError:
                check(True)
            else:
                check(False, 'unrepresentable state space accepted', *where)
        else:
            rep = make_state_representation(name, state_space)
            rep_space = rep.space
            keys = ['grid', 'agent_id_grid', 'agent', 'item']
            h, w = state_shape.height, state_shape.width
            check(rep_space['grid'].lower_bound.shape == (h, w, 3), *where)
            check(
                rep_space['grid'].upper_bound.tolist()
                == [[ref_upper(name, s_types, s_colors)] * w] * h,
                'state grid upper',
                name,
                *where,
            )
            check(rep_space['item'].upper_bound.tolist() == ref_upper(name, s_types, s_colors), *where)
            check(rep_space['agent'].lower_bound.tolist() == [-1, -1, 0, 0, 0, 0], *where)
            check(rep_space['agent'].upper_bound.tolist() == [1] * 6, *where)
            check(rep_space['agent_id_grid'].lower_bound.tolist() == [[0] * w] * h, *where)
            check(rep_space['agent_id_grid'].upper_bound.tolist() == [[1] * w] * h, *where)
            positions = [Position(y, x) for y in range(h) for x in range(w)]
            for position in positions:
                for orientation in Orientation:
                    item = rng.choice(items)
                    grid = random_grid(rng, state_shape, s_pool)
                    state = State(grid, Agent(position, orientation, item))
                    arrays = rep.convert(state)
                    check_dict(rep_space, arrays, keys, name, position, orientation, *where)
                    check(
                        arrays['grid'].tolist() == ref_grid_array(name, s_types, s_colors, grid),
                        'state grid array', name, *where,
                    )
                    check(arrays['grid'].dtype == np.int64, *where)
                    check(
                        arrays['item'].tolist() == ref_convert(name, s_types, s_colors, item),
                        'state item array', name, item, *where,
                    )
                    check(
                        arrays['agent_id_grid'].tolist() == ref_agent_id_grid(state_shape, position),
                        'state agent id grid', *where,
                    )
                    expected_agent = [
                        (2 * position.y - h + 1) / (h - 1),
                        (2 * position.x - w + 1) / (w - 1),
                        0.0, 0.0, 0.0, 0.0,
                    ]
                    expected_agent[2 + orientation.value] = 1.0
                    check(arrays['agent'].tolist() == expected_agent, 'agent array', *where)
                    check(arrays['agent'].dtype == np.float64, *where)
                    check_gym(rep_space, arrays, 'state', name, *where)
            # every held item once more, agent in a corner
            for item in items:
                grid = random_grid(rng, state_shape, s_pool)
                state = State(grid, Agent(Position(h - 1, 0), Orientation.L, item))
                arrays = rep.convert(state)
                check_dict(rep_space, arrays, keys, name, item, *where)
                check(arrays['item'].tolist() == ref_convert(name, s_types, s_colors, item), *where)

        # --- observations
        rep = make_observation_representation(name, observation_space)
        rep_space = rep.space
        keys = ['grid', 'agent_id_grid', 'item']
        h, w = view_shape.height, view_shape.width
        check(
            rep_space['grid'].upper_bound.tolist()
            == [[ref_upper(name, o_types, o_colors)] * w] * h,
            'observation grid upper',
            name,
            *where,
        )
        check(rep_space['item'].upper_bound.tolist() == ref_upper(name, o_types, o_colors), *where)
        positions = [Position(y, x) for y in range(h) for x in range(w)]
        for position in positions:
            for orientation in Orientation:
                item = rng.choice(items)
                grid = random_grid(rng, view_shape, o_pool)
                observation = Observation(grid, Agent(position, orientation, item))
                arrays = rep.convert(observation)
                check_dict(rep_space, arrays, keys, name, position, orientation, *where)
                check(
                    arrays['grid'].tolist() == ref_grid_array(name, o_types, o_colors, grid),
                    'observation grid array', name, *where,
                )
                check(arrays['grid'].dtype == np.int64, *where)
                check(
                    arrays['item'].tolist() == ref_convert(name, o_types, o_colors, item),
                    'observation item array', name, item, *where,
                )
                check(
                    arrays['agent_id_grid'].tolist() == ref_agent_id_grid(view_shape, position),
                    'observation agent id grid', *where,
                )
                check_gym(rep_space, arrays, 'observation', name, *where)
        for item in items:
            grid = random_grid(rng, view_shape, o_pool)
            observation = Observation(
                grid, Agent(observation_space.agent_position, Orientation.F, item)
            )
            arrays = rep.convert(observation)
            check_dict(rep_space, arrays, keys, name, item, *where)
            check(arrays['item'].tolist() == ref_convert(name, o_types, o_colors, item), *where)


def part_whole():
    rng = random.Random(17)
    cases = [
        (Shape(2, 2), Shape(1, 1), [Floor], []),
        (Shape(2, 5), Shape(2, 3), [Wall, Floor, Exit, Door, Key], [Color.YELLOW]),
        (Shape(5, 2), Shape(4, 1), [Door], list(Color)),
        (Shape(3, 7), Shape(1, 5), [Wall, Floor, Exit, Beacon], NON_NONE_COLORS),
        (Shape(4, 3), Shape(7, 7), [t for t in ALL_TYPES if t not in (Hidden, Box)], list(Color)),
        (Shape(2, 3), Shape(3, 3), ALL_TYPES, [Color.RED, Color.BLUE]),
        (Shape(3, 3), Shape(2, 5), [Box, Floor, Telepod], [Color.GREEN]),
        (Shape(6, 4), Shape(3, 7), [MovingObstacle, NoneGridObject, Telepod, Key], [Color.NONE, Color.BLUE]),
    ]
    for case in cases:
        whole_level(rng, *case)


# ---------------------------------------------------------------------------
# part 3:  trajectories of the shipped configurations (the yaml files of
# gym_gridverse/registered_envs, transcribed;  reward functions do not
# influence states or observations and are reduced to a living reward)

SIX_ACTIONS = [
    'MOVE_FORWARD', 'MOVE_BACKWARD', 'MOVE_LEFT', 'MOVE_RIGHT',
    'TURN_LEFT', 'TURN_RIGHT',
]
FIVE = ['NONE', 'RED', 'GREEN', 'BLUE', 'YELLOW']
FOUR = ['RED', 'GREEN', 'BLUE', 'YELLOW']
MOVE_TURN = ['move_agent', 'turn_agent']
REACH_EXIT = {'name': 'reach_exit'}


def shipped(objects, colors, reset, transitions, terminating=REACH_EXIT, actions=SIX_ACTIONS):
    data = {
        'state_space': {'objects': list(objects), 'colors': list(colors)},
        'observation_space': {'objects': list(objects), 'colors': list(colors)},
        'reset_function': dict(reset),
        'transition_functions': [{'name': n} for n in transitions],
        'reward_functions': [{'name': 'living_reward', 'reward': -0.05}],
        'observation_function': {
            'name': 'partially_occluded',
            'area': [[-6, 0], [-3, 3]],
        },
        'terminating_function': dict(terminating),
    }
    if actions is not None:
        data['action_space'] = list(actions)
    return data


WFE = ['Wall', 'Floor', 'Exit']
SHIPPED = {}
for n in (5, 7):
    SHIPPED[f'crossing.{n}x{n}'] = shipped(
        WFE, ['NONE'],
        {'name': 'crossing', 'shape': [n, n], 'num_rivers': 1 if n == 5 else 2, 'object_type': 'Wall'},
        MOVE_TURN,
    )
    SHIPPED[f'dynamic_obstacles.{n}x{n}'] = shipped(
        WFE + ['MovingObstacle'], ['NONE'],
        {'name': 'dynamic_obstacles', 'shape': [n, n], 'num_obstacles': 1 if n == 5 else 2, 'random_agent': False},
        MOVE_TURN + ['move_obstacles'],
        {'name': 'reduce_any', 'terminating_functions': [
            {'name': 'reach_exit'}, {'name': 'bump_moving_obstacle'}, {'name': 'bump_into_wall'}]},
    )
    SHIPPED[f'teleport.{n}x{n}'] = shipped(
        WFE + ['Telepod'], ['NONE', 'RED'],
        {'name': 'teleport', 'shape': [n, n], 'random_agent': True},
        MOVE_TURN + ['teleport'],
    )
for n in (4, 8):
    SHIPPED[f'empty.{n}x{n}'] = shipped(
        WFE, ['NONE'], {'name': 'empty', 'shape': [n, n], 'random_agent': True}, MOVE_TURN)
for n, layout in ((7, [2, 2]), (9, [2, 2]), (10, [3, 3]), (13, [3, 3])):
    SHIPPED[f'rooms.{n}x{n}'] = shipped(
        WFE, ['NONE'], {'name': 'rooms', 'shape': [n, n], 'layout': layout}, MOVE_TURN)
    SHIPPED[f'memory_rooms.{n}x{n}'] = shipped(
        WFE + ['Beacon'], FIVE,
        {'name': 'memory_rooms', 'shape': [n, n], 'layout': layout, 'colors': FOUR,
         'num_beacons': 1, 'num_exits': 2},
        MOVE_TURN,
    )
for n in (5, 7, 9):
    SHIPPED[f'keydoor.{n}x{n}'] = shipped(
        WFE + ['Door', 'Key'], ['NONE', 'YELLOW'],
        {'name': 'keydoor', 'shape': [n, n]},
        MOVE_TURN + ['actuate_door', 'pickndrop'],
        actions=None,
    )
for n in (5, 9):
    SHIPPED[f'memory.{n}x{n}'] = shipped(
        WFE + ['Beacon'], FIVE,
        {'name': 'memory', 'shape': [n, n], 'colors': FOUR}, MOVE_TURN)


def check_env_step(env, state_reps, observation_reps, *where):
    for name in NAMES:
        rep = state_reps[name]
        check_dict(rep.space, rep.convert(env.state), ['grid', 'agent_id_grid', 'agent', 'item'], 'state', name, *where)
        rep = observation_reps[name]
        check_dict(rep.space, rep.convert(env.observation), ['grid', 'agent_id_grid', 'item'], 'observation', name, *where)


def part_trajectories(num_steps=60):
    rng = random.Random(18)
    envs = {}
    for key, data in SHIPPED.items():
        try:
            envs[key] = factory_env_from_data(data)
        except Exception as error:  # configuration not constructible here
            print('  (skipping', key, repr(error), ')')
    check(len(envs) >= 15, 'too few shipped configurations could be built', len(envs))

    for key, env in envs.items():
        state_reps = {n: make_state_representation(n, env.state_space) for n in NAMES}
        observation_reps = {
            n: make_observation_representation(n, env.observation_space) for n in NAMES
        }
        actions = env.action_space.actions
        for seed in (0, 1):
            env.set_seed(seed)
            env.reset()
            check_env_step(env, state_reps, observation_reps, key, seed, 'reset')
            for step in range(num_steps):
                _, done = env.step(rng.choice(actions))
                check_env_step(env, state_reps, observation_reps, key, seed, step)
                if done:
                    env.reset()
                    check_env_step(env, state_reps, observation_reps, key, seed, 're-reset')
        # re-seeding reproduces the same numeric trajectory
        first = []
        for _ in range(2):
            env.set_seed(123)
            env.reset()
            arrays = [observation_reps['no-overlap'].convert(env.observation)]
            for action in list(actions) * 2:
                _, done = env.step(action)
                arrays.append(observation_reps['no-overlap'].convert(env.observation))
                arrays.append(state_reps['no-overlap'].convert(env.state))
                if done:
                    env.reset()
            first.append(arrays)
        check(
            all(
                a.keys() == b.keys() and all(np.array_equal(a[k], b[k]) for k in a)
                for a, b in zip(*first)
            ),
            're-seeding changes the arrays',
            key,
        )

    # the gym layer, several environments alive in one process
    if HAVE_GYM:
        gym_envs = []
        for i, (key, env) in enumerate(envs.items()):
            name = NAMES[i % 3]
            gym_envs.append(
                (
                    key,
                    GymEnvironment(
                        OuterEnv(
                            env,
                            state_representation=make_state_representation(name, env.state_space),
                            observation_representation=make_observation_representation(name, env.observation_space),
                        )
                    ),
                )
            )
        for key, gym_env in gym_envs:
            gym_env.outer_env.inner_env.set_seed(7)
            observation = gym_env.reset()
            check(bool(gym_env.observation_space.contains(observation)), 'gym reset', key)
            check(bool(gym_env.state_space.contains(gym_env.state)), 'gym reset state', key)
        for step in range(25):
            for key, gym_env in gym_envs:
                observation, _, done, _ = gym_env.step(
                    rng.randrange(gym_env.action_space.n)
                )
                check(bool(gym_env.observation_space.contains(observation)), 'gym step', key, step)
                check(bool(gym_env.state_space.contains(gym_env.state)), 'gym step state', key, step)
                for k, box in gym_env.observation_space.spaces.items():
                    check(observation[k].dtype == box.dtype, 'gym dtype', key, k)
                for k, box in gym_env.state_space.spaces.items():
                    check(gym_env.state[k].dtype == box.dtype, 'gym state dtype', key, k)
                if done:
                    gym_env.reset()
        # switching representations re-advertises matching spaces
        for key, gym_env in gym_envs[:6]:
            for name in NAMES:
                gym_env.set_state_representation(name)
                gym_env.set_observation_representation(name)
                check(bool(gym_env.observation_space.contains(gym_env.observation)), 'gym switch', key, name)
                check(bool(gym_env.state_space.contains(gym_env.state)), 'gym switch state', key, name)


def part_space_dtype():
    from gym_gridverse.representations.spaces import is_dtype_compatible

    rng = np.random.default_rng(19)
    shapes = [(), (0,), (1,), (3,), (2, 3), (4, 1, 3), (0, 3), (2, 2, 2, 2)]
    spaces = []
    for shape in shapes:
        upper = rng.integers(0, 9, size=shape)
        lower = upper - rng.integers(0, 9, size=shape)
        for int_type in (np.int64, np.int32, np.uint8, int):
            u = np.abs(upper).astype(int_type)
            spaces.append((Space.make_categorical_space(u), int, np.int64))
            spaces.append(
                (
                    Space.make_discrete_space(np.zeros_like(u), u),
                    int,
                    np.int64,
                )
            )
        spaces.append((Space.make_discrete_space(lower, upper), int, np.int64))
        spaces.append((Space.make_discrete_space(upper, upper), int, np.int64))
        for float_type in (np.float64, np.float32, float):
            lo = lower.astype(float_type) - 0.5
            hi = upper.astype(float_type) + 0.25
            spaces.append((Space.make_continuous_space(lo, hi), float, np.float64))
            spaces.append((Space.make_continuous_space(hi, hi), float, np.float64))
            spaces.append(
                (Space(SpaceType.CONTINUOUS, lo, hi), float, np.float64)
            )
        spaces.append((Space(SpaceType.CATEGORICAL, np.zeros(shape, int), upper), int, np.int64))
        spaces.append((Space(SpaceType.DISCRETE, lower, upper), int, np.int64))

    for space, python_type, numpy_type in spaces:
        if hasattr(space, 'dtype'):
            check(space.dtype is python_type, 'Space.dtype', space.space_type, space.dtype)
            check(space.dtype is space.dtype, 'Space.dtype not repeatable')
            check(
                is_dtype_compatible(np.zeros(space.shape, space.dtype), space.space_type),
                'Space.dtype incompatible with the space type',
            )
        check(space.shape == space.lower_bound.shape, 'shape')
        check(space == Space(space.space_type, space.lower_bound.copy(), space.upper_bound.copy()), 'eq')
        member = space.lower_bound.astype(numpy_type)
        check(bool(space.contains(member)), 'lower bound is a member')
        check(bool(space.contains(space.upper_bound.astype(numpy_type))), 'upper bound is a member')
        wrong = np.float64 if python_type is int else np.int64
        check(not space.contains(space.lower_bound.astype(wrong)), 'wrong dtype accepted')
        if HAVE_GYM and space.lower_bound.ndim > 0:
            gym_space = outer_space_to_gym_space({'x': space, 'y': space})
            for key in ('x', 'y'):
                box = gym_space.spaces[key]
                check(box.dtype == numpy_type, 'gym dtype', box.dtype, numpy_type)
                check(box.shape == space.shape, 'gym shape')
                check(np.array_equal(box.low, space.lower_bound.astype(numpy_type)), 'gym low')
                check(np.array_equal(box.high, space.upper_bound.astype(numpy_type)), 'gym high')
                check(bool(box.contains(member)), 'gym contains lower bound')
                check(bool(box.contains(space.upper_bound.astype(numpy_type))), 'gym contains upper bound')

    # the spaces of the representations:  grid / agent_id_grid / item are
    # integer, agent is floating
    state_space = StateSpace(Shape(3, 4), [Floor, Door], [Color.RED])
    observation_space = ObservationSpace(Shape(3, 5), [Floor, Door], [Color.RED])
    for name in NAMES:
        for rep, float_keys in (
            (make_state_representation(name, state_space), {'agent'}),
            (make_observation_representation(name, observation_space), set()),
        ):
            for key, space in rep.space.items():
                expected = float if key in float_keys else int
                if hasattr(space, 'dtype'):
                    check(space.dtype is expected, 'representation Space.dtype', name, key)
                if HAVE_GYM:
                    box = outer_space_to_gym_space(rep.space).spaces[key]
                    check(
                        box.dtype == (np.float64 if expected is float else np.int64),
                        'representation gym dtype', name, key,
                    )


if __name__ == '__main__':
    check(HAVE_GYM, 'the gym layer could not be imported')
    part_space_dtype()
    print('Space scalar types and gym boxes: ok', CHECKS)
    part_whole()
    print('whole states and observations: ok', CHECKS)
    part_trajectories()
    print('trajectories of shipped configurations: ok', CHECKS)
    part_grid_objects()
    print('grid-object level, all type subsets: ok', CHECKS)
    print('OK', CHECKS, 'checks')
