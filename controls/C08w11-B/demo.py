"""Demo / regression check for change B (`Area.from_shape`, used by
`Grid.__init__` to derive the area that decides what is "inside the grid").

Runs identically on the pristine tree and with the patch applied;  exits 0 iff
all checks pass.  Run from the worktree root:

    /venv/bin/python _seed/B/demo.py

The demo embeds its own integer-only reference model of the agent kinematics
(property C08) and compares the library against it.
"""
import itertools as itt
import os
import sys
import warnings
from functools import partial

warnings.filterwarnings('ignore')

# the script lives in <worktree>/_seed/<X>/;  import the worktree's package
sys.path.insert(
    0, os.path.dirname(os.path.dirname(os.path.dirname(os.path.abspath(__file__))))
)

import numpy.random as rnd  # noqa: E402

from gym_gridverse import geometry  # noqa: E402
from gym_gridverse.action import Action  # noqa: E402
from gym_gridverse.agent import Agent  # noqa: E402
from gym_gridverse.envs import reset_functions as resets  # noqa: E402
from gym_gridverse.envs import terminating_functions  # noqa: E402
from gym_gridverse.envs import transition_functions as trans  # noqa: E402
from gym_gridverse.envs.gridworld import GridWorld  # noqa: E402
from gym_gridverse.geometry import (  # noqa: E402
    Area,
    Orientation,
    Position,
    Shape,
    Transform,
)
from gym_gridverse.grid import Grid  # noqa: E402
from gym_gridverse.grid_object import (  # noqa: E402
    Beacon,
    Box,
    Color,
    Door,
    Exit,
    Floor,
    Key,
    MovingObstacle,
    NoneGridObject,
    Telepod,
    Wall,
)
from gym_gridverse.spaces import (  # noqa: E402
    ActionSpace,
    ObservationSpace,
    StateSpace,
)
from gym_gridverse.state import State  # noqa: E402
from gym_gridverse.utils.fast_copy import fast_copy  # noqa: E402

F, R, B, L = Orientation.F, Orientation.R, Orientation.B, Orientation.L

NUM_CHECKS = 0


def check(condition, *message):
    global NUM_CHECKS
    NUM_CHECKS += 1
    if not condition:
        print('FAILED:', *message)
        sys.exit(1)


# ---------------------------------------------------------------------------
# reference model (integers only)
# ---------------------------------------------------------------------------

# heading -> number of clockwise quarter turns starting from "north"
QUARTERS = {F: 0, R: 1, B: 2, L: 3}
HEADINGS = {quarters: heading for heading, quarters in QUARTERS.items()}
# number of clockwise quarter turns -> (dy, dx)
DELTAS = {0: (-1, 0), 1: (0, 1), 2: (1, 0), 3: (0, -1)}
MOVE_QUARTERS = {
    Action.MOVE_FORWARD: 0,
    Action.MOVE_RIGHT: 1,
    Action.MOVE_BACKWARD: 2,
    Action.MOVE_LEFT: 3,
}
TURN_QUARTERS = {Action.TURN_LEFT: 3, Action.TURN_RIGHT: 1}


def reference_target(y, x, heading, action):
    """cell a move action points to (None if not a move action)"""
    if action not in MOVE_QUARTERS:
        return None
    dy, dx = DELTAS[(QUARTERS[heading] + MOVE_QUARTERS[action]) % 4]
    return y + dy, x + dx


def reference_step(height, width, blocking, y, x, heading, action):
    """reference pose after `move_agent` and `turn_agent`

    `blocking(y, x)` tells whether the (inside) cell blocks movement
    """
    target = reference_target(y, x, heading, action)
    if target is not None:
        ty, tx = target
        inside = 0 <= ty < height and 0 <= tx < width
        if inside and not blocking(ty, tx):
            y, x = ty, tx
    if action in TURN_QUARTERS:
        heading = HEADINGS[(QUARTERS[heading] + TURN_QUARTERS[action]) % 4]
    return y, x, heading


# ---------------------------------------------------------------------------
# 0.  the area of a grid, however the grid was made
# ---------------------------------------------------------------------------


def check_grid_area_of(grid, height, width, context):
    check(grid.shape == Shape(height, width), 'shape', context)
    check(grid.shape.as_tuple == (height, width), 'shape', context)
    check(type(grid.area) is Area, 'area type', context)
    check(grid.area == Area((0, height - 1), (0, width - 1)), 'area', context)
    check(grid.area.ys == (0, height - 1), 'ys', context)
    check(grid.area.xs == (0, width - 1), 'xs', context)
    check(hash(grid.area) == hash(Area((0, height - 1), (0, width - 1))))
    check((grid.area.ymin, grid.area.xmin) == (0, 0), 'origin', context)
    check((grid.area.ymax, grid.area.xmax) == (height - 1, width - 1), context)
    check((grid.area.height, grid.area.width) == (height, width), context)
    check(len(grid.objects) == height, context)
    check(all(len(row) == width for row in grid.objects), context)

    # membership, inside and in a margin all around the grid
    for y, x in itt.product(range(-3, height + 3), range(-3, width + 3)):
        inside = 0 <= y < height and 0 <= x < width
        check(grid.area.contains(Position(y, x)) is inside, context, y, x)

    # the area enumerates every cell exactly once, in row-major order
    check(
        [position.yx for position in grid.area.positions()]
        == [(y, x) for y in range(height) for x in range(width)],
        'positions',
        context,
    )
    for position in grid.area.positions():
        grid[position]  # every position of the area indexes a cell


def check_grid_area():
    shapes = [(1, 1), (1, 2), (2, 1), (1, 7), (6, 1), (2, 3), (3, 2), (4, 4)]
    shapes += [(5, 9), (13, 13), (1, 40), (25, 2)]

    for height, width in shapes:
        context = (height, width)

        grids = {
            'init': Grid([[Floor() for _ in range(width)] for _ in range(height)]),
            'from_shape tuple': Grid.from_shape((height, width)),
            'from_shape Shape': Grid.from_shape(Shape(height, width)),
            'from_shape factory': Grid.from_shape((height, width), factory=Wall),
        }
        for how, grid in grids.items():
            check_grid_area_of(grid, height, width, (how, context))
            check_grid_area_of(fast_copy(grid), height, width, ('copy', how))

        # rotations swap height and width for quarter turns
        grid = grids['init']
        check_grid_area_of(grid * F, height, width, ('F', context))
        check_grid_area_of(grid * B, height, width, ('B', context))
        check_grid_area_of(grid * L, width, height, ('L', context))
        check_grid_area_of(R * grid, width, height, ('R', context))

        # sub-grids over asymmetric areas, partially or fully outside
        for ys, xs in [
            ((0, 0), (0, 0)),
            ((-2, 0), (-1, 3)),
            ((-6, 0), (-3, 3)),
            ((1, 4), (-5, -2)),
            ((height - 1, height + 2), (width - 1, width)),
            ((0, height - 1), (0, width - 1)),
        ]:
            area = Area(ys, xs)
            check_grid_area_of(
                grid.subgrid(area), area.height, area.width, ('subgrid', ys, xs)
            )

        # the constructor helper itself, when available
        if hasattr(Area, 'from_shape'):
            area = Area.from_shape(Shape(height, width))
            check(area == Area((0, height - 1), (0, width - 1)), 'from_shape')
            check(area == grid.area and hash(area) == hash(grid.area))
            check((area.height, area.width) == (height, width), 'from_shape')
            check(Area.from_shape(grid.shape) == grid.area, 'from_shape')

        # the area is fixed at construction, and independent between grids
        other = Grid.from_shape((height + 1, width + 2))
        check(other.area == Area((0, height), (0, width + 1)), 'other grid')
        check(grid.area == Area((0, height - 1), (0, width - 1)), 'same grid')

    # degenerate inputs are refused exactly as before
    for objects, error_type in [([], IndexError), ([[]], ValueError)]:
        try:
            Grid(objects)
        except error_type:
            pass
        else:
            check(False, 'degenerate grid accepted', objects)
    for shape in [(0, 3), (3, 0), (0, 0)]:
        try:
            Grid.from_shape(shape)
        except (IndexError, ValueError) as error:
            expected = IndexError if shape[0] == 0 else ValueError
            check(type(error) is expected, 'degenerate shape', shape, error)
        else:
            check(False, 'degenerate shape accepted', shape)
    if hasattr(Area, 'from_shape'):
        for shape in [Shape(0, 3), Shape(3, 0), Shape(-1, -1)]:
            try:
                Area.from_shape(shape)
            except ValueError:
                pass
            else:
                check(False, 'degenerate shape accepted', shape)


# ---------------------------------------------------------------------------
# 1.  the orientation algebra, against hard-coded tables
# ---------------------------------------------------------------------------

EXPECTED_ROTATIONS = {
    (F, F): F, (F, R): R, (F, B): B, (F, L): L,
    (R, F): R, (R, R): B, (R, B): L, (R, L): F,
    (B, F): B, (B, R): L, (B, B): F, (B, L): R,
    (L, F): L, (L, R): F, (L, B): R, (L, L): B,
}  # fmt: skip
EXPECTED_NEG = {F: F, R: L, B: B, L: R}
EXPECTED_DELTA = {
    F: Position(-1, 0),
    R: Position(0, 1),
    B: Position(1, 0),
    L: Position(0, -1),
}


def check_orientation_algebra():
    # the four members and their aliases
    check(list(Orientation) == [F, B, L, R], 'enum members / order')
    check(Orientation.FORWARD is F and Orientation.RIGHT is R, 'aliases')
    check(Orientation.BACKWARD is B and Orientation.LEFT is L, 'aliases')

    # the cached tables themselves (same keys, same order, same values)
    check(
        list(geometry._orientation_rotations.items())
        == list(EXPECTED_ROTATIONS.items()),
        'rotation table',
    )
    check(
        list(geometry._orientation_neg.items()) == list(EXPECTED_NEG.items()),
        'negation table',
    )
    check(
        all(
            type(value) is Orientation
            for value in itt.chain(
                geometry._orientation_rotations.values(),
                geometry._orientation_neg.values(),
            )
        ),
        'table values are orientations',
    )

    for o1, o2 in itt.product(Orientation, repeat=2):
        check((o1 * o2) is EXPECTED_ROTATIONS[o1, o2], 'o1 * o2', o1, o2)
        check((o1 * o2) is (o2 * o1), 'commutative', o1, o2)
        # in-place spelling used by turn_agent
        o = o1
        o *= o2
        check(o is EXPECTED_ROTATIONS[o1, o2], 'o1 *= o2', o1, o2)

    for o in Orientation:
        check(-o is EXPECTED_NEG[o], 'negation', o)
        check(o * -o is F and -o * o is F, 'inverse', o)
        check(o * F is o and F * o is o, 'identity', o)
        check(o * L * R is o and o * R * L is o, 'left then right', o)
        check(o * L * L * L * L is o, 'four lefts', o)
        check(o * R * R * R * R is o, 'four rights', o)
        check(o * L * L is o * B and o * R * R is o * B, 'half turn', o)
        check(o * L is not o and o * R is not o, 'quarter turn moves', o)
        check(Position.from_orientation(o) == EXPECTED_DELTA[o], 'delta', o)
        # rotating the forward unit step agrees with the table of steps
        check(o * Position(-1, 0) == EXPECTED_DELTA[o], 'rotated step', o)

    for o1, o2, o3 in itt.product(Orientation, repeat=3):
        check((o1 * o2) * o3 is o1 * (o2 * o3), 'associative', o1, o2, o3)

    # transforms compose orientations through the same table
    for o1, o2 in itt.product(Orientation, repeat=2):
        t = Transform(Position(2, -3), o1) * Transform(Position(1, 4), o2)
        check(t.orientation is EXPECTED_ROTATIONS[o1, o2], 'transform', o1, o2)
        check(Transform(Position(5, 5), o1) * o2 is EXPECTED_ROTATIONS[o1, o2])
        t = Transform(Position(2, -3), o1)
        check((-t * t) == Transform(Position(0, 0), F), 'transform inverse')
        check((t * -t) == Transform(Position(0, 0), F), 'transform inverse')

    # non-orientations are still refused the same way
    for other in [0, 1, 'F', None, (F, F)]:
        try:
            F * other
        except TypeError:
            pass
        else:
            check(False, 'Orientation * junk should be a TypeError', other)


# ---------------------------------------------------------------------------
# 2.  exhaustive kinematics on small hand-made grids
# ---------------------------------------------------------------------------

# every kind of target cell, with the hard-coded expectation on blocking
TARGETS = [
    (lambda: Floor(), False),
    (lambda: Wall(), True),
    (lambda: Exit(), False),
    (lambda: Exit(Color.RED), False),
    (lambda: Key(Color.NONE), False),
    (lambda: Key(Color.YELLOW), False),
    (lambda: MovingObstacle(), False),
    (lambda: Box(Floor()), True),
    (lambda: Box(Key(Color.BLUE)), True),
    (lambda: Telepod(Color.GREEN), False),
    (lambda: Beacon(Color.NONE), False),
    (lambda: Beacon(Color.YELLOW), False),
] + [
    (partial(Door, status, color), status is not Door.Status.OPEN)
    for status in Door.Status
    for color in [Color.NONE, Color.RED, Color.BLUE]
]

SHAPES = [(1, 1), (1, 4), (5, 1), (2, 3), (3, 5), (4, 4)]

NON_POSE_TRANSITIONS = [
    trans.pickndrop,
    trans.actuate_door,
    trans.actuate_box,
    trans.move_obstacles,
]


def make_grid(height, width, target, target_factory):
    # background alternates walls and floors, so that neighbours differ
    grid = Grid(
        [
            [Wall() if (y + 2 * x) % 3 == 0 else Floor() for x in range(width)]
            for y in range(height)
        ]
    )
    if target is not None and 0 <= target[0] < height and 0 <= target[1] < width:
        grid[target] = target_factory()
    return grid


def check_exhaustive_kinematics():
    rng = rnd.default_rng(0)

    for height, width in SHAPES:
        for y, x, heading, action in itt.product(
            range(height), range(width), Orientation, Action
        ):
            target = reference_target(y, x, heading, action)
            # non-move actions:  vary the cell in front instead
            place = (
                target
                if target is not None
                else reference_target(y, x, heading, Action.MOVE_FORWARD)
            )

            for target_factory, target_blocks in TARGETS:
                context = (height, width, y, x, heading, action, target_factory)

                grid = make_grid(height, width, place, target_factory)
                check(grid.shape == Shape(height, width), 'shape', context)
                check(
                    grid.area == Area((0, height - 1), (0, width - 1)),
                    'area',
                    context,
                )
                inside = 0 <= place[0] < height and 0 <= place[1] < width
                check(grid.area.contains(Position(*place)) == inside, context)
                if inside:
                    check(
                        grid[Position(*place)].blocks_movement is target_blocks,
                        'blocks_movement',
                        context,
                    )

                def blocking(yy, xx):
                    return grid.objects[yy][xx].blocks_movement

                ey, ex, eheading = reference_step(
                    height, width, blocking, y, x, heading, action
                )

                # -- move_agent alone
                state = State(grid, Agent(Position(y, x), heading))
                before = [list(row) for row in grid.objects]
                trans.move_agent(state, action)
                check(
                    state.agent.position == Position(ey, ex),
                    'move_agent position',
                    context,
                    state.agent,
                )
                check(state.agent.orientation is heading, 'move turns', context)
                check(
                    all(
                        a is b
                        for row_a, row_b in zip(before, grid.objects)
                        for a, b in zip(row_a, row_b)
                    ),
                    'move_agent edits the grid',
                    context,
                )
                if action.is_move():
                    moved = state.agent.position != Position(y, x)
                    check(
                        moved == (inside and not target_blocks),
                        'moves iff inside and free',
                        context,
                    )
                    if moved:
                        check(
                            Position.manhattan_distance(
                                state.agent.position, Position(y, x)
                            )
                            == 1,
                            'one cell',
                            context,
                        )
                else:
                    check(state.agent.position == Position(y, x), context)

                # -- turn_agent alone
                state = State(grid, Agent(Position(y, x), heading, Key(Color.RED)))
                trans.turn_agent(state, action)
                check(state.agent.position == Position(y, x), 'turn displaces')
                check(
                    state.agent.orientation
                    is (eheading if action.is_turn() else heading),
                    'turn_agent',
                    context,
                )

                # -- the chain used by every shipped configuration
                state = State(grid, Agent(Position(y, x), heading))
                trans.chain(
                    state,
                    action,
                    transition_functions=[trans.move_agent, trans.turn_agent],
                )
                check(
                    state.agent.position == Position(ey, ex)
                    and state.agent.orientation is eheading,
                    'chain',
                    context,
                    state.agent,
                )
                check(grid.area.contains(state.agent.position), 'inside', context)

                # -- the other transitions never change the pose
                for transition in NON_POSE_TRANSITIONS:
                    grid2 = make_grid(height, width, place, target_factory)
                    state = State(
                        grid2, Agent(Position(y, x), heading, Key(Color.BLUE))
                    )
                    transition(state, action, rng=rng)
                    check(
                        state.agent.position == Position(y, x)
                        and state.agent.orientation is heading,
                        'pose changed by',
                        transition.__name__,
                        context,
                    )

    # turning sequences at every pose of a non-square grid
    grid = make_grid(3, 5, None, None)
    for y, x, heading in itt.product(range(3), range(5), Orientation):
        state = State(grid, Agent(Position(y, x), heading))
        trans.turn_agent(state, Action.TURN_LEFT)
        check(state.agent.orientation is not heading)
        trans.turn_agent(state, Action.TURN_RIGHT)
        check(state.agent.orientation is heading, 'left then right')
        for action in [Action.TURN_LEFT, Action.TURN_RIGHT]:
            seen = []
            for _ in range(4):
                trans.turn_agent(state, action)
                seen.append(state.agent.orientation)
            check(seen[-1] is heading, 'four turns', action)
            check(len(set(seen)) == 4, 'four distinct headings', action)
            check(state.agent.position == Position(y, x), 'turn displaces')


def check_teleport():
    """teleportation is the only other way the pose changes"""
    for seed in range(20):
        rng = rnd.default_rng(seed)
        grid = Grid.from_shape((3, 5))
        grid[Position(0, 0)] = Telepod(Color.RED)
        grid[Position(2, 4)] = Telepod(Color.RED)
        grid[Position(1, 2)] = Telepod(Color.BLUE)  # other colour
        for heading, action in itt.product(Orientation, Action):
            state = State(grid, Agent(Position(0, 0), heading))
            trans.teleport(state, action, rng=rng)
            check(state.agent.position == Position(2, 4), 'teleport target')
            check(state.agent.orientation is heading, 'teleport turns')
            # lone telepod, or not on a telepod:  nothing happens
            for position in [Position(1, 2), Position(1, 1), Position(2, 0)]:
                state = State(grid, Agent(position, heading))
                trans.teleport(state, action, rng=rng)
                check(state.agent.position == position, 'teleport', position)
                check(state.agent.orientation is heading, 'teleport turns')


# ---------------------------------------------------------------------------
# 3.  rollouts in (python-API replicas of) every shipped configuration
# ---------------------------------------------------------------------------

ALL_COLORS = {Color.RED, Color.GREEN, Color.BLUE, Color.YELLOW}
MOVE_TURN = [trans.move_agent, trans.turn_agent]
KEYDOOR = MOVE_TURN + [trans.actuate_door, trans.pickndrop]

# name -> (reset function, transition functions)
CONFIGURATIONS = {}
for n, rivers in [(5, 1), (7, 2)]:
    CONFIGURATIONS[f'crossing.{n}x{n}'] = (
        partial(resets.crossing, Shape(n, n), rivers, Wall),
        MOVE_TURN,
    )
for n, obstacles in [(5, 1), (7, 2)]:
    CONFIGURATIONS[f'dynamic_obstacles.{n}x{n}'] = (
        partial(resets.dynamic_obstacles, Shape(n, n), obstacles, False),
        MOVE_TURN + [trans.move_obstacles],
    )
for n in [4, 8]:
    CONFIGURATIONS[f'empty.{n}x{n}'] = (
        partial(resets.empty, Shape(n, n), True),
        MOVE_TURN,
    )
for n, layout in [(7, (2, 2)), (9, (2, 2)), (10, (3, 3)), (13, (3, 3))]:
    CONFIGURATIONS[f'rooms.{n}x{n}'] = (
        partial(resets.rooms, Shape(n, n), layout),
        MOVE_TURN,
    )
    CONFIGURATIONS[f'memory_rooms.{n}x{n}'] = (
        partial(resets.memory_rooms, Shape(n, n), layout, ALL_COLORS, 1, 2),
        MOVE_TURN,
    )
for n in [5, 7, 9]:
    CONFIGURATIONS[f'keydoor.{n}x{n}'] = (
        partial(resets.keydoor, Shape(n, n)),
        KEYDOOR,
    )
for n in [5, 9]:
    CONFIGURATIONS[f'memory.{n}x{n}'] = (
        partial(resets.memory, Shape(n, n), ALL_COLORS),
        MOVE_TURN,
    )
for n in [5, 7]:
    CONFIGURATIONS[f'teleport.{n}x{n}'] = (
        partial(resets.teleport, Shape(n, n)),
        MOVE_TURN + [trans.teleport],
    )
# a few non-square / extreme-but-legal variants
CONFIGURATIONS['empty.4x9'] = (
    partial(resets.empty, Shape(4, 9), True, True),
    MOVE_TURN,
)
CONFIGURATIONS['empty.11x4'] = (
    partial(resets.empty, Shape(11, 4), True, True),
    MOVE_TURN,
)
CONFIGURATIONS['keydoor.5x8'] = (partial(resets.keydoor, Shape(5, 8)), KEYDOOR)
CONFIGURATIONS['teleport.5x9'] = (
    partial(resets.teleport, Shape(5, 9)),
    MOVE_TURN + [trans.teleport],
)
CONFIGURATIONS['dynamic_obstacles.6x9'] = (
    partial(resets.dynamic_obstacles, Shape(6, 9), 5, True),
    MOVE_TURN + [trans.move_obstacles],
)

ACTIONS = list(Action)


def make_env(name):
    reset_function, transition_functions = CONFIGURATIONS[name]
    object_types = [
        Floor, Wall, Exit, Door, Key, MovingObstacle, Box, Telepod, Beacon
    ]  # fmt: skip
    colors = list(Color)
    state = reset_function(rng=rnd.default_rng(0))
    return GridWorld(
        StateSpace(state.grid.shape, object_types, colors),
        ActionSpace(ACTIONS),
        ObservationSpace(Shape(3, 3), object_types, colors),
        reset_function,
        partial(trans.chain, transition_functions=transition_functions),
        lambda state, *, rng=None: None,
        lambda state, action, next_state, *, rng=None: 0.0,
        terminating_functions.reach_exit,
    )


def pose(state):
    return (*state.agent.position.yx, state.agent.orientation)


def check_valid(state, context):
    position = state.agent.position
    height, width = state.grid.shape.as_tuple
    check(
        0 <= position.y < height and 0 <= position.x < width,
        'agent outside the grid',
        context,
        state.agent,
    )
    check(
        not state.grid[position].blocks_movement,
        'agent on a blocking cell',
        context,
        state.agent,
        state.grid[position],
    )
    check(type(state.agent.orientation) is Orientation, context)


def check_step(name, state, action, next_state):
    """compares one environment step with the reference model"""
    context = (name, state.agent, action)
    height, width = state.grid.shape.as_tuple
    y, x, heading = pose(state)

    def blocking(yy, xx):
        return state.grid.objects[yy][xx].blocks_movement

    ey, ex, eheading = reference_step(
        height, width, blocking, y, x, heading, action
    )
    check(next_state.agent.orientation is eheading, 'heading', context)

    _, transition_functions = CONFIGURATIONS[name]
    landed = state.grid.objects[ey][ex]
    if trans.teleport in transition_functions and isinstance(landed, Telepod):
        others = [
            (yy, xx)
            for yy in range(height)
            for xx in range(width)
            if (yy, xx) != (ey, ex)
            and isinstance(state.grid.objects[yy][xx], Telepod)
            and state.grid.objects[yy][xx].color == landed.color
        ]
        check(
            next_state.agent.position.yx in (others or [(ey, ex)]),
            'teleport',
            context,
            next_state.agent,
        )
    else:
        check(
            next_state.agent.position.yx == (ey, ex),
            'position',
            context,
            next_state.agent,
        )

    check_valid(next_state, context)
    # the input state of a functional step is left alone
    check(pose(state) == (y, x, heading), 'functional step mutates', context)


def rollout(env, name, seed, num_steps, action_rng):
    """runs a checked rollout, returns the trajectory of poses"""
    env.set_seed(seed)
    trajectory = []
    state = env.functional_reset()
    check_valid(state, (name, 'reset', seed))
    for _ in range(num_steps):
        action = ACTIONS[action_rng.choice(len(ACTIONS))]
        next_state, _, done = env.functional_step(state, action)
        check_step(name, state, action, next_state)
        trajectory.append(pose(next_state))
        state = next_state
        if done:
            state = env.functional_reset()
            check_valid(state, (name, 'reset', seed))
            trajectory.append(pose(state))
    return trajectory


def check_rollouts():
    for name in CONFIGURATIONS:
        env = make_env(name)
        other = make_env(name)  # several environments in one process
        for seed in range(4):
            t1 = rollout(env, name, seed, 150, rnd.default_rng(100 + seed))
            # re-seeding reproduces the history, in the same and in another env
            t2 = rollout(other, name, seed, 150, rnd.default_rng(100 + seed))
            t3 = rollout(env, name, seed, 150, rnd.default_rng(100 + seed))
            check(t1 == t2 == t3, 're-seeding not reproducible', name, seed)

    # two different environments stepped alternately (stateful interface)
    env_a, env_b = make_env('keydoor.5x8'), make_env('teleport.7x7')
    env_a.set_seed(3)
    env_b.set_seed(4)
    env_a.reset()
    env_b.reset()
    action_rng = rnd.default_rng(7)
    for _ in range(400):
        for name, env in [('keydoor.5x8', env_a), ('teleport.7x7', env_b)]:
            action = ACTIONS[action_rng.choice(len(ACTIONS))]
            state = env.state
            _, done = env.step(action)
            check_step(name, state, action, env.state)
            if done:
                env.reset()
                check_valid(env.state, (name, 'reset'))


def check_walks():
    """deterministic walks along borders and into corners"""
    for height, width in [(1, 1), (1, 6), (6, 1), (2, 7), (5, 3)]:
        for heading, action in itt.product(Orientation, MOVE_QUARTERS):
            grid = Grid.from_shape((height, width))
            for y, x in itt.product(range(height), range(width)):
                state = State(grid, Agent(Position(y, x), heading))
                dy, dx = DELTAS[(QUARTERS[heading] + MOVE_QUARTERS[action]) % 4]
                # walking long enough always ends against the border
                for step in range(1, height + width + 2):
                    trans.move_agent(state, action)
                    ey = min(max(y + step * dy, 0), height - 1)
                    ex = min(max(x + step * dx, 0), width - 1)
                    check(
                        state.agent.position == Position(ey, ex),
                        'walk',
                        (height, width, y, x, heading, action, step),
                    )
                check(
                    state.agent.position.y in (0, height - 1)
                    or state.agent.position.x in (0, width - 1)
                )
                check(state.agent.orientation is heading)


def main():
    check_grid_area()
    check_orientation_algebra()
    check_exhaustive_kinematics()
    check_teleport()
    check_walks()
    check_rollouts()
    print(f'OK ({NUM_CHECKS} checks)')


if __name__ == '__main__':
    main()
