"""Behaviour check for the observation pipeline (property C05).

Run as:  cd /tmp/wt5-C05 && /venv/bin/python -W ignore _seed/B/demo.py

Everything the library returns is compared with an INDEPENDENT
re-implementation that lives in this file (plain integer arithmetic for the
view geometry, a flood fill for `partially_occluded`, a ray caster for
`raytracing` / `stochastic_raytracing`).  The reference never calls the
library's geometry / grid / visibility / observation code;  it only reads
`grid.objects[y][x]` and `obj.blocks_vision`.

Checked for every (grid, agent position, heading, held item, view area,
observation function, seed):
  * the observation has the shape of the view area,
  * the observed agent stands on the anchor cell (-ymin, -xmin), faces FORWARD
    and holds the very same object as the state's agent,
  * every view cell outside the grid is Hidden,
  * every cell is a (new) Hidden or *is* (identity) the world object at the
    cell obtained by placing the view at the agent's pose,
  * the set of shown cells is exactly the reference visibility (hence for
    fully_transparent every in-grid cell is shown),
  * the stochastic function consumes exactly the reference random numbers
    (generator state compared after each call),
  * the state (grid rows, objects, agent) is not modified,
  * errors (bad visibility shape, partially_occluded with the agent not on the
    bottom row, ray casting with the agent outside the view) are the same.
"""
import itertools
import math
import os
import sys

sys.path.insert(0, os.getcwd())

import numpy as np  # noqa: E402

from gym_gridverse.action import Action  # noqa: E402
from gym_gridverse.agent import Agent  # noqa: E402
from gym_gridverse.envs import (  # noqa: E402
    observation_functions as of,
    reset_functions,
    reward_functions,
    terminating_functions,
    transition_functions,
    visibility_functions as vf,
)
from gym_gridverse.envs.gridworld import GridWorld  # noqa: E402
from gym_gridverse.geometry import (  # noqa: E402
    Area,
    Orientation,
    Position,
    Shape,
)
from gym_gridverse.grid import Grid  # noqa: E402
from gym_gridverse.grid_object import (  # noqa: E402
    Beacon,
    Box,
    Color,
    Door,
    Exit,
    Floor,
    Hidden,
    Key,
    MovingObstacle,
    NoneGridObject,
    Telepod,
    Wall,
)
from gym_gridverse.observation import Observation  # noqa: E402
from gym_gridverse.spaces import (  # noqa: E402
    ActionSpace,
    ObservationSpace,
    StateSpace,
)
from gym_gridverse.state import State  # noqa: E402

N_CHECKS = 0


def check(condition, *context):
    global N_CHECKS
    N_CHECKS += 1
    if not condition:
        raise AssertionError(' | '.join(str(c) for c in context))


# ---------------------------------------------------------------------------
# independent reference implementation
# ---------------------------------------------------------------------------

HEADINGS = {
    'F': Orientation.FORWARD,
    'R': Orientation.RIGHT,
    'B': Orientation.BACKWARD,
    'L': Orientation.LEFT,
}


def ref_world_cell(ay, ax, heading, ry, rx):
    """world cell of the point (ry, rx) of the agent frame.

    agent frame:  ry < 0 is in front of the agent, rx > 0 is to its right.
    world frame:  y grows downward (south), x grows rightward (east);
    heading F/R/B/L means the agent looks north/east/south/west.
    """
    if heading == 'F':  # front = north, right = east
        return ay + ry, ax + rx
    if heading == 'R':  # front = east, right = south
        return ay + rx, ax - ry
    if heading == 'B':  # front = south, right = west
        return ay - ry, ax - rx
    if heading == 'L':  # front = west, right = north
        return ay - rx, ax + ry
    raise AssertionError(heading)


def ref_view(objects, ay, ax, heading, ys, xs):
    """matrix of (world object or None if outside of the grid)"""
    H, W = len(objects), len(objects[0])
    view = []
    for ry in range(ys[0], ys[1] + 1):
        row = []
        for rx in range(xs[0], xs[1] + 1):
            wy, wx = ref_world_cell(ay, ax, heading, ry, rx)
            row.append(objects[wy][wx] if 0 <= wy < H and 0 <= wx < W else None)
        view.append(row)
    return view


def ref_opaque(view):
    # cells outside of the grid become Hidden objects, which block vision
    return [
        [True if obj is None else bool(obj.blocks_vision) for obj in row]
        for row in view
    ]


def ref_vis_fully_transparent(opaque, py, px):
    return np.ones((len(opaque), len(opaque[0])), dtype=bool)


def ref_vis_partially_occluded(opaque, py, px):
    h, w = len(opaque), len(opaque[0])
    if py != h - 1:
        raise NotImplementedError
    total = np.zeros((h, w), dtype=bool)
    for dx in (-1, +1):
        seen = np.zeros((h, w), dtype=bool)
        stack = [(py, px)]
        while stack:
            y, x = stack.pop()
            if not (0 <= y < h and 0 <= x < w) or seen[y, x]:
                continue
            seen[y, x] = True
            if not opaque[y][x]:
                stack.extend([(y - 1, x), (y, x + dx), (y - 1, x + dx)])
        total |= seen
    return total


_REF_RAYS = {}


def ref_rays(py, px, h, w):
    key = (py, px, h, w)
    if key not in _REF_RAYS:
        if not (0 <= py < h and 0 <= px < w):
            raise ValueError('agent outside of the view')
        corners_y = [i - 0.5 - py for i in range(h + 1)]
        corners_x = [j - 0.5 - px for j in range(w + 1)]
        angles = sorted(
            float(np.arctan2(np.float64(cy), np.float64(cx)))
            for cy in corners_y
            for cx in corners_x
        )
        rays = []
        for angle in angles:
            dy, dx = 0.01 * math.sin(angle), 0.01 * math.cos(angle)
            ray, i = [], 0
            while True:
                y, x = round(py + i * dy), round(px + i * dx)
                if not (0 <= y < h and 0 <= x < w):
                    break
                if (y, x) not in ray:
                    ray.append((y, x))
                i += 1
            rays.append(ray)
        _REF_RAYS[key] = rays
    return _REF_RAYS[key]


def ref_ray_counts(opaque, py, px):
    h, w = len(opaque), len(opaque[0])
    lit = np.zeros((h, w), dtype=int)
    crossed = np.zeros((h, w), dtype=int)
    for ray in ref_rays(py, px, h, w):
        light = 1
        for y, x in ray:
            lit[y, x] += light
            crossed[y, x] += 1
            if opaque[y][x]:
                light = 0
    return lit, crossed


def ref_vis_raytracing(opaque, py, px, absolute_counts=True, threshold=1):
    lit, crossed = ref_ray_counts(opaque, py, px)
    if absolute_counts:
        return lit >= threshold
    with np.errstate(all='ignore'):
        return lit / crossed >= threshold


def ref_vis_stochastic_raytracing(opaque, py, px, rng):
    lit, crossed = ref_ray_counts(opaque, py, px)
    with np.errstate(all='ignore'):
        probs = np.nan_to_num(lit / crossed)
    return rng.random(probs.shape) < probs


# ---------------------------------------------------------------------------
# comparison of one library observation with the reference
# ---------------------------------------------------------------------------


def snapshot(state):
    return (
        id(state.grid.objects),
        [id(row) for row in state.grid.objects],
        [[id(obj) for obj in row] for row in state.grid.objects],
        state.agent.position.yx,
        state.agent.orientation,
        id(state.agent.grid_object),
    )


def compare(observation, state, heading, ys, xs, visibility, *context):
    check(isinstance(observation, Observation), 'type', *context)
    view = ref_view(
        state.grid.objects,
        state.agent.position.y,
        state.agent.position.x,
        heading,
        ys,
        xs,
    )
    h, w = ys[1] - ys[0] + 1, xs[1] - xs[0] + 1

    # shape
    check(observation.grid.shape == Shape(h, w), 'shape', *context)
    check(len(observation.grid.objects) == h, 'rows', *context)
    check(all(len(r) == w for r in observation.grid.objects), 'cols', *context)
    check(observation.grid.area == Area((0, h - 1), (0, w - 1)), 'area', *context)

    # agent
    check(
        observation.agent.position == Position(-ys[0], -xs[0]),
        'anchor',
        observation.agent.position,
        *context,
    )
    check(observation.agent.orientation is Orientation.FORWARD, 'fwd', *context)
    check(
        observation.agent.grid_object is state.agent.grid_object,
        'held item',
        *context,
    )
    check(observation.agent is not state.agent, 'agent aliasing', *context)

    # cells
    world_ids = {id(obj) for row in state.grid.objects for obj in row}
    hidden_ids = set()
    for y in range(h):
        for x in range(w):
            got = observation.grid.objects[y][x]
            check(got is observation.grid[y, x], 'getitem', *context)
            check(got is observation.grid[Position(y, x)], 'getitem', *context)
            want = view[y][x]
            if want is not None and visibility[y, x]:
                check(got is want, 'shown cell', (y, x), got, want, *context)
            else:
                check(type(got) is Hidden, 'hidden cell', (y, x), got, *context)
                check(id(got) not in world_ids, 'hidden aliasing', *context)
                check(id(got) not in hidden_ids, 'hidden sharing', *context)
                hidden_ids.add(id(got))


# ---------------------------------------------------------------------------
# test data
# ---------------------------------------------------------------------------


def object_pool():
    return [
        Floor,
        Floor,
        Floor,
        Wall,
        Wall,
        lambda: Exit(),
        lambda: Exit(Color.GREEN),
        lambda: Door(Door.Status.OPEN, Color.RED),
        lambda: Door(Door.Status.CLOSED, Color.BLUE),
        lambda: Door(Door.Status.LOCKED, Color.YELLOW),
        lambda: Key(Color.RED),
        MovingObstacle,
        lambda: Box(Key(Color.BLUE)),
        lambda: Box(Floor()),
        lambda: Telepod(Color.GREEN),
        lambda: Beacon(Color.YELLOW),
        Hidden,
    ]


def random_grid(rng, h, w):
    pool = object_pool()
    return Grid(
        [[pool[rng.integers(len(pool))]() for _ in range(w)] for _ in range(h)]
    )


def uniform_grid(h, w, factory):
    return Grid([[factory() for _ in range(w)] for _ in range(h)])


def make_grids():
    rng = np.random.default_rng(20240505)
    grids = []
    shapes = [(1, 1), (1, 4), (3, 1), (2, 2), (3, 3), (2, 5), (4, 3), (5, 6)]
    for h, w in shapes:
        grids.append(random_grid(rng, h, w))
    grids.append(random_grid(rng, 3, 4))
    grids.append(uniform_grid(3, 3, Floor))
    grids.append(uniform_grid(2, 3, Wall))
    # room: walls around floor
    room = uniform_grid(5, 5, Floor)
    for i in range(5):
        for y, x in [(0, i), (4, i), (i, 0), (i, 4)]:
            room[y, x] = Wall()
    room[2, 2] = Door(Door.Status.CLOSED, Color.RED)
    grids.append(room)
    return grids


AREAS = [
    # (ys, xs)
    ((-6, 0), (-3, 3)),  # the usual 7x7 view
    ((-2, 0), (-1, 1)),
    ((-3, 0), (-1, 2)),  # asymmetric
    ((-1, 0), (-3, 0)),  # agent in the corner of the view
    ((0, 0), (0, 0)),  # single cell
    ((-1, 1), (-1, 1)),  # sees behind
    ((-2, 1), (0, 2)),  # asymmetric, sees behind
    ((0, 2), (-1, 1)),  # sees only behind
    ((-3, -1), (1, 2)),  # agent outside of the view
    ((1, 2), (-2, -1)),  # agent outside of the view
    ((-2, 0), (1, 3)),  # agent on the bottom row, but outside of the view
]


def attempt(function, *args, **kwargs):
    """returns (result, None) or (None, exception type)"""
    try:
        return function(*args, **kwargs), None
    except (ValueError, NotImplementedError, IndexError, TypeError) as error:
        return None, type(error)


def build_observation_functions(area):
    """[(name, observation function, reference visibility, uses rng)]"""
    functions = []

    for name, ref in [
        ('fully_transparent', ref_vis_fully_transparent),
        ('partially_occluded', ref_vis_partially_occluded),
        ('raytracing', ref_vis_raytracing),
    ]:
        # by factory, by registry and by module attribute
        functions.append((name, of.factory(name, area=area), ref, False))
    functions.append(
        (
            'registry fully_transparent',
            lambda state, rng=None: of.observation_function_registry[
                'fully_transparent'
            ](state, area=area, rng=rng),
            ref_vis_fully_transparent,
            False,
        )
    )
    functions.append(
        (
            'module raytracing',
            lambda state, rng=None: of.raytracing(state, area=area, rng=rng),
            ref_vis_raytracing,
            False,
        )
    )
    functions.append(
        (
            'stochastic_raytracing',
            of.factory('stochastic_raytracing', area=area),
            ref_vis_stochastic_raytracing,
            True,
        )
    )

    # from_visibility with parametrized / custom visibility functions
    for absolute_counts, threshold in [(True, 3), (False, 0.5), (False, 1.0)]:
        functions.append(
            (
                f'from_visibility raytracing {absolute_counts} {threshold}',
                of.factory(
                    'from_visibility',
                    area=area,
                    visibility_function=vf.factory(
                        'raytracing',
                        absolute_counts=absolute_counts,
                        threshold=threshold,
                    ),
                ),
                lambda opaque, py, px, a=absolute_counts, t=threshold: ref_vis_raytracing(
                    opaque, py, px, a, t
                ),
                False,
            )
        )

    def checkerboard(grid, position, *, rng=None):
        # also checks what the visibility function is given
        assert isinstance(grid, Grid) and isinstance(position, Position)
        mask = np.zeros((grid.shape.height, grid.shape.width), dtype=bool)
        for y in range(grid.shape.height):
            for x in range(grid.shape.width):
                mask[y, x] = (y + x + position.y + position.x) % 2 == 0
        return mask

    def ref_checkerboard(opaque, py, px):
        h, w = len(opaque), len(opaque[0])
        return np.array(
            [[(y + x + py + px) % 2 == 0 for x in range(w)] for y in range(h)]
        ).reshape(h, w)

    functions.append(
        (
            'from_visibility checkerboard',
            of.factory(
                'from_visibility', area=area, visibility_function=checkerboard
            ),
            ref_checkerboard,
            False,
        )
    )
    functions.append(
        (
            'from_visibility nothing (int mask)',
            of.factory(
                'from_visibility',
                area=area,
                visibility_function=lambda grid, position, *, rng=None: np.zeros(
                    (grid.shape.height, grid.shape.width), dtype=int
                ),
            ),
            lambda opaque, py, px: np.zeros(
                (len(opaque), len(opaque[0])), dtype=bool
            ),
            False,
        )
    )
    return functions


def run_matrix():
    grids = make_grids()
    n_observations = 0
    n_errors = 0
    held_items = [None, Key(Color.RED), Box(Key(Color.GREEN))]

    for (ys, xs), (g, grid) in itertools.product(AREAS, enumerate(grids)):
        area = Area(ys, xs)
        h, w = ys[1] - ys[0] + 1, xs[1] - xs[0] + 1
        functions = build_observation_functions(area)
        H, W = grid.shape.height, grid.shape.width

        cells = [(y, x) for y in range(H) for x in range(W)]
        if len(cells) > 12:
            # corners, edges and some inner cells
            keep = {(0, 0), (0, W - 1), (H - 1, 0), (H - 1, W - 1)}
            keep |= {(0, W // 2), (H // 2, 0), (H - 1, W // 2), (H // 2, W - 1)}
            keep |= {(H // 2, W // 2), (1, 1), (H - 2, W - 2)}
            cells = sorted(keep)

        for k, ((ay, ax), heading) in enumerate(
            itertools.product(cells, HEADINGS)
        ):
            held = held_items[(k + g) % len(held_items)]
            agent = Agent(Position(ay, ax), HEADINGS[heading], held)
            state = State(grid, agent)
            before = snapshot(state)
            view = ref_view(grid.objects, ay, ax, heading, ys, xs)
            opaque = ref_opaque(view)
            py, px = -ys[0], -xs[0]

            for name, function, ref, stochastic in functions:
                context = (name, f'grid#{g} {H}x{W}', (ay, ax), heading, ys, xs)
                seeds = [0, 1, 2] if stochastic else [None]
                for seed in seeds:
                    if stochastic:
                        rng = np.random.default_rng(seed)
                        ref_rng = np.random.default_rng(seed)
                        want, want_error = attempt(ref, opaque, py, px, ref_rng)
                    else:
                        # deterministic functions must not touch the rng
                        rng = np.random.default_rng(7)
                        ref_rng = np.random.default_rng(7)
                        want, want_error = attempt(ref, opaque, py, px)

                    got, got_error = attempt(function, state, rng=rng)
                    check(got_error is want_error, 'error', got_error, *context)
                    check(
                        rng.bit_generator.state == ref_rng.bit_generator.state,
                        'random number consumption',
                        *context,
                    )
                    check(snapshot(state) == before, 'state modified', *context)
                    if want_error is None:
                        check(want.shape == (h, w), 'reference shape', *context)
                        compare(got, state, heading, ys, xs, want, *context)
                        n_observations += 1
                    else:
                        n_errors += 1

    return n_observations, n_errors


def run_fully_transparent_completeness():
    """with the fully transparent function every in-grid cell is shown"""
    rng = np.random.default_rng(99)
    n = 0
    for _ in range(150):
        H, W = int(rng.integers(1, 7)), int(rng.integers(1, 7))
        grid = random_grid(rng, H, W)
        ay, ax = int(rng.integers(H)), int(rng.integers(W))
        heading = 'FRBL'[int(rng.integers(4))]
        y0, x0 = int(rng.integers(-5, 3)), int(rng.integers(-5, 3))
        ys = (y0, y0 + int(rng.integers(0, 7)))
        xs = (x0, x0 + int(rng.integers(0, 7)))
        state = State(grid, Agent(Position(ay, ax), HEADINGS[heading]))
        observation = of.fully_transparent(state, area=Area(ys, xs))
        check(
            isinstance(observation.agent.grid_object, NoneGridObject),
            'no held item',
        )
        view = ref_view(grid.objects, ay, ax, heading, ys, xs)
        h, w = len(view), len(view[0])
        compare(
            observation,
            state,
            heading,
            ys,
            xs,
            np.ones((h, w), dtype=bool),
            'completeness',
            (H, W),
            (ay, ax),
            heading,
            ys,
            xs,
        )
        n_in_grid = sum(obj is not None for row in view for obj in row)
        n_same = sum(
            observation.grid.objects[y][x] is view[y][x]
            for y in range(h)
            for x in range(w)
        )
        check(n_in_grid == n_same, 'every in-grid cell is shown')
        n += 1
    return n


def run_bad_visibility_shape():
    """the error of from_visibility for a visibility of the wrong shape"""
    grid = uniform_grid(4, 4, Floor)
    state = State(grid, Agent(Position(1, 2), Orientation.RIGHT))
    area = Area((-2, 0), (-1, 2))
    function = of.factory(
        'from_visibility',
        area=area,
        visibility_function=lambda grid, position, *, rng=None: np.ones(
            (grid.shape.width, grid.shape.height + 3), dtype=bool
        ),
    )
    try:
        function(state)
    except ValueError as error:
        check(
            str(error)
            == 'incorrect visibility shape ((4, 6)), should be (3, 4)',
            'message',
            str(error),
        )
    else:
        check(False, 'ValueError expected')

    # the default rng is forwarded as None to the visibility function
    received = []

    def spy(grid, position, *, rng=None):
        received.append((grid.shape.as_tuple, position.yx, rng))
        return np.ones((grid.shape.height, grid.shape.width), dtype=bool)

    of.from_visibility(state, area=area, visibility_function=spy)
    marker = np.random.default_rng(3)
    of.from_visibility(state, area=area, visibility_function=spy, rng=marker)
    check(received[0] == ((3, 4), (2, 1), None), 'spy', received[0])
    check(received[1][:2] == ((3, 4), (2, 1)), 'spy', received[1])
    check(received[1][2] is marker, 'rng forwarded')


def run_module_rng():
    """stochastic_raytracing without rng draws from the library generator"""
    from gym_gridverse.rng import reset_gv_rng

    rng = np.random.default_rng(5)
    grid = random_grid(rng, 5, 5)
    ys, xs = (-3, 0), (-2, 2)
    function = of.factory('stochastic_raytracing', area=Area(ys, xs))
    for heading in HEADINGS:
        state = State(grid, Agent(Position(3, 2), HEADINGS[heading]))
        view = ref_view(grid.objects, 3, 2, heading, ys, xs)
        reset_gv_rng(1234)
        ref_rng = np.random.default_rng(1234)
        for _ in range(3):
            want = ref_vis_stochastic_raytracing(
                ref_opaque(view), -ys[0], -xs[0], ref_rng
            )
            compare(function(state), state, heading, ys, xs, want, 'gv rng')


def run_environment():
    """observations of a complete environment along random trajectories"""
    shape = Shape(6, 7)
    object_types = [Floor, Wall, Exit, Door, Key]
    colors = [Color.NONE, Color.YELLOW]
    ys, xs = (-4, 0), (-2, 2)
    area = Area(ys, xs)
    names = {v: k for k, v in HEADINGS.items()}
    n = 0
    for name, ref in [
        ('fully_transparent', ref_vis_fully_transparent),
        ('partially_occluded', ref_vis_partially_occluded),
        ('raytracing', ref_vis_raytracing),
        ('stochastic_raytracing', ref_vis_stochastic_raytracing),
    ]:
        env = GridWorld(
            StateSpace(shape, object_types, colors),
            ActionSpace(list(Action)),
            ObservationSpace(Shape(5, 5), object_types, colors),
            reset_functions.factory('keydoor', shape=shape),
            transition_functions.factory(
                'chain',
                transition_functions=[
                    transition_functions.factory('turn_agent'),
                    transition_functions.factory('move_agent'),
                    transition_functions.factory('actuate_door'),
                    transition_functions.factory('pickndrop'),
                ],
            ),
            of.factory(name, area=area),
            reward_functions.factory('living_reward', reward=-1.0),
            terminating_functions.factory('reach_exit'),
        )
        for seed in range(3):
            env.set_seed(seed)
            mirror = np.random.default_rng(seed)  # mirrors the env's rng
            actions = np.random.default_rng(1000 + seed)
            env.reset()
            # the keydoor reset draws random numbers:  resynchronise by
            # copying the state of the env's generator (white-box, but only of
            # GridWorld, which is not under test)
            mirror.bit_generator.state = env._rng.bit_generator.state
            for _ in range(40):
                state = env.state
                heading = names[state.agent.orientation]
                view = ref_view(
                    state.grid.objects,
                    state.agent.position.y,
                    state.agent.position.x,
                    heading,
                    ys,
                    xs,
                )
                args = (ref_opaque(view), -ys[0], -xs[0])
                if name == 'stochastic_raytracing':
                    want = ref(*args, mirror)
                else:
                    want = ref(*args)
                observation = env.functional_observation(state)
                check(
                    env._rng.bit_generator.state == mirror.bit_generator.state,
                    'env rng',
                    name,
                )
                compare(observation, state, heading, ys, xs, want, 'env', name)
                n += 1
                action = list(Action)[int(actions.integers(len(Action)))]
                _, done = env.step(action)
                mirror.bit_generator.state = env._rng.bit_generator.state
                if done:
                    env.reset()
                    mirror.bit_generator.state = env._rng.bit_generator.state
    return n


def run_geometry_and_grid_primitives():
    """the public primitives the observation functions are made of"""
    rng = np.random.default_rng(11)
    n = 0
    for _ in range(200):
        H, W = int(rng.integers(1, 6)), int(rng.integers(1, 6))
        grid = random_grid(rng, H, W)
        y0, x0 = int(rng.integers(-4, 5)), int(rng.integers(-4, 5))
        ys = (y0, y0 + int(rng.integers(0, 6)))
        xs = (x0, x0 + int(rng.integers(0, 6)))
        area = Area(ys, xs)

        # Grid.subgrid:  world objects by identity, new Hidden outside
        sub = grid.subgrid(area)
        check(sub.shape == Shape(area.height, area.width), 'subgrid shape')
        for i, y in enumerate(range(ys[0], ys[1] + 1)):
            for j, x in enumerate(range(xs[0], xs[1] + 1)):
                if 0 <= y < H and 0 <= x < W:
                    check(sub.objects[i][j] is grid.objects[y][x], 'subgrid id')
                else:
                    check(type(sub.objects[i][j]) is Hidden, 'subgrid hidden')
        check(sub.objects is not grid.objects, 'subgrid rows list')
        check(
            all(r is not s for r in sub.objects for s in grid.objects),
            'subgrid rows',
        )

        # Grid * Orientation (and Orientation * Grid)
        h, w = sub.shape.height, sub.shape.width
        for heading, orientation in HEADINGS.items():
            for rotated in (sub * orientation, orientation * sub):
                if heading == 'F':
                    want = [[sub.objects[i][j] for j in range(w)] for i in range(h)]
                elif heading == 'B':
                    want = [
                        [sub.objects[h - 1 - i][w - 1 - j] for j in range(w)]
                        for i in range(h)
                    ]
                elif heading == 'R':  # counter-clockwise quarter turn
                    want = [
                        [sub.objects[j][w - 1 - i] for j in range(h)]
                        for i in range(w)
                    ]
                else:  # clockwise quarter turn
                    want = [
                        [sub.objects[h - 1 - j][i] for j in range(h)]
                        for i in range(w)
                    ]
                check(len(rotated.objects) == len(want), 'rotation rows')
                for row, want_row in zip(rotated.objects, want):
                    check(len(row) == len(want_row), 'rotation cols')
                    check(
                        all(a is b for a, b in zip(row, want_row)),
                        'rotation',
                        heading,
                    )
                check(
                    rotated.shape == Shape(len(want), len(want[0])),
                    'rotation shape',
                )
        for other in (3, 'F', None, Position(0, 0), (0, 0), [1], {}):
            try:
                sub * other
            except TypeError:
                pass
            else:
                check(False, 'TypeError expected', other)

        # Transform * Area / Orientation * Area / Orientation * Position
        ay, ax = int(rng.integers(-3, 8)), int(rng.integers(-3, 8))
        for heading, orientation in HEADINGS.items():
            agent = Agent(Position(ay, ax), orientation)
            corners = [
                ref_world_cell(ay, ax, heading, ry, rx) for ry in ys for rx in xs
            ]
            want_area = Area(
                (min(c[0] for c in corners), max(c[0] for c in corners)),
                (min(c[1] for c in corners), max(c[1] for c in corners)),
            )
            check(agent.transform * area == want_area, 'transform * area')
            check(area * agent.transform == want_area, 'area * transform')
            check(
                orientation * area
                == Area(
                    (want_area.ys[0] - ay, want_area.ys[1] - ay),
                    (want_area.xs[0] - ax, want_area.xs[1] - ax),
                ),
                'orientation * area',
            )
            p = Position(ys[0], xs[1])
            wy, wx = ref_world_cell(ay, ax, heading, p.y, p.x)
            check(agent.transform * p == Position(wy, wx), 'transform * pos')
            check(orientation * p == Position(wy - ay, wx - ax), 'orient * pos')
            check(p * orientation == Position(wy - ay, wx - ax), 'pos * orient')
        n += 1
    return n


def main():
    n_observations, n_errors = run_matrix()
    n_complete = run_fully_transparent_completeness()
    run_bad_visibility_shape()
    run_module_rng()
    n_env = run_environment()
    n_primitives = run_geometry_and_grid_primitives()
    print(
        f'OK: {n_observations} observations compared with the reference, '
        f'{n_errors} expected errors, {n_complete} completeness cases, '
        f'{n_env} environment observations, {n_primitives} primitive cases, '
        f'{N_CHECKS} checks'
    )


if __name__ == '__main__':
    main()
