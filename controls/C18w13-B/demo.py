"""C18 demo for change B (grid rotation helpers without temporary copies).

Runs identically on the pristine tree and with the patch applied; exits 0 when
every check passes.  The reference rotations are embedded below, both as the
original slicing one-liners and as explicit index maps.
"""
import itertools as itt
import os
import sys
import warnings

warnings.filterwarnings('ignore')
sys.path.insert(0, os.getcwd())

from gym_gridverse import grid as grid_module  # noqa: E402
from gym_gridverse.geometry import (  # noqa: E402
    Area,
    Orientation,
    Position,
    Shape,
    Transform,
)
from gym_gridverse.grid import Grid  # noqa: E402
from gym_gridverse.grid_object import (  # noqa: E402
    Color,
    Door,
    Exit,
    Floor,
    Hidden,
    Key,
    Wall,
)

O = Orientation
ORIENTATIONS = [O.F, O.R, O.B, O.L]
checks = 0


def check(condition, message):
    global checks
    checks += 1
    if not condition:
        print('FAIL:', message)
        sys.exit(1)


# ---------------------------------------------------------------- references
def ref_forward(data):
    return data


def ref_right(data):
    return [list(row) for row in zip(*data[::-1])]


def ref_left(data):
    return [list(row) for row in zip(*data)][::-1]


def ref_backward(data):
    return [d[::-1] for d in data[::-1]]


# the library's table: Orientation -> helper (frame convention)
REFERENCE = {O.F: ref_forward, O.R: ref_left, O.B: ref_backward, O.L: ref_right}


def ref_index_map(o, data):
    """explicit index arithmetic, no slicing / zip at all"""
    h, w = len(data), len(data[0])
    if o is O.F:
        return [[data[y][x] for x in range(w)] for y in range(h)]
    if o is O.B:
        return [[data[h - 1 - y][w - 1 - x] for x in range(w)] for y in range(h)]
    if o is O.R:  # matrix turned counter-clockwise: (w x h)
        return [[data[x][w - 1 - y] for x in range(h)] for y in range(w)]
    # O.L: matrix turned clockwise
    return [[data[h - 1 - x][y] for x in range(h)] for y in range(w)]


QUARTER_TURNS = {O.F: 0, O.R: 1, O.B: 2, O.L: 3}
FROM_QUARTER_TURNS = {v: k for k, v in QUARTER_TURNS.items()}


def same_cells(a, b):
    """same nested shape and the very same objects cell by cell"""
    return (
        len(a) == len(b)
        and all(len(ra) == len(rb) for ra, rb in zip(a, b))
        and all(ca is cb for ra, rb in zip(a, b) for ca, cb in zip(ra, rb))
    )


PALETTE = [
    Floor,
    Wall,
    Exit,
    Hidden,
    lambda: Key(Color.NONE),
    lambda: Key(Color.RED),
    lambda: Door(Door.Status.LOCKED, Color.NONE),
    lambda: Door(Door.Status.OPEN, Color.BLUE),
]


def make_cells(height, width, salt=0):
    return [
        [PALETTE[(3 * y + 5 * x + salt) % len(PALETTE)]() for x in range(width)]
        for y in range(height)
    ]


shapes = [(h, w) for h in range(1, 7) for w in range(1, 7)] + [(1, 13), (13, 1), (2, 9), (9, 2)]

# ----------------------------------------------------- the raw helper level
helpers = {
    '_rotate_matrix_forward': ref_forward,
    '_rotate_matrix_right': ref_right,
    '_rotate_matrix_left': ref_left,
    '_rotate_matrix_backward': ref_backward,
}
for height, width in shapes:
    data = [[(y, x) for x in range(width)] for y in range(height)]
    snapshot = [list(row) for row in data]
    rows_before = [id(row) for row in data]
    for name, reference in helpers.items():
        function = getattr(grid_module, name)
        result = function(data)
        check(result == reference(snapshot), f'{name} {height}x{width}')
        check(type(result) is list and all(type(r) is list for r in result), f'{name} lists of lists')
        check(data == snapshot and [id(r) for r in data] == rows_before, f'{name} leaves its argument alone')
        if name == '_rotate_matrix_forward':
            check(result is data, 'forward hands the same matrix back')
        else:
            check(result is not data, f'{name} builds a new outer list')
            check(
                not ({id(r) for r in result} & set(rows_before)),
                f'{name} builds new rows',
            )
            # mutating the result must not write through to the argument
            result[0][0] = 'scribble'
            result.append(['extra'])
            check(data == snapshot, f'{name} result is independent')
    # four quarter turns, and right/left inverse of one another
    right, left, backward = (
        grid_module._rotate_matrix_right,
        grid_module._rotate_matrix_left,
        grid_module._rotate_matrix_backward,
    )
    check(left(right(data)) == snapshot and right(left(data)) == snapshot, 'left/right inverse')
    check(right(right(data)) == backward(data) == left(left(data)), 'two quarter turns')
    check(backward(backward(data)) == snapshot, 'half turn involution')
    check(right(right(right(right(data)))) == snapshot, 'four right turns')
    check(left(left(left(left(data)))) == snapshot, 'four left turns')

check(
    {o: f.__name__ for o, f in grid_module._grid_rotation_functions.items()}
    == {
        O.F: '_rotate_matrix_forward',
        O.R: '_rotate_matrix_left',
        O.B: '_rotate_matrix_backward',
        O.L: '_rotate_matrix_right',
    },
    'rotation table',
)

# ------------------------------------------------------------- Grid level
for (height, width), salt in itt.product(shapes, [0, 1]):
    cells = make_cells(height, width, salt)
    snapshot = [list(row) for row in cells]
    grid = Grid(cells)
    ids = sorted(id(obj) for row in cells for obj in row)
    grid_hash = hash(grid)

    for o in ORIENTATIONS:
        rotated = o * grid
        check(type(rotated) is Grid and rotated is not grid, 'a new Grid')
        check(same_cells(rotated.objects, REFERENCE[o](snapshot)), f'{o} vs original one-liners {height}x{width}')
        check(same_cells(rotated.objects, ref_index_map(o, snapshot)), f'{o} vs index map {height}x{width}')
        check(same_cells((grid * o).objects, rotated.objects), 'rmul')

        # shape / area bookkeeping
        expected_shape = (
            Shape(height, width) if o in (O.F, O.B) else Shape(width, height)
        )
        check(rotated.shape == expected_shape, 'shape')
        check(
            rotated.area == Area((0, expected_shape.height - 1), (0, expected_shape.width - 1)),
            'area',
        )
        check(all(len(row) == expected_shape.width for row in rotated.objects), 'rectangular')

        # rearranges but preserves the objects (identity, not just equality)
        check(sorted(id(obj) for row in rotated.objects for obj in row) == ids, 'objects preserved')
        check(rotated.object_types() == grid.object_types(), 'object types preserved')

        # the source grid is untouched
        check(same_cells(grid.objects, snapshot) and grid.objects is cells, 'source untouched')
        check(hash(grid) == grid_hash, 'source hash untouched')

        # aliasing behaviour (FORWARD shares, the others never do)
        if o is O.F:
            check(rotated.objects is grid.objects, 'FORWARD shares the matrix')
        else:
            check(rotated.objects is not grid.objects, 'new outer list')
            check(
                not ({id(r) for r in rotated.objects} & {id(r) for r in grid.objects}),
                'new rows',
            )
            marker = Wall()
            previous = rotated[0, 0]
            rotated[0, 0] = marker
            check(all(obj is not marker for row in grid.objects for obj in row), 'writes do not leak back')
            rotated[0, 0] = previous

        # undone by the inverse rotation
        back = -o * rotated
        check(back.shape == grid.shape and same_cells(back.objects, snapshot), 'inverse undoes')
        check(back == grid and hash(back) == grid_hash, 'inverse undoes (==, hash)')
        back = o * (-o * grid)
        check(same_cells(back.objects, snapshot), 'inverse undoes (other side)')

        # cells move with the pose algebra: o * grid is the grid seen from a
        # frame turned by o, i.e. every cell goes to (-o) * p, re-based at the
        # top-left corner of the turned area
        turned = -o * grid.area
        corner = Position(turned.ymin, turned.xmin)
        frame = Transform(-corner, -o)
        check(frame * grid.area == rotated.area, 'area of the rotated grid')
        check(
            all(rotated[frame * p] is grid[p] for p in grid.area.positions()),
            'cells follow the frame transform',
        )
        check(
            all(grid[-frame * q] is rotated[q] for q in rotated.area.positions()),
            'and back through the inverse transform',
        )

        # the action of a product is the successive action
        for b in ORIENTATIONS:
            lhs, rhs = (o * b) * grid, o * (b * grid)
            check(same_cells(lhs.objects, rhs.objects), f'compose {o} {b}')
            expected = FROM_QUARTER_TURNS[(QUARTER_TURNS[o] + QUARTER_TURNS[b]) % 4]
            check(same_cells(lhs.objects, REFERENCE[expected](snapshot)), 'compose vs reference')

        # repeated calls give the same arrangement every time
        again = o * grid
        check(same_cells(again.objects, rotated.objects), 'repeatable')

    # four quarter turns of either handedness
    for o in (O.R, O.L):
        g = grid
        for _ in range(4):
            g = o * g
        check(same_cells(g.objects, snapshot), 'four quarter turns')
    check(same_cells((O.B * (O.B * grid)).objects, snapshot), 'two half turns')

    # rotating a subgrid view (observation pipeline): slice then rotate
    for area in [Area((-1, height), (-1, width)), Area((0, 0), (0, width - 1)), Area((height - 1, height + 1), (-2, 0))]:
        view = grid.subgrid(area)
        for o in ORIENTATIONS:
            rotated = o * view
            check(same_cells(rotated.objects, ref_index_map(o, view.objects)), 'rotated subgrid')
            check(same_cells((-o * rotated).objects, view.objects), 'rotated subgrid undone')

# unsupported operands still refuse
grid = Grid(make_cells(2, 3))
for junk in [3, 'R', None, Position(0, 0), 1.5]:
    try:
        grid * junk
    except TypeError:
        pass
    else:
        check(False, f'Grid * {junk!r} should be a TypeError')
    checks += 1

# the orientation group the grid action is built on
for a, b in itt.product(ORIENTATIONS, repeat=2):
    check(a * b is FROM_QUARTER_TURNS[(QUARTER_TURNS[a] + QUARTER_TURNS[b]) % 4], 'group table')
    check(a * -a is O.F, 'inverse')

print(f'OK ({checks} checks)')
