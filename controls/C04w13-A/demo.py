"""Demo for change A (InnerEnv: single place where the current state is installed).

Checks property C04 on a broad set of GridWorld configurations:  the stateful
interface (reset / step / state / observation) yields exactly the trajectory
obtained by threading states through the functional interface with the same
seed, with arbitrary patterns of state / observation reads in between
(including none, and repeated reads), mid-way resets, re-seeding, failing
steps, and several environments interleaved in one process.

Runs (and exits 0) both on the pristine tree and with the change applied.
"""
import os
import sys

sys.path.insert(0, os.getcwd())

import warnings

warnings.simplefilter('ignore')

import numpy as np

from gym_gridverse.action import Action
from gym_gridverse.debugging import reset_gv_debug
from gym_gridverse.envs import observation_functions as obf
from gym_gridverse.envs import reset_functions as rsf
from gym_gridverse.envs import reward_functions as rwf
from gym_gridverse.envs import terminating_functions as tmf
from gym_gridverse.envs import transition_functions as trf
from gym_gridverse.envs.gridworld import GridWorld
from gym_gridverse.envs.inner_env import InnerEnv
from gym_gridverse.geometry import Area, Shape
from gym_gridverse.grid_object import (
    Beacon,
    Color,
    Door,
    Exit,
    Floor,
    Key,
    MovingObstacle,
    Telepod,
    Wall,
)
from gym_gridverse.observation import Observation
from gym_gridverse.outer_env import OuterEnv
from gym_gridverse.representations.observation_representations import (
    make_observation_representation,
)
from gym_gridverse.representations.state_representations import (
    make_state_representation,
)
from gym_gridverse.spaces import ActionSpace, ObservationSpace, StateSpace
from gym_gridverse.state import State

reset_gv_debug(True)

ALL_COLORS = [Color.NONE, Color.RED, Color.GREEN, Color.BLUE, Color.YELLOW]


def make_env(
    reset,
    shape,
    objects,
    space_colors,
    area,
    observation,
    transitions,
    actions=None,
    terminating='reach_exit',
    **reset_kwargs,
):
    shape = Shape(*shape)
    area = Area(*area)
    state_space = StateSpace(shape, objects, space_colors)
    observation_space = ObservationSpace(
        Shape(area.height, area.width), objects, space_colors
    )
    action_space = ActionSpace(list(Action) if actions is None else actions)
    return GridWorld(
        state_space,
        action_space,
        observation_space,
        rsf.factory(reset, shape=shape, **reset_kwargs),
        trf.factory(
            'chain',
            transition_functions=[trf.factory(name) for name in transitions],
        ),
        obf.factory(observation, area=area),
        rwf.factory(
            'reduce_sum',
            reward_functions=[
                rwf.factory('reach_exit', reward_on=5.0, reward_off=0.0),
                rwf.factory('living_reward', reward=-0.05),
                rwf.factory('bump_into_wall', reward=-1.0),
            ],
        ),
        tmf.factory(terminating),
    )


MOVES = [
    Action.MOVE_FORWARD,
    Action.MOVE_BACKWARD,
    Action.MOVE_LEFT,
    Action.MOVE_RIGHT,
    Action.TURN_LEFT,
    Action.TURN_RIGHT,
]

# (label, factory);  non-square grids, asymmetric view areas, 1-wide and
# 1-high views, views larger than the grid, stochastic observations, stochastic
# transitions, every shipped reset function
CONFIGS = [
    (
        'empty-4x4-det',
        lambda: make_env(
            'empty',
            (4, 4),
            [Wall, Floor, Exit],
            [Color.NONE],
            ((-6, 0), (-3, 3)),
            'partially_occluded',
            ['move_agent', 'turn_agent'],
            actions=MOVES,
        ),
    ),
    (
        'empty-4x9-random-sray',
        lambda: make_env(
            'empty',
            (4, 9),
            [Wall, Floor, Exit],
            [Color.NONE],
            ((-2, 1), (-1, 3)),
            'stochastic_raytracing',
            ['move_agent', 'turn_agent'],
            random_agent=True,
            random_exit=True,
        ),
    ),
    (
        'empty-8x5-view1x1',
        lambda: make_env(
            'empty',
            (8, 5),
            [Wall, Floor, Exit],
            [Color.NONE],
            ((0, 0), (0, 0)),
            'fully_transparent',
            ['move_agent', 'turn_agent'],
            random_agent=True,
        ),
    ),
    (
        'rooms-7x10',
        lambda: make_env(
            'rooms',
            (7, 10),
            [Wall, Floor, Exit],
            [Color.NONE],
            ((-3, 0), (-2, 2)),
            'raytracing',
            ['move_agent', 'turn_agent'],
            layout=(2, 2),
        ),
    ),
    (
        'dynamic-obstacles-6x7',
        lambda: make_env(
            'dynamic_obstacles',
            (6, 7),
            [Wall, Floor, Exit, MovingObstacle],
            [Color.NONE],
            ((-6, 0), (-3, 3)),
            'stochastic_raytracing',
            ['move_agent', 'turn_agent', 'move_obstacles'],
            actions=MOVES,
            terminating='bump_moving_obstacle',
            num_obstacles=3,
            random_agent=True,
        ),
    ),
    (
        'keydoor-5x8',
        lambda: make_env(
            'keydoor',
            (5, 8),
            [Wall, Floor, Exit, Door, Key],
            [Color.NONE, Color.YELLOW],
            ((-4, 0), (-1, 3)),
            'stochastic_raytracing',
            ['move_agent', 'turn_agent', 'actuate_door', 'pickndrop'],
        ),
    ),
    (
        'keydoor-7x7-tall-view',
        lambda: make_env(
            'keydoor',
            (7, 7),
            [Wall, Floor, Exit, Door, Key],
            [Color.NONE, Color.YELLOW],
            ((-6, 2), (0, 0)),
            'raytracing',
            ['move_agent', 'turn_agent', 'actuate_door', 'pickndrop'],
        ),
    ),
    (
        'crossing-7x9',
        lambda: make_env(
            'crossing',
            (7, 9),
            [Wall, Floor, Exit],
            [Color.NONE],
            ((-6, 0), (-3, 3)),
            'partially_occluded',
            ['move_agent', 'turn_agent'],
            num_rivers=2,
            object_type=Wall,
        ),
    ),
    (
        'teleport-5x6',
        lambda: make_env(
            'teleport',
            (5, 6),
            [Wall, Floor, Exit, Telepod],
            ALL_COLORS,
            ((-1, 1), (-1, 1)),
            'stochastic_raytracing',
            ['move_agent', 'turn_agent', 'teleport'],
        ),
    ),
    (
        'memory-6x5',
        lambda: make_env(
            'memory',
            (6, 5),
            [Wall, Floor, Exit, Beacon],
            ALL_COLORS,
            ((-6, 0), (-3, 3)),
            'raytracing',
            ['move_agent', 'turn_agent'],
            colors={Color.RED, Color.GREEN},
        ),
    ),
    (
        'memory-rooms-7x10',
        lambda: make_env(
            'memory_rooms',
            (7, 10),
            [Wall, Floor, Exit, Beacon],
            ALL_COLORS,
            ((-2, 0), (-4, 4)),
            'stochastic_raytracing',
            ['move_agent', 'turn_agent'],
            layout=(2, 2),
            colors={Color.RED, Color.GREEN, Color.BLUE, Color.YELLOW},
            num_beacons=1,
            num_exits=2,
        ),
    ),
]


class Reference:
    """Reference implementation of the stateful interface, embedded here.

    Threads states through the functional interface explicitly;  the
    observation of a state is generated at the first read only.
    """

    def __init__(self, env: InnerEnv):
        self.env = env
        self.current = None
        self.memo = None

    def reset(self):
        self.current = self.env.functional_reset()
        self.memo = None

    def step(self, action):
        if self.current is None:
            raise RuntimeError
        next_state, reward, done = self.env.functional_step(
            self.current, action
        )
        self.current = next_state
        self.memo = None
        return reward, done

    @property
    def state(self):
        if self.current is None:
            raise RuntimeError
        return self.current

    @property
    def observation(self):
        if self.memo is None:
            self.memo = self.env.functional_observation(self.state)
        return self.memo


def rng_fingerprint(env):
    # consumes nothing
    return repr(env._rng.bit_generator.state)


def raises(error_type, f):
    try:
        f()
    except error_type:
        return True
    return False


num_checks = 0


def check(condition, message):
    global num_checks
    num_checks += 1
    if not condition:
        print('FAIL:', message)
        sys.exit(1)


def run_pair(label, factory, seed, pattern_rng, num_steps, read_mode):
    """drives a stateful env and the reference side by side"""
    stateful = factory()
    functional = factory()
    reference = Reference(functional)

    # nothing available before the first reset
    check(raises(RuntimeError, lambda: stateful.state), f'{label} state pre')
    check(
        raises(RuntimeError, lambda: stateful.observation),
        f'{label} observation pre',
    )
    check(
        raises(RuntimeError, lambda: stateful.step(Action.TURN_LEFT)),
        f'{label} step pre',
    )
    check(
        raises(RuntimeError, lambda: stateful.state),
        f'{label} state pre (after failed step)',
    )

    stateful.set_seed(seed)
    functional.set_seed(seed)

    def reads():
        """arbitrary pattern of reads of the current state / observation"""
        if read_mode == 'none':
            pattern = []
        elif read_mode == 'always':
            pattern = ['o', 's', 'o', 'o', 's']
        elif read_mode == 'state-only':
            pattern = ['s', 's']
        else:
            pattern = list(
                pattern_rng.choice(
                    ['o', 's'], size=int(pattern_rng.integers(0, 4))
                )
            )

        first_observation = None
        for what in pattern:
            if what == 's':
                check(
                    stateful.state is stateful.state,
                    f'{label} state reads are stable',
                )
                check(
                    stateful.state == reference.state,
                    f'{label} state differs from functional threading',
                )
            else:
                before = rng_fingerprint(stateful)
                observation = stateful.observation
                if first_observation is None:
                    first_observation = observation
                    check(
                        isinstance(observation, Observation),
                        f'{label} observation type',
                    )
                else:
                    check(
                        observation is first_observation,
                        f'{label} repeated read returns another observation',
                    )
                    check(
                        rng_fingerprint(stateful) == before,
                        f'{label} repeated read consumed randomness',
                    )
                check(
                    observation == reference.observation,
                    f'{label} observation differs from functional threading',
                )
                check(
                    observation.agent.grid_object
                    == stateful.state.agent.grid_object,
                    f'{label} observation is stale (held item)',
                )
            check(
                rng_fingerprint(stateful) == rng_fingerprint(functional),
                f'{label} rng streams diverged',
            )
        return first_observation

    stateful.reset()
    reference.reset()
    check(isinstance(stateful.state, State), f'{label} state type')
    check(stateful.state == reference.state, f'{label} initial state')
    previous_observation = reads()

    actions = stateful.action_space.actions
    for t in range(num_steps):
        # mid-way resets and re-seeding
        event = pattern_rng.integers(0, 12)
        transitioned = event != 1
        if event == 0:
            stateful.reset()
            reference.reset()
            check(
                stateful.state == reference.state, f'{label} mid-way reset'
            )
        elif event == 1:
            new_seed = int(pattern_rng.integers(0, 1000))
            stateful.set_seed(new_seed)
            functional.set_seed(new_seed)
            # re-seeding alone changes neither state nor observation
            check(
                stateful.state == reference.state, f'{label} state at re-seed'
            )
            if previous_observation is not None:
                check(
                    stateful.observation is previous_observation,
                    f'{label} re-seeding dropped the observation',
                )
        else:
            action = actions[int(pattern_rng.integers(0, len(actions)))]
            previous_state = stateful.state
            reward, done = stateful.step(action)
            reward_ref, done_ref = reference.step(action)
            check(reward == reward_ref, f'{label} reward at {t}')
            check(done == done_ref, f'{label} done at {t}')
            check(
                stateful.state is not previous_state,
                f'{label} step did not install a new state',
            )
        check(stateful.state == reference.state, f'{label} state at {t}')
        check(
            rng_fingerprint(stateful) == rng_fingerprint(functional),
            f'{label} rng after transition {t}',
        )

        observation = reads()
        if transitioned:
            if observation is not None and previous_observation is not None:
                check(
                    observation is not previous_observation,
                    f'{label} observation not regenerated after a transition',
                )
            previous_observation = observation
        else:
            if observation is not None and previous_observation is not None:
                check(
                    observation is previous_observation,
                    f'{label} observation regenerated without a transition',
                )
            if previous_observation is None:
                previous_observation = observation

    # a failing step leaves state and observation in place
    if Action.PICK_N_DROP not in actions:
        state = stateful.state
        observation = stateful.observation
        reference.observation
        before = rng_fingerprint(stateful)
        check(
            raises(ValueError, lambda: stateful.step(Action.PICK_N_DROP)),
            f'{label} illegal action',
        )
        check(stateful.state is state, f'{label} state after failed step')
        check(
            stateful.observation is observation,
            f'{label} observation after failed step',
        )
        check(
            rng_fingerprint(stateful) == before,
            f'{label} failed step consumed randomness',
        )

    # final reset:  observation regenerated
    observation = stateful.observation
    reference.observation
    stateful.reset()
    reference.reset()
    check(
        stateful.observation is not observation,
        f'{label} observation survived a reset',
    )
    check(
        stateful.observation == reference.observation,
        f'{label} observation after final reset',
    )
    check(
        rng_fingerprint(stateful) == rng_fingerprint(functional),
        f'{label} rng at the end',
    )


def run_interleaved(seed):
    """several environments in one process, stepped in an interleaved way"""
    factories = [factory for _, factory in CONFIGS[:6]]
    stateful = [factory() for factory in factories]
    references = [Reference(factory()) for factory in factories]
    for i, (env, reference) in enumerate(zip(stateful, references)):
        env.set_seed(seed + i)
        reference.env.set_seed(seed + i)

    pattern_rng = np.random.default_rng(seed)
    for env, reference in zip(stateful, references):
        env.reset()
        reference.reset()

    for _ in range(60):
        i = int(pattern_rng.integers(0, len(stateful)))
        env, reference = stateful[i], references[i]
        actions = env.action_space.actions
        action = actions[int(pattern_rng.integers(0, len(actions)))]
        check(
            env.step(action) == reference.step(action),
            'interleaved reward/done',
        )
        if pattern_rng.integers(0, 2):
            check(
                env.observation == reference.observation,
                'interleaved observation',
            )
        for j, (env, reference) in enumerate(zip(stateful, references)):
            check(env.state == reference.state, f'interleaved state {j}')


def run_outer(label, factory, seed):
    """outer env exposes the representations of inner state and observation"""
    for name in ['default', 'no-overlap', 'compact']:
        inner = factory()
        functional = factory()
        reference = Reference(functional)
        state_representation = make_state_representation(
            name, inner.state_space
        )
        observation_representation = make_observation_representation(
            name, inner.observation_space
        )
        outer = OuterEnv(
            inner,
            state_representation=state_representation,
            observation_representation=observation_representation,
        )
        check(raises(RuntimeError, lambda: outer.state), f'{label} outer pre')
        check(
            raises(RuntimeError, lambda: outer.observation),
            f'{label} outer pre',
        )
        inner.set_seed(seed)
        functional.set_seed(seed)
        outer.reset()
        reference.reset()

        def same(a, b):
            return a.keys() == b.keys() and all(
                a[k].dtype == b[k].dtype and np.array_equal(a[k], b[k])
                for k in a.keys()
            )

        pattern_rng = np.random.default_rng(seed)
        actions = outer.action_space.actions
        for t in range(12):
            if pattern_rng.integers(0, 3):
                check(
                    same(
                        outer.observation,
                        observation_representation.convert(
                            reference.observation
                        ),
                    ),
                    f'{label} outer observation {name} {t}',
                )
                check(
                    same(outer.observation, outer.observation),
                    f'{label} outer observation repeated {name} {t}',
                )
            if pattern_rng.integers(0, 3):
                check(
                    same(
                        outer.state,
                        state_representation.convert(reference.state),
                    ),
                    f'{label} outer state {name} {t}',
                )
            action = actions[int(pattern_rng.integers(0, len(actions)))]
            check(
                outer.step(action) == reference.step(action),
                f'{label} outer step {name} {t}',
            )
            check(
                rng_fingerprint(inner) == rng_fingerprint(functional),
                f'{label} outer rng {name} {t}',
            )


def run_hardcoded():
    """hard-coded expectations on a deterministic corridor"""
    env = make_env(
        'empty',
        (4, 6),
        [Wall, Floor, Exit],
        [Color.NONE],
        ((-2, 0), (-1, 1)),
        'fully_transparent',
        ['move_agent', 'turn_agent'],
    )
    env.set_seed(0)
    env.reset()
    check(env.state.agent.position.yx == (1, 1), 'hardcoded start')
    trajectory = []
    for action in [
        Action.MOVE_FORWARD,
        Action.MOVE_FORWARD,
        Action.MOVE_FORWARD,
        Action.MOVE_FORWARD,
        Action.TURN_RIGHT,
        Action.MOVE_FORWARD,
        Action.MOVE_FORWARD,
    ]:
        reward, done = env.step(action)
        front = env.observation.grid[1, 1]
        trajectory.append(
            (
                env.state.agent.position.yx,
                env.state.agent.orientation.name,
                round(reward, 2),
                done,
                type(front).__name__,
            )
        )
    expected = [
        ((1, 2), 'RIGHT', -0.05, False, 'Floor'),
        ((1, 3), 'RIGHT', -0.05, False, 'Floor'),
        ((1, 4), 'RIGHT', -0.05, False, 'Wall'),
        ((1, 4), 'RIGHT', -1.05, False, 'Wall'),
        ((1, 4), 'BACKWARD', -0.05, False, 'Exit'),
        ((2, 4), 'BACKWARD', 4.95, True, 'Wall'),
        ((2, 4), 'BACKWARD', 3.95, True, 'Wall'),
    ]
    check(trajectory == expected, f'hardcoded trajectory {trajectory}')


def main():
    pattern_rng = np.random.default_rng(20240)
    for label, factory in CONFIGS:
        for seed in [0, 1, 7, 123456789]:
            for read_mode in ['none', 'always', 'state-only', 'random']:
                run_pair(
                    f'{label}/seed={seed}/{read_mode}',
                    factory,
                    seed,
                    pattern_rng,
                    25,
                    read_mode,
                )
        run_outer(label, factory, 5)

    # unseeded environment:  the library-level generator is used, still
    # mirrors (same generator on both sides is not possible, so only the
    # structural guarantees are checked)
    _, factory = CONFIGS[1]
    env = factory()
    env.reset()
    first = env.observation
    check(env.observation is first, 'unseeded repeated read')
    env.step(Action.TURN_LEFT)
    check(env.observation is not first, 'unseeded stale observation')

    run_interleaved(11)
    run_interleaved(12)
    run_hardcoded()
    print(f'OK ({num_checks} checks)')


if __name__ == '__main__':
    main()
